#!/bin/sh
# usage: verify_seed.sh <name> <patch.diff> <demo.py> [--suite]
# Confirms in a scratch worktree of /repo HEAD: patch applies; demo FAILS with it, PASSES without; (optionally) full suite passes with it.
name=$1; patch=$2; demo=$3; suite=$4
wt=/tmp/seed_verify_wt/$name
out=/tmp/seed_verify/$name.txt
mkdir -p /tmp/seed_verify /tmp/seed_verify_wt
rm -rf "$wt"; git -C /repo worktree prune
git -C /repo worktree add -q "$wt" HEAD || exit 2
cd "$wt" || exit 2
{
echo "HEAD=$(git rev-parse --short HEAD)"
/venv/bin/python "$demo" >/tmp/seed_verify/$name.clean.log 2>&1; echo "demo_clean_exit=$?"
if git apply --check "$patch" 2>/dev/null; then git apply "$patch"; echo "applies=yes"; else
  if patch -p1 --dry-run -s -f < "$patch" >/dev/null 2>&1; then patch -p1 -s -f < "$patch"; echo "applies=fuzzy"; else echo "applies=NO"; fi; fi
/venv/bin/python -c "import geneticengine, geml.simplegp" >/dev/null 2>&1; echo "imports_exit=$?"
/venv/bin/python "$demo" >/tmp/seed_verify/$name.patched.log 2>&1; echo "demo_patched_exit=$?"
if [ "$suite" = "--suite" ]; then
  /venv/bin/python -m pytest -q -p no:cacheprovider --timeout=900 -n 5 2>&1 | grep -E "passed|failed|^FAILED" | tail -4 | sed 's/^/suite: /'
fi
git diff > /tmp/seed_verify/$name.applied.diff
} > "$out" 2>&1
cd /; git -C /repo worktree remove --force "$wt"
cat "$out"
