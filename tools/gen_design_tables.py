#!/venv/bin/python
"""Fill the generated tables of DESIGN.md (self-test summary, seeded matrix, benign refactorings)."""
import glob, json, os, re, sys
ROOT = os.path.dirname(os.path.dirname(os.path.abspath(__file__)))
sys.path.insert(0, ROOT)
from sa.selftest_defs import CASES

def block(s, tag, text):
    return re.sub(rf"<!-- {tag}-BEGIN -->.*?<!-- {tag}-END -->", f"<!-- {tag}-BEGIN -->\n{text}\n<!-- {tag}-END -->", s, flags=re.S)

d = open(os.path.join(ROOT, "DESIGN.md")).read()
# ---- self-test
rows = {}
for c in CASES:
    r = rows.setdefault(c["property"], {"m": 0, "t": 0, "rules": set()})
    if c["expect"] == "violation":
        r["m"] += 1
        r["rules"].add(c["rule"])
    else:
        r["t"] += 1
res = {}
if os.path.exists("/tmp/selftest_all.log"):
    for line in open("/tmp/selftest_all.log"):
        m = re.match(r"(C\d+): (\d+) cases (\{.*\})", line)
        if m:
            res[m.group(1)] = m.group(3)
txt = ["Each case edits one construct of a scratch copy of the *current* `/repo` and re-runs the property's check: a mutant must",
       "be reported with a VIOLATION naming the expected rule, a benign twin (rename, mirrored comparison, equivalent idiom) must",
       "leave the check silent (the battery also replays the seeded patches of 7.2; counted in the last column). Last full run on the final tree:", "",
       "| property | mutants (must be reported) | twins (must stay silent) | rules exercised | last result |", "|---|---|---|---|---|"]
tm = tt = 0
for pid in sorted(rows):
    r = rows[pid]
    tm += r["m"]; tt += r["t"]
    txt.append(f"| {pid} | {r['m']} | {r['t']} | {', '.join(sorted(x.split('.')[1] for x in r['rules'] if x))} | {res.get(pid, '')} |")
txt.append(f"| total | {tm} | {tt} | | |")
d = block(d, "SELFTEST", "\n".join(txt))
# ---- seeded
mp = os.path.join(ROOT, "seeded", "MATRIX.json")
if os.path.exists(mp):
    M = json.load(open(mp))
    txt = ["| seed | change | needs | reported by (rule) | own property's check |", "|---|---|---|---|---|"]
    nown = 0
    for name in sorted(M):
        meta = json.load(open(os.path.join(ROOT, "seeded", name, "meta.json")))
        own = name.split("-")[0]
        hit = {p: v["rule"] for p, v in M[name].items() if v["outcome"] == "killed"}
        o = M[name][own]["outcome"]
        nown += o == "killed"
        txt.append(f"| {name} | {meta['change']} | {meta['needs_to_manifest']} | {', '.join(f'{p} ({r})' for p, r in sorted(hit.items()))} | {'VIOLATION' if o == 'killed' else o} |")
    txt.append("")
    txt.append(f"{nown} of {len(M)} seeds are reported by the check of the property they were written against; every seed is reported by at least "
               f"{min(sum(1 for v in M[n].values() if v['outcome']=='killed') for n in M)} check(s). No check reports a violation on the unchanged tree.")
    d = block(d, "SEEDED", "\n".join(txt))
# ---- benign
bp = os.path.join(ROOT, "seeded", "BENIGN.json")
if os.path.exists(bp):
    B = json.load(open(bp))
    nsil = sum(1 for v in B.values() if v.get("outcome", "").startswith("all 20"))
    txt = [f"{len(B)} refactorings; {nsil} leave all twenty checks silent on the final machinery.", "",
           "| refactoring | what it does | own check, first run (before hardening) | all 20 checks, final |", "|---|---|---|---|"]
    for k in sorted(B):
        v = B[k]
        what = v.get("what", "").replace("|", "/")
        txt.append(f"| {k} | {what} | {v.get('first_run','') or '(delivered during the hardening round)'} | {v.get('outcome','').replace('|', '/')[:200]} |")
    d = block(d, "BENIGN", "\n".join(txt))
open(os.path.join(ROOT, "DESIGN.md"), "w").write(d)
print("tables written")
