#!/venv/bin/python
"""Turn verified sub-agent deliveries (/tmp/seed_out, /tmp/seed_verify) into /verif/seeded/<id>/ (patch.diff, demo.py,
notes.md, meta.json).  A seed is kept only if my own verification (tools/verify_seed.sh) showed: the patch applies to the
current /repo, the library still imports, the demonstration exits 0 without the change and non-zero with it, and the full
suite passes with the change (the known-flaky test_adaptive tolerated)."""
import json, os, re, shutil, sys

OUT = "/tmp/seed_out"
VER = "/tmp/seed_verify"
DST = os.path.join(os.path.dirname(os.path.dirname(os.path.abspath(__file__))), "seeded")

SUMMARY = {
 "C01-a": ("get_arguments memoises get_type_hints per production class in a module-level dict (stale after a documented re-annotation)",
           "a class seen once, re-annotated (Cls.__init__.__annotations__[..] = NewType), then a second extract_grammar"),
 "C01-b": ("DynamicSGEDecider.random_float decodes a codon as mantissa * 10**exponent: an int whenever the exponent is >= 0",
           "dynamic SGE, an un-refined float field, and a genotype that has been mutated (codons above 1024)"),
 "C02-a": ("create_node's concrete branch reuses the parent's dict of sibling values (nctx.dependent_values) instead of a fresh {}",
           "a nested concrete class with a field named like an earlier sibling of the enclosing node, and a later Dependent field"),
 "C02-b": ("get_arguments caches the resolved (name, type) list per class in a module-level dict",
           "extract a grammar, re-declare a refinement on a class already seen, extract again in the same process"),
 "C03-a": ("get_distance_to_terminal aggregates generic types with min instead of max (right for unions, wrong for tuples)",
           "a tuple field whose members have different minimum depths and a tight depth limit"),
 "C03-b": ("refactoring to LocalSynthesisContext.expand(): the union branch descends one level (default descend=True)",
           "a Union of grammar nodes chosen with no depth slack"),
 "C04-a": ("the recurse callback handed to refinements swaps depth and nodes in LocalSynthesisContext(...)",
           "a refined list reached after a sibling subtree that already counts nodes, at a tight depth bound"),
 "C04-b": ("preprocess.explode_generics yields the base type of an Annotated instead of recursing into it",
           "FullDecider, recursion only through an Annotated[list[T], ListSizeBetween] field, depth >= 3"),
 "C05-a": ("get_distance_to_terminal's annotated branch recurses on strip_annotations(ty), skipping the list branch's +expansion_depthing",
           "expansion_depthing=True and an Annotated[list[T], metahandler] field"),
 "C05-b": ("preprocess filters field types with is_terminal before process_reachability (wrappers are dropped)",
           "a symbol whose only cycle passes through a list / annotated-list / union field"),
 "C06-a": ("dynamic SGE mutate goes through Genotype.get(rkey, rindex), which appends a gene to an empty list",
           "an empty gene list (arises in crossover offspring), then a mutation that picks that key"),
 "C06-b": ("GE crossover builds child 2 as parent1.dna[rindex:] + parent2.dna[:rindex]",
           "a per-locus comparison of child 2 with its parents (lengths and gene multiset look right)"),
 "C07-a": ("create_node draws the size of a plain list from global_context.random instead of the decider",
           "dynamic SGE (where that source is the shared search stream) with an un-refined list field"),
 "C07-b": ("the DynamicSGEDecider is built once in the representation's __init__; rewind() resets cursors only for types in the genotype",
           "map genotype A, then a fresh genotype B, then B again"),
 "C08-a": ("tracker constructors default to evaluator=SequentialEvaluator() (one shared instance, counter carries over)",
           "a user-built tracker without explicit evaluator and a second search in the same process"),
 "C08-b": ("dynamic SGE crossover iterates parent1.dna.keys() | parent2.dna.keys(), a set of classes",
           "dynamic SGE, a crossover that fires, two processes with different memory layouts"),
 "C09-a": ("find_in_tree rewritten with try: o.gengy_types_this_way[ty] except KeyError: the defaultdict read inserts a key in the donor",
           "tree crossover with a non-terminal donor root; visible only in node metadata"),
 "C09-b": ("dynamic SGE mutate copies dict(genotype.dna) and only the written list; other gene lists are shared and later grown in place",
           "mutate, then evaluate the offspring so that its mapping extends a shared list"),
 "C10-a": ("create_node copies the alternatives list only when it has more than one production",
           "a symbol with exactly one production whose synthesis fails (SynthesisException)"),
 "C10-b": ("Grammar.alternatives becomes a defaultdict(list); the stack mapper's unguarded read inserts phantom non-terminals",
           "stack representation with a field typed Annotated[<abstract>, mh] or an abstract symbol without productions"),
 "C11-a": ("relabel_nodes replaces the defaultdict index by a plain dict and adopts the child's list object for a new key",
           "inner nodes with several children (root metadata stays right)"),
 "C11-b": ("tree crossover removes the donor's root from the list returned by find_in_tree (the donor's own cached index)",
           "create, crossover, then re-check the parents; concrete start symbol"),
 "C12-a": ("SequentialEvaluator.evaluate_async 'continue's for cached individuals and no longer yields them",
           "a step that evaluates offspring through the raw evaluator before the tracker sees them"),
 "C12-b": ("post_process inlined into evaluate with best = self.best_individual hoisted out of the loop (stale incumbent)",
           "one evaluate() call with at least two individuals (hill-climbing neighbourhoods)"),
 "C13-a": ("ParallelEvaluator uses the unordered pool.uimap but still zips results with the submitted order",
           "two or more unevaluated individuals whose evaluations finish out of order"),
 "C13-b": ("TournamentSelection drops its up-front evaluator.evaluate; contestants are evaluated through key_function/ensure_fitness, uncounted",
           "unevaluated individuals reaching a tournament (selection after mutation)"),
 "C14-a": ("TargetFitness compares the maximising aggregate with the target instead of fitness_components[0]",
           "a minimising problem with a non-zero target"),
 "C14-b": ("tracker constructors default to evaluator=SequentialEvaluator() (shared evaluation counter)",
           "a tracker built without evaluator, second search in the process"),
 "C15-a": ("ParallelStep.compute_ranges caches the ranges on the step, keyed by the weights only (ported to the repaired compute_ranges)",
           "the same ParallelStep reused with a different population size"),
 "C15-b": ("GenericCrossoverStep emits the odd extra individual when 'unpaired < len(npopulation)' instead of by the target's parity",
           "an input strictly larger than an even target (crossover under a ParallelStep)"),
 "C16-a": ("ElitismStep keeps individuals with key >= k-th best in population order and truncates (ties at the cut-off)",
           "two or more individuals tying at the cut-off with a strictly better one later in the population"),
 "C16-b": ("ElitismStep de-duplicates the sorted population by identity before slicing",
           "the same Individual object occurring several times (tournament winners without mutation)"),
 "C17-a": ("tournament winner found by a hand-written scan starting from (None, -inf) that only updates on '>'",
           "a tournament whose participants all have aggregate -inf or NaN"),
 "C17-b": ("lexicase shuffles one list created before the winner loop (shuffle works in place; pop drains it across winners)",
           "several winners in one call; the first is always right"),
 "C18-a": ("choice_weighted selects with bisect_left (draw equal to a boundary picks the earlier option)",
           "a draw of exactly 0 or a boundary value, e.g. a zero-weight first option and gene 0"),
 "C18-b": ("BaseDecider.random_int reduces modulo (width - half + 1) instead of (half + 1)",
           "an odd width above 1000, a particular residue and the negative sign (random_int(0, 1023) -> -1)"),
 "C19-a": ("get_weights uses get('weight') or 1.0: a declared weight of 0 becomes 1.0",
           "a production declared with weight exactly 0"),
 "C19-b": ("choice_weighted selects with bisect_left",
           "a zero-weight alternative in first position and a draw of exactly 0"),
 "C20-a": ("default CSV columns moved into a helper; the FitnessK lambda lost its comp=comp default",
           "at least two objectives with the default fields"),
 "C20-b": ("the per-row flush runs only when is_best",
           "only_record_best_individuals=False and a non-improving registration, then an interruption"),
 # ---- second round (sub-agents asked for subtler changes arriving inside a plausible refactoring)
 "C01-c": ("get_arguments resolves type hints once per class through an lru_cached helper",
           "a class re-annotated with the documented idiom after its first use, then a second extract_grammar / creation"),
 "C01-d": ("the stack mapper serves a field from the stack of any 'subtype' (issubclass): an int field is served from the bool stack",
           "stack representation, an int field, a bool value waiting on its stack while the int stack is empty"),
 "C02-c": ("get_arguments memoises the resolved constructor signature per class (functools.lru_cache)",
           "re-declare a refinement on a class already seen, extract the grammar again in the same process"),
 "C02-d": ("Dependent.generate picks the sibling values by filtering the dict in declaration order, the callable is still positional",
           "Dependent('n2,n1', f) naming siblings in an order other than their declaration order"),
 "C03-c": ("get_distance_to_terminal: max over the parameters of a generic type became min (right for unions, wrong for tuples)",
           "a tuple field whose members have different minimum depths, at a tight limit"),
 "C03-d": ("PositionIndependentGrowDecider gains an __init__ that calls super().__init__(random, grammar) without max_depth",
           "PI-grow with max_depth below 10 (works with the default 10), or a grammar whose minimum is above 10"),
 "C04-c": ("elements of a size-refined list are created one level deeper; MaxDepthDecider raises SynthesisException so that creation backtracks silently",
           "an Annotated[list[T], ListSizeBetween] field whose elements are nodes, at a tight depth limit"),
 "C04-d": ("preprocess replaces explode_generics by map(strip_annotations, ..) with a symbol filter: unions are no longer unwrapped",
           "recursion that passes only through a Union-typed field, full creation, depth >= 3"),
 "C05-c": ("usable_grammar tests is_dataclass(c) before 'c in self.alternatives'",
           "an abstract type that is itself a dataclass on the path from the start symbol (geml.grammars.letter, regex)"),
 "C05-d": ("update_weights' re-initialisation moved into _rebuild(), which no longer passes expansion_depthing (ported to the repaired update_weights)",
           "expansion_depthing=True together with a @weight-decorated production"),
 "C06-c": ("dSGE mutate rewritten with slicing and randint(0, max(len-1, 0)): an empty gene list grows to one gene",
           "an empty gene list (crossover offspring), then a mutation that picks that key"),
 "C06-d": ("per-key crossover extracted into a helper that shares one [] for all keys missing in parent 2 (deepcopy keeps the sharing)",
           "dSGE offspring with two keys missing in parent 2, mapped (lists grow in place), then mutated"),
 "C07-c": ("Genotype.get: codons = self.dna.get(ty) or [] and stored only if the key is missing: a present-but-empty list is never extended",
           "a dSGE genotype with a key mapped to [] (crossover offspring): every read draws from the shared stream"),
 "C07-d": ("DynamicSGEDecider subclasses MaxDepthDecider and inherits BaseDecider.random_float, which draws from genotype.random",
           "dSGE with an un-refined float field"),
 "C08-c": ("StringSizeBetween stores its options through a frozenset; choice indexes list(frozenset)",
           "string refinements with several options, two processes with different hash seeds"),
 "C08-d": ("preprocess drops the 'reachability grew' flag from the fixpoint condition",
           "a grammar whose reachability closure needs more rounds than the distances, iteration order of a set of classes"),
 "C09-c": ("dSGE mutate copies dict(genotype.dna) and only the edited list (copy-on-write); other lists stay shared and grow in place",
           "mutate, then map the offspring so that Genotype.get extends a list shared with the parent"),
 "C09-d": ("mutate's node-replacement branch re-wraps the chosen donor subtree with the receiving position's context (wrap_result writes it in place)",
           "tree crossover whose replacement comes from the other parent's type index"),
 "C10-c": ("create_node copies the list of productions only when there is more than one",
           "a non-terminal with exactly one production whose synthesis fails (SynthesisException handler removes it from the grammar)"),
 "C10-d": ("the stack mapper visits productions in r.shuffle(g.alternatives[target_type]) order: shuffle is in place",
           "stack representation, any abstract symbol with two or more productions"),
 "C11-c": ("relabel_nodes keeps the type index in a plain dict and adopts the child's list object for a new key",
           "an inner node with two arguments under which the same type occurs"),
 "C11-d": ("the abstract-expansion table is computed in one pass before the fixpoint instead of inside it",
           "expansion_depthing=True and an abstract class deriving from another abstract class"),
 "C12-c": ("the incumbent's fitness is looked up once per batch and handed to post_process (stale within the batch)",
           "one evaluate() call with two improving individuals, the second worse than the first"),
 "C12-d": ("SequentialEvaluator.evaluate_async 'continue's for cached individuals before the yield",
           "individuals evaluated through the raw evaluator before the tracker sees them"),
 "C13-c": ("TournamentSelection drops its up-front evaluation; key_function -> ensure_fitness evaluates uncounted",
           "unevaluated individuals reaching a tournament"),
 "C13-d": ("ParallelEvaluator zips pending with pool.uimap (completion order)",
           "two or more unevaluated individuals whose evaluations finish out of order"),
 "C14-c": ("tracker constructors default to evaluator=SequentialEvaluator() (same mechanism as C14-b)",
           "a tracker built without evaluator, a second search in the process"),
 "C14-d": ("Population.__init__ hands an individual to the tracker only if it has no fitness yet",
           "a step composition that ends in an evaluating stage (raw evaluator): the tracker's best is never updated, TargetFitness never stops"),
 "C15-c": ("ElitismStep de-duplicates its candidates by identity ({id(ind): ind ...}.values()) and never tops up",
           "the same Individual object several times in the input, fewer than k distinct objects"),
 "C15-d": ("compute_ranges scales shares by target_size and lets the largest slice absorb the rounding error (can go negative)",
           "five or more sub-steps with small targets (5 equal weights, k=3 gives 4)"),
 "C16-c": ("ElitismStep ranks each Individual object once (identity de-duplication; same mechanism as C15-c / C16-b)",
           "duplicates in the input and k reaching past the first duplicated object"),
 "C16-d": ("ParallelEvaluator collects results with pool.uimap (same mechanism as C13-a/C13-d): fitnesses land on the wrong individuals",
           "ParallelEvaluator, a batch of two or more unevaluated individuals, differing evaluation times"),
 "C17-c": ("lexicase case list built once before the winner loop; shuffle returns the same list, pop drains it",
           "several winners in one call"),
 "C17-d": ("ensure_fitness returns self.get_fitness() without the problem; key_function ranks by the first stored problem's fitness",
           "individuals evaluated for another problem first"),
 "C18-c": ("choice_weighted draws below int(sum(weights)*100000) but accumulates int(weight*100000) per option",
           "fractional weights, a zero-weight first option and the draw in the truncation gap"),
 "C18-d": ("DynamicSGEDecider.random_int scales the gene over wide ranges instead of reducing it modulo the range",
           "a range of more than 1025 values and a gene above 1024 (after mutation)"),
 "C19-c": ("extract_grammar decides to normalise with get_gengy(p).get('weight') (truthiness) over all nodes",
           "every declared weight is 0 (one production switched off, unweighted siblings)"),
 "C19-d": ("the stack mapper sorts the candidate types but builds the weight list from the unsorted set",
           "stack representation with non-uniform weights"),
 "C20-c": ("the default field table becomes a module-level dict that every recorder aliases and extends",
           "two recorders in one process (the second inherits the first one's Fitness / extra columns)"),
 "C20-d": ("post_process folded into evaluate with the incumbent hoisted out of the loop: is_best flags are stale within a batch",
           "only_record_best_individuals=True and a batch with two improvements, the second worse than the first"),
 # ---- third round (asked to avoid every mechanism tried before; interplay of two sites, rarely used configurations)
 "C01-e": ("list refinements share generate_sized_list(), which reads the element type with strip_annotations (unwraps every list / Annotated layer)",
           "Annotated[list[list[int]], ListSizeBetween(..)]: a flat list of ints is produced"),
 "C01-f": ("GE ListWrapper.random_float returns min unchanged when min == max",
           "GE, a FloatRange written with int bounds whose range collapses (Dependent FloatRange(start, 3) with start == 3): an int in a float field"),
 "C02-e": ("MetaHandlerGenerator gains __eq__ / __hash__ by class and repr; StringSizeBetween's repr omits the alphabet, typing merges the Annotated types",
           "two StringSizeBetween refinements with equal bounds and different alphabets in one process"),
 "C02-f": ("NativeRandomSource.random_float computed as (1-u)*min + u*max (rounds twice)",
           "FloatRange(1.7, 1.7): the generated value is one ulp off and its own validate rejects it"),
 "C03-e": ("create_node's retry list aliases the grammar's production list (list(...) dropped): a failed production is removed from the grammar",
           "a context-dependent production (VarRange([]) raises) tried once; later positions at remaining depth 1 have no production left"),
 "C03-f": ("concrete and list values are wrapped with nctx (their children's context) instead of the context they were created under",
           "tree representation, concrete start symbol, mutations chained on their own results: the root drifts one level per mutation"),
 "C04-e": ("recursive_prods is filled by a comprehension that skips abstract symbols",
           "a Union[<abstract>, <leaf production>] field, the Full decider, max_depth >= 4: branches end early"),
 "C04-f": ("list refinements share element_type_of(), which returns strip_annotations(list_type)",
           "a size-refined list whose element type carries its own refinement: elements outside it are produced"),
 "C05-e": ("preprocess resets distances with setdefault: the base-type seeds (0) of __init__ survive in expansion-depthing mode",
           "expansion_depthing=True: every symbol whose shallowest program ends in an int / float / str leaf is one level too shallow"),
 "C05-f": ("process_reachability reports a change only when the source itself is new to the set ('src not in reach')",
           "mutual recursion through three or more abstract stages whose depths settle quickly: recursive_prods misses the cycle"),
 "C06-e": ("SGE mutate copies dict(genotype.dna): the mutated gene list is shared with the parent",
           "two mutations along shared lists (hill climbing's neighbourhood, parent -> child -> grandchild)"),
 "C06-f": ("stack-GGGP mutate retries up to five point mutations on one working copy when the mutant does not decode",
           "short genomes / small failures_limit: genes written by rejected attempts stay in the offspring"),
 "C09-e": ("ParallelEvaluator zips the computed fitnesses with the whole batch instead of the pending individuals",
           "ParallelEvaluator and a batch mixing evaluated and unevaluated individuals: cached fitnesses are overwritten"),
 "C09-f": ("dSGE mutate returns the parent Genotype object itself when it has no genes yet",
           "a never-mapped dynamic-SGE individual mutated, then mapped: the parent's genes grow"),
 "C11-e": ("relabel_nodes accounts for plain-value children by hand and skips their distance update",
           "expansion_depthing=True and a production whose fields are all plain values: distance one too small"),
 "C11-f": ("update_weights rebuilds on a fresh Grammar(start, nodes) and adopts its __dict__: the depth mode is dropped",
           "expansion_depthing=True together with @weight (or an explicit update_weights mid-run): labels of two conventions"),
 "C12-e": ("the multi-objective front is rebuilt with is_dominated(ind, [old]) instead of is_dominated(old, [ind])",
           "an improvement followed by a value between an earlier best and the current best (aggregates 1, 3, 2)"),
 "C12-f": ("GeneticProgramming.search returns best_individual(population.individuals, problem) instead of the tracker's best",
           "the best individual drops out of the population (no elitism slot for population_size 10)"),
 "C15-e": ("GrowInitializer's retry loop rewritten as for / for-else: a slot whose max_tries attempts all fail is skipped",
           "a grammar whose minimal depth is above 1: the initial population is short by (depth - 1)"),
 "C15-f": ("ParallelStep / ExclusiveParallelStep skip a sub-step whose weight is 0 although compute_ranges gave it a non-empty last slice",
           "a zero-weight last step and rounded shares that under-shoot ([1,1,0] with k=5 gives 4)"),
 "C07-e": ("dSGE mutate hoists gene = genotype.dna[rkey] (the parent's list) and writes gene[rindex]: the parent is modified, the child is an unmodified clone",
           "a mutate(r, g) call between two mappings of g"),
 "C07-f": ("the stack representation builds its stacks once and clears them only after a successful mapping",
           "a failed mapping (caught by the caller) followed by mapping another genotype on the same representation"),
 "C08-e": ("the dSGE decider is built once per representation; rewind() resets cursors only for grammar nodes (same mechanism as C07-b)",
           "two searches sharing one dSGE representation object, a grammar with a Union / plain-list symbol"),
 "C08-f": ("ParallelEvaluator zips pending with pool.uimap (same mechanism as C13-a / C13-d)",
           "ParallelEvaluator, a batch of several unevaluated individuals with varying evaluation times"),
 "C13-e": ("the multi-objective default aggregate reads self.minimize at call time after evaluate() rewrote the bool into a (truthy) list",
           "MultiObjectiveProblem(minimize=False, ...) without a user aggregate: every component is negated"),
 "C13-f": ("ParallelEvaluator gets an in-process fast path for one-individual batches that skips the already-evaluated filter",
           "ParallelEvaluator and a batch of exactly one individual that already has a fitness"),
 "C14-e": ("TournamentSelection drops its up-front evaluation (same mechanism as C13-b / C13-c): uncounted evaluations stall the budget",
           "a step composition where selection follows variation, EvaluationBudget above the population size"),
 "C14-f": ("target budgets use math.isclose(value, target, rel_tol=tolerance): the tolerance becomes relative",
           "a target of 0 approached but not hit exactly (never done), or a target of large magnitude (done too early)"),
 "C16-e": ("sort_population ranks by problem.key_function(x.get_fitness()) - the fitness of the first problem the individual ever saw",
           "individuals that carry a fitness for another problem (injected evaluated individuals, a population ranked for two problems)"),
 "C16-f": ("SimpleGP.build_step nests the elitism-hosting ParallelStep behind the selection step of a SequenceStep",
           "any SimpleGP run with elitism >= 1: elites are the best of the tournament winners"),
 "C17-e": ("Individual gains a genotype-based __eq__ / __hash__; candidates.remove(winner) removes the first equal individual",
           "two distinct individuals with equal genotypes, the later clone winning, target_size >= 2"),
 "C17-f": ("epsilon-lexicase computes each case's median absolute deviation once from the whole population",
           "epsilon=True and several winners or cases: the stale band lets a non-survivor win"),
 "C18-e": ("GE ListWrapper.random_float divides by next_gene() + 1 instead of randint(1, maxsize)",
           "a negative gene consumed by random_float (hand-made or decoded gene lists): result below min or ZeroDivisionError"),
 "C18-f": ("pop_random implemented as choice + list.remove (removes the first equal element, not the chosen object)",
           "a list with equal but distinct elements (equal nodes, 1 / 1.0 / True) and a draw selecting a later one"),
 "C19-e": ("abstract() replaces the class's __gengy__ dict instead of updating it: a weight declared below it is dropped",
           "@abstract written above @weight(w) on a nested abstract type"),
 "C19-f": ("ProgressivelyTerminalDecider caches the grammar-weight vector per non-terminal and zips it with the (shrinking) alternatives",
           "a zero-weight production and an earlier production that fails to synthesise (SynthesisException retry)"),
 "C20-e": ("the CSV header comes from a list (fields + extra fields) while rows use the merged dict",
           "an extra field that reuses an existing column name: N+M header cells, N+M-1 row cells"),
 "C20-f": ("post_process uses best_individual([individual, incumbent]) and 'is not incumbent': a tie counts as an improvement",
           "only_record_best_individuals=True and a distinct individual whose fitness equals the incumbent's"),
 "C10-e": ("choice_weighted turns its weights argument into running totals in place",
           "WeightedStringHandler passes numpy row views of its probability matrix: every creation rewrites the refinement (zero-probability characters become creatable)"),
 "C10-f": ("SGE create_genotype computes its gene keys with symbols = self.grammar.all_nodes; symbols |= mentioned (in-place union on the grammar's own set)",
           "the SGE representation on a grammar with a generic or refined field, then any reader of all_nodes (get_max_node_depth raises KeyError)"),
}


def parse(path):
    d = {}
    for line in open(path):
        line = line.strip()
        if line.startswith("suite:"):
            d["suite"] = line[len("suite:"):].strip()
        elif "=" in line:
            k, v = line.split("=", 1)
            d[k] = v
    return d


def main():
    kept, dropped = [], []
    for name in sorted(SUMMARY):
        vf = os.path.join(VER, name + ".txt")
        prop, x = name.split("-")
        src = os.path.join(OUT, prop, x) if x in "ab" else os.path.join("/tmp/seed2_out", prop, {"c": "a", "d": "b"}[x]) if x in "cd" \
            else os.path.join("/tmp/seed3_out", prop, {"e": "a", "f": "b"}[x])
        if not os.path.exists(vf):
            dropped.append((name, "not verified yet"))
            continue
        v = parse(vf)
        suite = v.get("suite", "")
        m = re.search(r"(\d+) passed", suite)
        failed = re.search(r"(\d+) failed", suite)
        ok = v.get("demo_clean_exit") == "0" and v.get("applies") in ("yes", "fuzzy") and v.get("imports_exit") == "0" \
            and v.get("demo_patched_exit") not in (None, "0") and m and int(m.group(1)) >= 120 and not (failed and int(failed.group(1)) > 1)
        if not ok:
            dropped.append((name, json.dumps(v)))
            continue
        dst = os.path.join(DST, name)
        os.makedirs(dst, exist_ok=True)
        shutil.copy(os.path.join(VER, name + ".applied.diff"), os.path.join(dst, "patch.diff"))
        shutil.copy(os.path.join(src, "demo.py"), os.path.join(dst, "demo.py"))
        if os.path.exists(os.path.join(src, "notes.md")):
            shutil.copy(os.path.join(src, "notes.md"), os.path.join(dst, "notes.md"))
        old = {}
        if os.path.exists(os.path.join(dst, "meta.json")):
            old = json.load(open(os.path.join(dst, "meta.json")))
        what, needs = SUMMARY[name]
        meta = {
            "id": name, "property": prop, "change": what, "needs_to_manifest": needs,
            "origin": "independent sub-agent given only the property text and a scratch worktree"
                      + (" (ported by hand to the repaired compute_ranges)" if name == "C15-a" else "")
                      + (" (ported by hand to the repaired update_weights)" if name == "C05-d" else "")
                      + ("; second round: asked for a subtler change arriving inside a plausible refactoring" if x in "cd" else "")
                      + ("; third round: told which mechanisms had been tried, asked for different ones (interplay of two sites, rare configurations)" if x in "ef" else ""),
            "verified_by_me": {
                "repo_head": v.get("HEAD"), "patch_applies": v.get("applies"), "library_imports": v.get("imports_exit") == "0",
                "demo_exit_without_change": int(v.get("demo_clean_exit")), "demo_exit_with_change": int(v.get("demo_patched_exit")),
                "suite_with_change": suite,
                "commands": ["git -C /repo worktree add <scratch> HEAD", "python demo.py  (clean)", "git apply patch.diff",
                             "python -c 'import geneticengine, geml.simplegp'", "python demo.py  (patched)",
                             "python -m pytest -q -p no:cacheprovider --timeout=900 -n 5", "git worktree remove --force <scratch>"],
            },
            "checked_by": old.get("checked_by", [prop]),
            "caught_by_rule": old.get("caught_by_rule", {}),
        }
        json.dump(meta, open(os.path.join(dst, "meta.json"), "w"), indent=1)
        kept.append(name)
    print("kept", len(kept), kept)
    for n, why in dropped:
        print("not kept:", n, why[:200])


if __name__ == "__main__":
    main()
