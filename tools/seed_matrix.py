#!/venv/bin/python
"""Run every property check against every kept seed (scratch copies, 16 jobs); record which checks report a violation.
Updates seeded/<id>/meta.json (checked_by, caught_by_rule) and writes seeded/MATRIX.json."""
import concurrent.futures as cf, glob, json, os, sys
ROOT = os.path.dirname(os.path.dirname(os.path.abspath(__file__)))
sys.path.insert(0, ROOT)
from sa.selftest import _run_case

PIDS = [f"C{i:02d}" for i in range(1, 21)]
seeds = sorted(os.path.dirname(p) for p in glob.glob(os.path.join(ROOT, "seeded", "*", "meta.json")))
only = sys.argv[1:]
jobs = []
for sd in seeds:
    name = os.path.basename(sd)
    if only and name not in only:
        continue
    own = name.split("-")[0]
    # own property first, then the neighbours most likely to see the same construct; all 20 are run
    for pid in PIDS:
        jobs.append((name, pid, os.path.join(sd, "patch.diff")))

def run(j):
    name, pid, patch = j
    r = _run_case(dict(id=name, property=pid, expect="violation", patch=patch), "/repo")
    rule = ""
    for f in r.get("findings", []):
        if "finding:" in f:
            rule = f.split("finding:")[1].split()[0]
            break
    return name, pid, r.get("outcome"), r.get("exit"), rule

matrix = {}
with cf.ThreadPoolExecutor(max_workers=16) as ex:
    for name, pid, outcome, code, rule in ex.map(run, jobs):
        matrix.setdefault(name, {})[pid] = {"outcome": outcome, "exit": code, "rule": rule}
path = os.path.join(ROOT, "seeded", "MATRIX.json")
old = json.load(open(path)) if os.path.exists(path) else {}
old.update(matrix)
json.dump(old, open(path, "w"), indent=1, sort_keys=True)
for name, row in sorted(matrix.items()):
    hit = {p: v["rule"] for p, v in row.items() if v["outcome"] == "killed"}
    err = [p for p, v in row.items() if v["outcome"] == "analysis-error"]
    mp = os.path.join(ROOT, "seeded", name, "meta.json")
    m = json.load(open(mp))
    m["checked_by"] = sorted(hit)
    m["caught_by_rule"] = hit
    m["analysis_errors_in"] = err
    json.dump(m, open(mp, "w"), indent=1)
    own = name.split("-")[0]
    print(f"{name}: own={row[own]['outcome']:14s} caught_by={hit} analysis_error_in={err}")
