#!/venv/bin/python
"""Cross-property regression: every behaviour-preserving refactoring (benign patch) is applied to a scratch copy and ALL
twenty checks are run on it; anything but exit 0 is listed.  usage: cross.py [C12 ...] (patch groups; default all)"""
import concurrent.futures as cf, glob, os, shutil, subprocess, sys
ROOT = os.path.dirname(os.path.dirname(os.path.abspath(__file__)))
sys.path.insert(0, ROOT)
from sa.selftest import _copy_repo, PY
only = set(a.upper() for a in sys.argv[1:])
PIDS = [f"C{i:02d}" for i in range(1, 21)]
pats = (sorted(glob.glob(os.path.join(ROOT, "seeded", "benign", "*", "patch.diff"))) or sorted(glob.glob("/tmp/benign_out/C*/[abc]/patch.diff")))


def run(p):
    name = p.split("/")[-2] if "/benign/" in p else "-".join(p.split("/")[-3:-1])
    d = _copy_repo("/repo")
    out = []
    try:
        r = subprocess.run(["patch", "-p1", "-s", "-f", "-i", p], cwd=d, capture_output=True, text=True)
        if r.returncode != 0:
            return name, [("patch", "does not apply")]
        env = dict(os.environ, VERIF_SCRATCH_EVIDENCE=os.path.join(d, "_evidence"), VERIF_CACHE_DIR=os.path.join(d, "_cache"))
        for pid in PIDS:
            q = subprocess.run([PY, "-m", "sa.main", pid, "--tier", "quick", "--repo", d], cwd=ROOT, capture_output=True, text=True, env=env, timeout=900)
            if q.returncode != 0:
                lines = [l.strip() for l in q.stdout.splitlines() if l.startswith("  finding:") or "ANALYSIS-ERROR" in l]
                out.append((pid, f"exit {q.returncode}: " + " | ".join(lines)[:420]))
    finally:
        shutil.rmtree(d, ignore_errors=True)
    return name, out


pats = [p for p in pats if not only or (p.split("/")[-2].split("-")[0] if "/benign/" in p else p.split("/")[-3]) in only]
with cf.ThreadPoolExecutor(max_workers=8) as ex:
    res = list(ex.map(run, pats))
bad = 0
for name, out in res:
    if out:
        bad += 1
        for pid, msg in out:
            print(f"BAD {name:10s} {pid}: {msg}")
    else:
        print(f"ok  {name}")
print(f"{len(res) - bad}/{len(res)} patches leave all 20 checks silent")
