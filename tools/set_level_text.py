#!/venv/bin/python
"""set_level_text.py <cNN> : apply (old, new) replacements from a JSON file to the module's LEVEL_TEXT and rewrite the assignment.
usage: set_level_text.py c01 repl.json   (repl.json = [[old, new], ...]; old must occur in the current text)"""
import ast, importlib, json, os, sys, textwrap
ROOT = os.path.dirname(os.path.dirname(os.path.abspath(__file__)))
sys.path.insert(0, ROOT)
mod, rj = sys.argv[1], sys.argv[2]
m = importlib.import_module(f"sa.rules.{mod}")
text = m.LEVEL_TEXT
for old, new in json.load(open(rj)):
    assert old in text, (mod, old[:70])
    text = text.replace(old, new, 1)
path = os.path.join(ROOT, "sa", "rules", f"{mod}.py")
src = open(path).read()
tree = ast.parse(src)
node = next(n for n in tree.body if isinstance(n, ast.Assign) and isinstance(n.targets[0], ast.Name) and n.targets[0].id == "LEVEL_TEXT")
lines = src.splitlines(keepends=True)
chunks = textwrap.wrap(text, 108, break_long_words=False, drop_whitespace=False)
body = "LEVEL_TEXT = (\n" + "".join("    " + json.dumps(c, ensure_ascii=False) + "\n" for c in chunks) + ")\n"
new = "".join(lines[:node.lineno - 1]) + body + "".join(lines[node.end_lineno:])
ast.parse(new)
open(path, "w").write(new)
m2 = importlib.reload(m)
assert m2.LEVEL_TEXT == text, "round trip"
print(mod, len(text), "chars")
