#!/venv/bin/python
"""Regenerate /verif/MANIFEST.json from the rule modules that exist (LEVEL_TEXT) and the N/A table below."""
import importlib, json, os, sys
ROOT = os.path.dirname(os.path.dirname(os.path.abspath(__file__)))
sys.path.insert(0, ROOT)
TECH = {
 "C01": "finite-model abstract interpretation of create_node / the stack mapper per type form + exhaustive interpretation of creation over all decision scripts on model grammars; laziness dataflow; inferred return kinds (ast + mypy facts); affine interpretation of choosers",
 "C02": "abstract interpretation (affine relational domain, Fourier-Motzkin) of generate vs validate; finite-model interpretation of create_node / mutate / Dependent / the stack mapper",
 "C03": "depth bookkeeping per type form (interpreted creator vs interpreted distance table); affine path-sensitive interpretation of depth filters and validators; interpreted decider constructors; exhaustive interpretation of creation over all decision scripts on model grammars",
 "C04": "exhaustive interpretation of depth-limited creation over all decision scripts on model grammars (set equality with the enumerated bounded language) + necessary-condition rules (exact filters, full frontier, single randomness funnel, recursion through wrappers)",
 "C05": "end-to-end interpretation of the grammar analysis (registration, fixpoint, reachable sub-grammar) on model grammars against a specification reference; type-form walker coverage; AND/OR polarity; base-type table agreement",
 "C06": "finite-model interpretation of crossover / mutation operators on symbolic genes (all cuts, masks, drawn positions); attribute-consistency and must-not-reach rules",
 "C07": "interprocedural random-source and store provenance over the resolved call graph (CHA, constructor chains) + interpreted model of the permitted genotype extension + memo-key completeness (dependency analysis) + process / class-level state rule",
 "C08": "set-iteration-order consumer classification (mypy types) + fixpoint-completeness rule + ambient-nondeterminism who-may-call + process-state rule (module-level, class-level containers, stateless initializers by may-mutate analysis)",
 "C09": "interprocedural parameter-mutation effect analysis with a freshness-depth lattice + interpreted relabel model",
 "C10": "mutation-through-Grammar-alias effect analysis (grammar and refinement objects) + who-may-construct / who-may-write (any dict idiom)",
 "C11": "call-graph must-pass-through (labelling) + contradiction rules + interpreted fold (symbolic children and whole model programs) + interpreted abstract-expansion table on model grammars + interpreted reuse of labelled donor material",
 "C12": "finite-model interpretation of the tracker state machine on symbolic batches + polarity evaluation + who-may-call on Evaluator",
 "C13": "finite-model interpretation of every evaluator / problem class on symbolic batches (pairing of evaluate / count / store) + who-may-call",
 "C14": "loop-shape rules + finite-model interpretation of search() with a scripted budget, of budget predicates against a scripted tracker (decoy fitness of another problem), of budget-assembling front ends and of the tracked population wrapper",
 "C15": "iterator typestate (powerset abstract interpretation) + symbolic yield counts (affine domain, Fourier-Motzkin) + list-shape abstract interpretation of slice boundaries",
 "C16": "finite-model interpretation of elitism and of the hosting combinators (incl. floating-point point witnesses for reserved slots) + argument-order rule for builders + yield count / typestate",
 "C17": "finite-model interpretation of tournament / lexicase selection with scripted draws against a reference filter",
 "C18": "abstract interpretation (affine relational domain, Fourier-Motzkin, exactness bit) of every bounded draw + exhaustive small models of the derived primitives + concrete point witnesses + memo-key completeness",
 "C19": "finite-model interpretation (exact rationals) of the weight normalisation and of its trigger + who-may-write weights + weighted-choice models + interpreted weight-aware choosers (zero / vanishing effective weights, alignment on permuted offers) + rule disjointness on a multiple-inheritance model grammar",
 "C20": "closure-capture scope analysis + finite-model interpretation of the recorder and of tracker registration + single-writer who-may-write + no address-keyed tables in recorder code",
}
NOT_BUILT = "no sound check built yet in this round; the structural clauses planned are in DESIGN.md section 3"
checks, na = [], []
for i in range(1, 21):
    pid = f"C{i:02d}"
    try:
        mod = importlib.import_module(f"sa.rules.{pid.lower()}")
    except ModuleNotFoundError:
        na.append({"property_id": pid, "reason": NOT_BUILT})
        continue
    if getattr(mod, "NOT_APPLICABLE", None):
        na.append({"property_id": pid, "reason": mod.NOT_APPLICABLE})
        continue
    checks.append({
        "property_id": pid,
        "quick_cmd": f"./check {pid} --tier quick",
        "thorough_cmd": f"./check {pid} --tier thorough",
        "evidence_file": f"/verif/evidence/{pid}.json",
        "replay_cmd_template": f"./check {pid} --tier quick   # re-derives every finding; the record is in {{path}}",
        "engine": "sa",
        "level_claimed": {"category": "other", "text": mod.LEVEL_TEXT, "design_ref": f"DESIGN.md section 3 ({pid})"},
        "level_note": "Trusted base: CPython ast, mypy 1.11.2 inferred expression types (facts only, never diagnostics), the "
                      "rule tables in sa/rules (allow-lists with reasons). Decides structural necessary conditions on the "
                      "source of /repo for all inputs; it does not execute the library. Instances that cannot be classified "
                      "make the check exit 2 (ANALYSIS-ERROR), never pass silently.",
        "technique": "static analysis: " + TECH[pid],
    })
man = {
    "version": 1,
    "setup_cmd": "/venv/bin/python -m sa.warm",
    "hooks": {"guard": "GENETICENGINE_VERIF", "enable": "none needed: the checks read /repo's sources, nothing is instrumented",
              "baseline_off_cmd": "cd /repo && /venv/bin/python -m pytest -ra -q -p no:cacheprovider --timeout=900 --continue-on-collection-errors",
              "source_commits": [], "add_only": True},
    "engines": [{"name": "sa", "path": "/verif/sa", "serves_properties": [c["property_id"] for c in checks],
                 "kind_free_text": "repository-specific static analyser: ast front end, mypy type facts, CHA call resolution, "
                                   "path enumeration, affine abstract interpretation with Fourier-Motzkin entailment, "
                                   "iterator typestate, effect summaries"}],
    "checks": checks,
    "not_applicable": na,
    "notes": "All checks are static (family: static analysis). known_findings.json lists genuine defects recorded instead of "
             "repaired (status known) and repaired ones (status fixed, suppress nothing). Self-test battery: "
             "/venv/bin/python -m sa.selftest [IDs]; it also runs in the thorough tier and is recorded in the evidence.",
}
json.dump(man, open(os.path.join(ROOT, "MANIFEST.json"), "w"), indent=1)
print(len(checks), "checks;", len(na), "not applicable")
