#!/venv/bin/python
"""Regenerate /verif/MANIFEST.json from the rule modules that exist (LEVEL_TEXT) and the N/A table below."""
import importlib, json, os, sys
ROOT = os.path.dirname(os.path.dirname(os.path.abspath(__file__)))
sys.path.insert(0, ROOT)
TECH = {
 "C01": "E1 type-form dispatch tables + generator/laziness dataflow + inferred return kinds (ast + mypy facts)",
 "C02": "abstract interpretation (affine relational domain, Fourier-Motzkin) of generate vs validate + dispatch/def-use rules",
 "C03": "dispatch-table extraction + affine comparison of depth filters and validators",
 "C04": "necessary-condition rules: exact depth filters / full frontier (affine), single randomness funnel (who-may-call)",
 "C05": "type-form walker closure + AND/OR polarity of distance equations + base-type table agreement",
 "C06": "slice algebra / per-key def-use on crossover, single-store mutation, attribute-consistency and must-not-reach rules",
 "C07": "interprocedural random-source provenance over the resolved call graph (CHA)",
 "C08": "set-iteration-order consumer classification (mypy types) + ambient-nondeterminism who-may-call",
 "C09": "interprocedural parameter-mutation effect analysis with a freshness lattice",
 "C10": "mutation-through-Grammar-alias effect analysis + who-may-construct",
 "C11": "call-graph must-pass-through (labelling) + contradiction rules (dead branch, TYPE_CHECKING-only name)",
 "C12": "path enumeration of the tracker state machine + polarity evaluation + who-may-call on Evaluator",
 "C13": "per-path pairing (evaluate/count/store), cache-guard dominance, stored-callable invocation counting",
 "C14": "loop-shape and budget-predicate rules on search()/SearchBudget implementations",
 "C15": "iterator typestate (powerset abstract interpretation) + symbolic yield counts (affine domain, Fourier-Motzkin) + telescoping-slice rule",
 "C16": "polarity composition (key x reverse x slice) + dominance + yield count/typestate on elitism",
 "C17": "provenance + polarity under both flag values + loop-carried definition / freshness rules on selection steps",
 "C18": "abstract interpretation (affine relational domain, Fourier-Motzkin, exactness bit) of every bounded draw",
 "C19": "def-use of per-rule normalisation + who-may-write weights + weighted-choice bound (affine)",
 "C20": "closure-capture scope analysis + write->flush pairing + gating truth table + single-writer who-may-write",
}
NOT_BUILT = "no sound check built yet in this round; the structural clauses planned are in DESIGN.md section 3"
checks, na = [], []
for i in range(1, 21):
    pid = f"C{i:02d}"
    try:
        mod = importlib.import_module(f"sa.rules.{pid.lower()}")
    except ModuleNotFoundError:
        na.append({"property_id": pid, "reason": NOT_BUILT})
        continue
    if getattr(mod, "NOT_APPLICABLE", None):
        na.append({"property_id": pid, "reason": mod.NOT_APPLICABLE})
        continue
    checks.append({
        "property_id": pid,
        "quick_cmd": f"./check {pid} --tier quick",
        "thorough_cmd": f"./check {pid} --tier thorough",
        "evidence_file": f"/verif/evidence/{pid}.json",
        "replay_cmd_template": f"./check {pid} --tier quick   # re-derives every finding; the record is in {{path}}",
        "engine": "sa",
        "level_claimed": {"category": "other", "text": mod.LEVEL_TEXT, "design_ref": f"DESIGN.md section 3 ({pid})"},
        "level_note": "Trusted base: CPython ast, mypy 1.11.2 inferred expression types (facts only, never diagnostics), the "
                      "rule tables in sa/rules (allow-lists with reasons). Decides structural necessary conditions on the "
                      "source of /repo for all inputs; it does not execute the library. Instances that cannot be classified "
                      "make the check exit 2 (ANALYSIS-ERROR), never pass silently.",
        "technique": "static analysis: " + TECH[pid],
    })
man = {
    "version": 1,
    "setup_cmd": "/venv/bin/python -m sa.warm",
    "hooks": {"guard": "GENETICENGINE_VERIF", "enable": "none needed: the checks read /repo's sources, nothing is instrumented",
              "baseline_off_cmd": "cd /repo && /venv/bin/python -m pytest -ra -q -p no:cacheprovider --timeout=900 --continue-on-collection-errors",
              "source_commits": [], "add_only": True},
    "engines": [{"name": "sa", "path": "/verif/sa", "serves_properties": [c["property_id"] for c in checks],
                 "kind_free_text": "repository-specific static analyser: ast front end, mypy type facts, CHA call resolution, "
                                   "path enumeration, affine abstract interpretation with Fourier-Motzkin entailment, "
                                   "iterator typestate, effect summaries"}],
    "checks": checks,
    "not_applicable": na,
    "notes": "All checks are static (family: static analysis). known_findings.json lists genuine defects recorded instead of "
             "repaired (status known) and repaired ones (status fixed, suppress nothing). Self-test battery: "
             "/venv/bin/python -m sa.selftest [IDs]; it also runs in the thorough tier and is recorded in the evidence.",
}
json.dump(man, open(os.path.join(ROOT, "MANIFEST.json"), "w"), indent=1)
print(len(checks), "checks;", len(na), "not applicable")
