#!/venv/bin/python
"""Regression harness used while hardening: benign refactorings must leave the property's check silent (exit 0), seeds must be
reported (exit 1).  usage: regress.py [benign|seeds|all] [C12 ...]"""
import concurrent.futures as cf, glob, os, sys
ROOT = os.path.dirname(os.path.dirname(os.path.abspath(__file__)))
sys.path.insert(0, ROOT)
from sa.selftest import _run_case
mode = sys.argv[1] if len(sys.argv) > 1 else "all"
only = set(a.upper() for a in sys.argv[2:])
cases = []
if mode in ("benign", "all"):
    for p in sorted(glob.glob("/tmp/benign_out/C*/[abc]/patch.diff")):
        pid = p.split("/")[3]
        if only and pid not in only:
            continue
        cases.append(dict(id=f"benign/{pid}/{p.split('/')[4]}", property=pid, expect="silent", patch=p))
if mode in ("seeds", "all"):
    for p in sorted(glob.glob("/tmp/seed_out/C*/[ab]/patch.diff")):
        pid = p.split("/")[3]
        if only and pid not in only:
            continue
        if p.endswith("C15/a/patch.diff"):
            p = "/tmp/seed_out/C15/a/patch_ported.diff"
        cases.append(dict(id=f"seed/{pid}/{p.split('/')[4]}", property=pid, expect="violation", patch=p))
with cf.ThreadPoolExecutor(max_workers=12) as ex:
    res = list(ex.map(lambda c: _run_case(c, "/repo"), cases))
bad = 0
for r in sorted(res, key=lambda r: r["id"]):
    ok = r["outcome"] in ("silent", "killed")
    bad += not ok
    line = f"{'ok ' if ok else 'BAD'} {r['id']:22s} {r['outcome']:15s}"
    if not ok:
        line += " " + (r.get("detail") or " | ".join(r.get("findings", [])))[:260]
    print(line)
print(f"{len(res) - bad}/{len(res)} as expected")
