#!/venv/bin/python
"""Copy the behaviour-preserving refactorings delivered by sub-agents (/tmp/benign_out/CNN/{a,b,c}) into
/verif/seeded/benign/<CNN-x>/ (patch.diff, notes.md, check.py) and record in seeded/BENIGN.json what each does and how all
twenty checks react to it (expected: exit 0 everywhere).  FIRST holds the outcome of the very first run against the checks
as they were before the hardening round (kept for the record in DESIGN.md)."""
import concurrent.futures as cf, glob, json, os, re, shutil, subprocess, sys
ROOT = os.path.dirname(os.path.dirname(os.path.abspath(__file__)))
sys.path.insert(0, ROOT)
from sa.selftest import _copy_repo, PY
DST = os.path.join(ROOT, "seeded", "benign")
PIDS = [f"C{i:02d}" for i in range(1, 21)]
# outcome of the property's own check on the first 18 refactorings, before the checks were hardened
FIRST = {"C02-a": "false alarm", "C02-b": "false alarm", "C02-c": "false alarm", "C12-a": "analysis error", "C12-b": "false alarm",
         "C12-c": "false alarm", "C13-a": "false alarm", "C13-b": "false alarm", "C13-c": "analysis error", "C15-a": "false alarm",
         "C15-b": "analysis error", "C15-c": "analysis error", "C17-a": "analysis error", "C17-b": "analysis error", "C17-c": "false alarm",
         "C18-a": "false alarm", "C18-b": "false alarm", "C18-c": "silent"}


def what_of(notes: str) -> str:
    for line in notes.splitlines():
        line = line.strip().lstrip("#").strip()
        if len(line) > 20:
            return re.sub(r"\s+", " ", line)[:230]
    return ""


def run(name, patch):
    d = _copy_repo("/repo")
    res = {}
    try:
        r = subprocess.run(["patch", "-p1", "-s", "-f", "-i", patch], cwd=d, capture_output=True, text=True)
        if r.returncode != 0:
            return name, {"patch": "does not apply"}
        env = dict(os.environ, VERIF_SCRATCH_EVIDENCE=os.path.join(d, "_evidence"), VERIF_CACHE_DIR=os.path.join(d, "_cache"))
        for pid in PIDS:
            q = subprocess.run([PY, "-m", "sa.main", pid, "--tier", "quick", "--repo", d], cwd=ROOT, capture_output=True, text=True, env=env, timeout=900)
            if q.returncode != 0:
                lines = [l.strip() for l in q.stdout.splitlines() if l.startswith("  finding:") or "ANALYSIS-ERROR" in l]
                res[pid] = f"exit {q.returncode}: " + " | ".join(lines)[:300]
    finally:
        shutil.rmtree(d, ignore_errors=True)
    return name, res


# second round (after the second seeding round): /tmp/benign2_out/CNN/{a,b,c} are stored as CNN-d, -e, -f
FIRST.update({"C02-d": "analysis error", "C05-f": "analysis error", "C07-d": "false alarm (C01.R2)", "C07-f": "analysis error (C18.R1)",
              "C08-d": "analysis error", "C08-e": "analysis error", "C08-f": "false alarm (C01.R5, C06.R2) + relocated known defect",
              "C20-d": "false alarm (C08.R3)"})
for r_ in ("C01", "C02", "C05", "C07", "C08", "C20"):
    for x_ in "def":
        FIRST.setdefault(f"{r_}-{x_}", "silent")
# third round (after the third seeding round): /tmp/benign3_out/CNN/{a,b,c} are stored as CNN-g, -h, -i
FIRST.update({"C03-h": "check did not terminate (creation model: a bound-method alias was not followed and every script forked)",
              "C04-g": "check did not terminate (same cause)", "C04-h": "analysis error (C15.R2)", "C04-i": "analysis error (C02.R1) + relocated known defect",
              "C09-i": "analysis errors (C15.R2, C16.R3) + relocated known defect", "C11-h": "false alarm (C01.R2, C11.R3; C11.R7 through an interpreter gap)",
              "C12-i": "false alarm (C14.R1)", "C14-h": "false alarm (C14.R1)", "C15-g": "analysis error", "C15-h": "analysis error",
              "C15-i": "false alarm (C15.R2: len of a tracked slice was a fresh unknown)", "C16-g": "analysis error", "C17-i": "analysis error",
              "C19-g": "false alarm (C10.R2, C19.R1, C19.R2)", "C19-i": "false alarm (C19.R3) + analysis error (C01.R4)"})
for r_ in ("C03", "C04", "C06", "C09", "C11", "C12", "C14", "C15", "C16", "C17", "C18", "C19"):
    for x_ in "ghi":
        FIRST.setdefault(f"{r_}-{x_}", "silent")
# fourth round (after the fourth seeding round): /tmp/benign4_out/CNN/{a,b,c} are stored as CNN-j, -k, -l
FIRST.update({"C03-j": "false alarm (C03.R3: validate delegating to a module-level function)", "C03-k": "false alarm (C19.R2: a fluent analyse() pass hid the normalisation call)",
              "C04-l": "false alarm (C07.R2) + analysis errors (C03.R2 / C04.R1 floors: template-method chooser)",
              "C05-k": "false alarm (C04.R4, C05.R6: the interpreter silently ignored deque.appendleft - an unsound fallback, see section 8)",
              "C07-j": "false alarm (C01.R1: readers kept in a table)", "C07-k": "analysis error (C18.R1)", "C07-l": "false alarm (C01.R4) + analysis errors (creation model)",
              "C08-j": "analysis error (C18.R3, C19.R3: compress / partial)", "C08-k": "false alarm (C08.R5: += on an int local) + analysis error (C15.R2)",
              "C08-l": "relocated known defect", "C10-j": "analysis error (bisect over a running maximum)", "C10-k": "analysis error (C19.R5: partial with keywords)",
              "C10-l": "analysis error (C02.R1) + relocated known defect", "C11-j": "false alarm (C07.R5, C08.R4: setattr on an instance; C11.R5: labels stored through setattr)",
              "C11-k": "false alarm (C11.R1: functools.partial alias) + analysis error (C09.R4 floor)", "C12-k": "analysis error (reduce, methodcaller)",
              "C12-l": "false alarm (C12.R2: is_better through a key helper)", "C14-j": "analysis error", "C14-k": "analysis error (C14.R6 floor)", "C14-l": "analysis error",
              "C15-j": "analysis error (islice, chained pairs)", "C15-k": "analysis error (C15.R2p, C16.R4: accumulate / pairwise)",
              "C15-l": "false alarm (C15.R2: for .. in count() retry loop) + analysis errors", "C16-j": "analysis error (pairwise)",
              "C18-j": "analysis error (compress / partial)", "C18-l": "false alarm (C07.R5, C08.R4: lru_cache on a pure numeric helper) + relocated known defect + analysis error",
              "C19-j": "false alarm (C19.R3: weights built with map(mul, ..) and a conditional expression)",
              "C19-k": "false alarm (C10.R2, C19.R2: public set_weight helper) + analysis errors", "C19-l": "analysis errors (class-level tuple constant read through self)",
              "C20-j": "false alarm (C08.R3: clock in a module-level extractor) + analysis error"})
for r_ in ("C03", "C04", "C05", "C07", "C08", "C10", "C11", "C12", "C14", "C15", "C16", "C18", "C19", "C20"):
    for x_ in "jkl":
        FIRST.setdefault(f"{r_}-{x_}", "silent")
# fifth round (after the sixth seeding round): /tmp/benign5_out/CNN/{a,b} are stored as CNN-m, -n
FIRST.update({"C01-m": "relocated known defect + analysis error (C18.R2: Random.uniform)", "C01-n": "relocated known defect",
              "C02-m": "false alarm (C02.R2 / R3: a per-call helper object and **kwargs were not followed) + analysis errors (creation model) + relocated known defect",
              "C02-n": "false alarm (C01.R1 list comprehension over an unknown count, C01.R2 starred use, C04.R8 / C08.R4 cached text splitter, C11.R1 base draws through a methodcaller table) + analysis errors",
              "C04-m": "silent", "C04-n": "false alarm (C01.R1 / C02.R2 / C03.R5 / C05.R1: getattr with a sentinel default was not modelled - forks taken as behaviour) + analysis errors (dict subclass with __missing__)",
              "C06-m": "silent", "C06-n": "analysis error (C06.R2 / R3, C09.R3 floors: operators in a template base class)",
              "C09-m": "analysis error (C09.R5 / C13.R5: Problem.evaluate as a template method) + relocated known defect", "C09-n": "false alarm (C15.R2 / C16.R3: [*population] counted as one element)",
              "C10-m": "false alarm (C07.R5 / C08.R4: cached_property is per-instance) + analysis errors (properties on model objects, frozenset)",
              "C10-n": "false alarm (C08.R1: chain.from_iterable(map(f, S)) feeding set())",
              "C12-m": "silent", "C12-n": "analysis error (module-level attrgetter constant)",
              "C13-m": "analysis error (vars(self))", "C13-n": "false alarm (C13.R3: list repetition unmodelled - forks taken as behaviour) + analysis errors (id(), partial mapper)",
              "C17-m": "analysis error (np.fromiter / flatnonzero)", "C17-n": "analysis error (callee looked up in a class-level table)",
              "C18-m": "silent", "C18-n": "false alarm (C18.R3: 'del lst[-1]' was ignored by the interpreter) + relocated known defect"})
# sixth round (the other ten properties, same brief): /tmp/benign6_out/CNN/{a,b} are stored as CNN-o, -p
FIRST.update({"C03-o": "analysis errors (grammar analysis with a defaultdict subclass and a module-level walker)", "C03-p": "silent",
              "C05-o": "silent", "C05-p": "false alarm (C10.R1: a construction helper taken as a bound-method value) + analysis errors",
              "C11-o": "false alarm (C01.R2: an iterator kept on a work-list object) + analysis errors", "C11-p": "analysis errors (labeller object; C11.R3 floor)",
              "C14-o": "analysis errors (search() as a template method in the base class: C12.R3, C14.R1, C15.R3 floors)", "C14-p": "analysis error (C14.R3 floor: budgets as dataclasses with a template is_done)",
              "C16-o": "analysis errors (C15.R2: method of an annotated helper object; C16.R1: helper class not instantiated)", "C16-p": "analysis error (C15.R2p: boundaries paired with itertools.pairwise into NamedTuples)",
              "C19-o": "false alarm (C19.R4: a decorator factory - the result of a call was not called)", "C19-p": "relocated known defect + analysis error (C19.R5: per-call method object)",
              "C20-o": "analysis error (csv.DictWriter: C20 anchor)", "C20-p": "silent",
              "C08-o": "analysis error (C12.R3: result read through a table of callables)", "C08-p": "relocated known defect + analysis errors",
              "C15-o": "analysis error (C15.R2p floor)", "C15-p": "false alarm (C01.R2: 'yield from chain.from_iterable(<generator>)') + analysis errors",
              "C07-o": "relocated known defects (a shared codon-mapped base class) + analysis errors",
              "C07-p": "false alarm (C01.R1: an unknown result of the stack model read as a wrong result) + relocated known defect + analysis errors"})
os.makedirs(DST, exist_ok=True)
for p in sorted(glob.glob("/tmp/benign6_out/C*/[ab]/patch.diff")):
    src = os.path.dirname(p)
    name = p.split("/")[3] + "-" + {"a": "o", "b": "p"}[p.split("/")[4]]
    d = os.path.join(DST, name)
    if os.path.exists(os.path.join(d, "patch.diff")):
        continue
    os.makedirs(d, exist_ok=True)
    for fn in ("patch.diff", "notes.md", "check.py"):
        if os.path.exists(os.path.join(src, fn)):
            shutil.copy(os.path.join(src, fn), os.path.join(d, fn))
for p in sorted(glob.glob("/tmp/benign5_out/C*/[ab]/patch.diff")):
    src = os.path.dirname(p)
    name = p.split("/")[3] + "-" + {"a": "m", "b": "n"}[p.split("/")[4]]
    d = os.path.join(DST, name)
    if os.path.exists(os.path.join(d, "patch.diff")):
        continue
    os.makedirs(d, exist_ok=True)
    for fn in ("patch.diff", "notes.md", "check.py"):
        if os.path.exists(os.path.join(src, fn)):
            shutil.copy(os.path.join(src, fn), os.path.join(d, fn))
for p in sorted(glob.glob("/tmp/benign4_out/C*/[abc]/patch.diff")):
    src = os.path.dirname(p)
    name = p.split("/")[3] + "-" + {"a": "j", "b": "k", "c": "l"}[p.split("/")[4]]
    d = os.path.join(DST, name)
    if os.path.exists(os.path.join(d, "patch.diff")):
        continue
    os.makedirs(d, exist_ok=True)
    for fn in ("patch.diff", "notes.md", "check.py"):
        if os.path.exists(os.path.join(src, fn)):
            shutil.copy(os.path.join(src, fn), os.path.join(d, fn))
for p in sorted(glob.glob("/tmp/benign_out/C*/[abc]/patch.diff")) + sorted(glob.glob("/tmp/benign2_out/C*/[abc]/patch.diff")) \
        + sorted(glob.glob("/tmp/benign3_out/C*/[abc]/patch.diff")):
    src = os.path.dirname(p)
    name = p.split("/")[3] + "-" + (p.split("/")[4] if "/benign_out/" in p else {"a": "d", "b": "e", "c": "f"}[p.split("/")[4]] if "/benign2_out/" in p
                                    else {"a": "g", "b": "h", "c": "i"}[p.split("/")[4]])
    d = os.path.join(DST, name)
    if os.path.exists(os.path.join(d, "patch.diff")):
        continue       # already stored (possibly ported by hand to a later /repo HEAD): never overwritten
    os.makedirs(d, exist_ok=True)
    for fn in ("patch.diff", "notes.md", "check.py"):
        if os.path.exists(os.path.join(src, fn)):
            shutil.copy(os.path.join(src, fn), os.path.join(d, fn))
names = sorted(os.listdir(DST))
with cf.ThreadPoolExecutor(max_workers=8) as ex:
    results = dict(ex.map(lambda n: run(n, os.path.join(DST, n, "patch.diff")), names))
B = {}
for n in names:
    notes = open(os.path.join(DST, n, "notes.md")).read() if os.path.exists(os.path.join(DST, n, "notes.md")) else ""
    bad = results[n]
    B[n] = {"what": what_of(notes), "first_run": FIRST.get(n, ""),
            "outcome": "all 20 checks silent" if not bad else "; ".join(f"{k}: {v[:110]}" for k, v in bad.items()),
            "action": ""}
json.dump(B, open(os.path.join(ROOT, "seeded", "BENIGN.json"), "w"), indent=1, sort_keys=True)
print(len(B), "benign refactorings;", sum(1 for v in B.values() if v["outcome"].startswith("all 20")), "leave all 20 checks silent")
