#!/venv/bin/python
"""Maintain /verif/known_findings.json by hand-driven commands (never called by a check).
  kf.py known <jsonl-file> [what]      add 'known' entries emitted by VERIF_EMIT_KNOWN=1 ./check <ID>
  kf.py fixed <property> <rule> <commit> <what>   add a 'fixed' record
"""
import json, sys, os
P = os.path.join(os.path.dirname(os.path.dirname(os.path.abspath(__file__))), "known_findings.json")
data = json.load(open(P)) if os.path.exists(P) else {"format": "status=known entries suppress exactly the keyed finding (property, rule, module, function, construct); status=fixed entries suppress nothing", "findings": []}
cmd = sys.argv[1]
if cmd == "known":
    what = sys.argv[3] if len(sys.argv) > 3 else None
    for line in open(sys.argv[2]):
        e = json.loads(line)
        if what:
            e["what"] = what
        key = lambda x: (x.get("property"), x.get("rule"), x.get("module"), x.get("function"), x.get("construct"), x.get("status"))
        if not any(key(x) == key(e) for x in data["findings"]):
            data["findings"].append(e)
elif cmd == "fixed":
    prop, rule, commit, what = sys.argv[2:6]
    e = {"status": "fixed", "property": prop, "rule": rule, "commit": commit, "what": what,
         "record": f"fixed: property={prop} {commit} {what}"}
    if not any(x.get("status") == "fixed" and x.get("property") == prop and x.get("commit") == commit and x.get("rule") == rule for x in data["findings"]):
        data["findings"].append(e)
json.dump(data, open(P, "w"), indent=1)
print(len(data["findings"]), "entries")
