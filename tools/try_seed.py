#!/venv/bin/python
"""try_seed.py <patch.diff> <PID> [<PID>...] : apply a patch to a scratch copy of /repo and run the given checks on it."""
import sys, os
sys.path.insert(0, os.path.dirname(os.path.dirname(os.path.abspath(__file__))))
from sa.selftest import _run_case
patch = sys.argv[1]
for pid in sys.argv[2:]:
    r = _run_case(dict(id=os.path.basename(os.path.dirname(patch)), property=pid, expect="violation", patch=patch), "/repo")
    print(pid, r.get("outcome"), "exit", r.get("exit"), r.get("detail", ""))
    for f in r.get("findings", []):
        print("   ", f)
