#!/bin/sh
# usage: run_suite.sh <tree> [extra pytest args]   -- my own validation helper (xdist), not a registered check
tree=$1; shift
cd "$tree" || exit 2
/venv/bin/python -m pytest -q -p no:cacheprovider --timeout=900 -n 16 "$@" 2>&1 | grep -E "passed|failed|error|FAILED|ERROR" | tail -40
