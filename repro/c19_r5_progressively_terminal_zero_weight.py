# Reproduction of the defect repaired by /repo commit 7b4f9a2 (C19.R5): run from a checkout of the parent commit b80ca89: exits 1 there, 0 after the fix.
import os, sys
sys.path.insert(0, os.getcwd())
from abc import ABC
from dataclasses import dataclass
from geneticengine.grammar.grammar import extract_grammar
from geneticengine.grammar.decorators import weight
from geneticengine.random.sources import NativeRandomSource
from geneticengine.representations.tree.initializations import ProgressivelyTerminalDecider
from geneticengine.representations.tree.treebased import random_node

class Root(ABC): pass
class Mid(ABC): pass

@weight(0)
@dataclass
class Off(Root):          # declared weight 0: must never be produced while On is available
    pass

@weight(1)
@dataclass
class On(Root):           # the deepest symbol of the grammar: heuristic factor target - distance == 0
    m: Mid

@dataclass
class Leaf(Mid):
    v: int

g = extract_grammar([Off, On, Leaf], Root)
print("weights", {k.__name__: v for k, v in g.get_weights().items()})
print("distances", {getattr(k, '__name__', k): v for k, v in g.distanceToTerminal.items()}, "max node depth", g.get_max_node_depth())
bad = 0
for seed in range(200):
    r = NativeRandomSource(seed)
    d = ProgressivelyTerminalDecider(r, g)
    t = random_node(r, g, Root, decider=d)
    if isinstance(t, Off):
        bad += 1
print("zero-weight production chosen in", bad, "of 200 creations")
sys.exit(1 if bad else 0)
