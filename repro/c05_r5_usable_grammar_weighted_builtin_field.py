# Reproduction of the defect repaired by /repo commit (cb69285): run from a checkout of 7b4f9a2: exits 1 there, 0 after the fix.
import os, sys
sys.path.insert(0, os.getcwd())
from abc import ABC
from dataclasses import dataclass
from geneticengine.grammar.grammar import extract_grammar
from geneticengine.grammar.decorators import weight
class Root(ABC): pass
@weight(2)
@dataclass
class A(Root):
    v: int
@dataclass
class B(Root):
    pass
g = extract_grammar([A, B], Root)
print(g.get_weights())
try:
    u = g.usable_grammar()
    print("usable ok", u)
except Exception as e:
    import traceback; traceback.print_exc()
    sys.exit(1)
