"""E8: symbolic number of items a generator function yields.

Abstract interpretation of a generator body over the affine domain of absint: the state carries the
symbolic yield count, the values of integer counters and the sizes of local sequences.  Branches are
kept apart (disjunctive states, conditions added to the fact store); loops are summarised:

  for _ in range(E)                      E iterations
  for .. in zip(range(E), S) / S[:E]     min(E, |S|) iterations
  for i, x in enumerate(S): if i < K:    the guarded part runs min(|S|, K) times
  while c < K: (yield; c += 1 | failure) a counter loop yields K - c0

each body is interpreted once; its effect must be the same affine increment on every path (otherwise the
count becomes opaque and the instance is undecided).  ``yield from callee(..., size)`` contributes ``size``
when the callee is a step / initializer (assume-guarantee: the callee's own obligation is the same rule).
The result per path is compared with the requested size k under n >= k >= 0.
"""
from __future__ import annotations

import ast
from dataclasses import dataclass, field
from typing import Any, Optional

from .absint import (B3, Env, Facts, Lin, Opaque, assume, entails_ge0, evaluate, find_model, truth)
from .astutil import call_name, is_self_attr
from .frontend import FunctionInfo, norm

SIZE_METHODS = {"initialize": 3, "apply": 5, "iterate": 5}  # positional index of target_size (without self)


@dataclass
class YState:
    env: Env
    count: Any  # Lin | Opaque
    sizes: dict[str, Any] = field(default_factory=dict)
    conds: list[str] = field(default_factory=list)
    notes: list[str] = field(default_factory=list)
    done: bool = False
    skip: bool = False   # 'continue' was executed: the rest of the current loop body is skipped on this path

    def copy(self) -> "YState":
        return YState(self.env.copy(), self.count, dict(self.sizes), list(self.conds), list(self.notes), self.done, self.skip)


class YieldCounter:
    def __init__(self, fn: FunctionInfo, k_name: str, pop_name: Optional[str], assume_n_ge_k: bool = True):
        self.fn, self.k_name, self.pop_name = fn, k_name, pop_name
        self.k = Lin.sym("k")
        self.n = Lin.sym("n")
        self.assume_n_ge_k = assume_n_ge_k
        self.assumptions: list[str] = []
        self._quiet_break = 0
        self.hooks: list = []   # extra call models for the environment (e.g. helper inlining for a concrete class)
        self.assume_hooks: list = []
        self.prog = None        # set by the rule: lets sizes flow through helper methods / functions of the repository
        self._hdepth = 0

    # ------------------------------------------------------------------ entry
    def run(self) -> list[YState]:
        f = Facts()
        f.ints |= {"k", "n"}
        f.add_ge(self.k, Lin.c(1))  # "asked for k individuals": k >= 1
        f.add_ge(self.n, Lin.c(0))
        if self.pop_name is not None and self.assume_n_ge_k:
            f.add_ge(self.n, self.k)
        env = Env(f)

        def len_hook(e_, call):
            # len(<local whose size is tracked>) is that size (not a fresh unknown)
            cur = getattr(self, "_cur", None)
            if call_name(call) == "len" and len(call.args) == 1 and isinstance(call.args[0], ast.Name) and cur is not None \
                    and isinstance(cur.sizes.get(call.args[0].id), Lin):
                return cur.sizes[call.args[0].id]
            return None
        env.hooks.append(len_hook)
        env.hooks.extend(self.hooks)
        env.assume_hooks.extend(self.assume_hooks)
        env.vars[self.k_name] = self.k
        st = YState(env, Lin.c(0))
        if self.pop_name is not None:
            st.sizes[self.pop_name] = self.n
        out = self.block(self.fn.node.body, [st])
        return out

    # ---------------------------------------------------------------- helpers
    def amin(self, env: Env, a: Any, b: Any) -> Any:
        if not isinstance(a, Lin) or not isinstance(b, Lin):
            return Opaque("min of unknown sizes")
        if entails_ge0(env.facts, b - a):
            return a
        if entails_ge0(env.facts, a - b):
            return b
        m = env.facts.fresh("min", exact=env.facts.is_exact(a) and env.facts.is_exact(b), integer=True)
        env.facts.add_le(m, a)
        env.facts.add_le(m, b)
        env.facts.defs.append((next(iter(m.syms())), "min", a, b))  # exact definition, enforced on witness models
        return m

    def size_of(self, st: YState, e: ast.AST) -> Any:
        env = st.env
        if isinstance(e, ast.Name):
            if e.id in st.sizes:
                return st.sizes[e.id]
            return Opaque(f"size of {e.id} unknown")
        if isinstance(e, ast.Attribute):
            p = norm(e)
            s = env.symbol(f"len({p})")
            env.facts.add_ge(s, Lin.c(0))
            return s
        if isinstance(e, ast.Subscript) and isinstance(e.slice, ast.Slice):
            base = self.size_of(st, e.value)
            sl = e.slice
            if sl.step is not None:
                return Opaque("stepped slice")
            if sl.lower is None and sl.upper is not None:
                up = evaluate(env, sl.upper)
                if isinstance(up, Lin) and isinstance(base, Lin) and entails_ge0(env.facts, up):
                    return self.amin(env, base, up)
                return Opaque("slice bound")
            if sl.lower is not None and sl.upper is not None:
                lo, up = evaluate(env, sl.lower), evaluate(env, sl.upper)
                if isinstance(lo, Lin) and isinstance(up, Lin) and isinstance(base, Lin) \
                        and entails_ge0(env.facts, lo) and entails_ge0(env.facts, up - lo) and entails_ge0(env.facts, base - up):
                    return up - lo
                return Opaque("slice bounds")
            if sl.lower is None and sl.upper is None:
                return base
            return Opaque("slice form")
        if isinstance(e, ast.Call):
            nm = call_name(e)
            if nm in ("list", "iter", "tuple", "sorted", "reversed", "copy") and e.args:
                return self.size_of(st, e.args[0])
            if nm == "copy" and isinstance(e.func, ast.Attribute):
                return self.size_of(st, e.func.value)
            if nm == "sort_population" and e.args:
                return self.size_of(st, e.args[0])
            if nm in ("set", "frozenset", "fromkeys") and e.args:
                # de-duplication: between 1 and |S| elements remain (every value attainable by choosing duplicates)
                return self.distinct(env, self.size_of(st, e.args[0]))
            if nm in ("values", "keys", "items") and isinstance(e.func, ast.Attribute) and not e.args:
                return self.size_of(st, e.func.value)
            if nm in ("nlargest", "nsmallest") and len(e.args) >= 2:
                k_ = evaluate(env, e.args[0])
                s_ = self.size_of(st, e.args[1])
                if isinstance(k_, Lin) and isinstance(s_, Lin) and entails_ge0(env.facts, k_):
                    return self.amin(env, k_, s_)
                return Opaque("nlargest bounds")
            if nm == "chain" and e.args and not e.keywords and isinstance(e.func, ast.Name):
                tot: Any = Lin.c(0)
                for a_ in e.args:
                    tot = self.add(tot, self.size_of(st, a_))
                return tot
            if nm == "islice" and len(e.args) == 2:
                s_, k_ = self.size_of(st, e.args[0]), evaluate(env, e.args[1])
                if isinstance(s_, Lin) and isinstance(k_, Lin) and entails_ge0(env.facts, k_):
                    return self.amin(env, s_, k_)
                return Opaque("islice bounds")
            if nm == "from_iterable" and len(e.args) == 1 and isinstance(e.args[0], ast.Call):
                inner = e.args[0]
                g_, off_ = self._resolve_helper(inner)
                if g_ is not None and self.yields_in(g_.node):
                    n_ = self._yielded_tuple_len(g_)
                    cnt_ = self._generator_helper_size(st, inner, g_, off_)
                    if n_ is not None and isinstance(cnt_, Lin):
                        return cnt_.scale(n_)
                return Opaque("size of the chained iterables")
            if nm == "range" and len(e.args) == 1:
                v = evaluate(env, e.args[0])
                return v if isinstance(v, Lin) and entails_ge0(env.facts, v) else Opaque("range bound not provably >= 0")
            if nm in SIZE_METHODS and isinstance(e.func, ast.Attribute):
                kw = next((k.value for k in e.keywords if k.arg == "target_size"), None)
                idx = SIZE_METHODS[nm]
                arg = kw if kw is not None else (e.args[idx] if len(e.args) > idx else None)
                if arg is not None:
                    v = evaluate(env, arg)
                    if isinstance(v, Lin):
                        self.assumptions.append(f"callee {norm(e.func)} yields the {norm(arg)} items it is asked for (its own obligation)")
                        return v
                return Opaque(f"size argument of {nm} not found")
            if isinstance(e.func, ast.Attribute) and is_self_attr(e.func) and len(e.args) == 4:
                # calling a stored initializer object directly: by the positional convention of initialize
                v = evaluate(env, e.args[3])
                if isinstance(v, Lin):
                    self.assumptions.append(f"{norm(e.func)}(...) is an initializer-like callable whose 4th argument is the size (callee not resolvable)")
                    return v
            hs = self.helper_size(st, e)
            if hs is not None:
                return hs
            return Opaque(f"size of call {nm}")
        if isinstance(e, (ast.ListComp, ast.GeneratorExp)) and len(e.generators) == 1 and not e.generators[0].ifs:
            return self.size_of(st, e.generators[0].iter)
        if isinstance(e, (ast.List, ast.Tuple)):
            if any(isinstance(x, ast.Starred) for x in e.elts):
                # [*xs, y]: the unpacked iterables contribute their own sizes
                total = Lin.c(sum(1 for x in e.elts if not isinstance(x, ast.Starred)))
                for x in e.elts:
                    if isinstance(x, ast.Starred):
                        sz = self.size_of(st, x.value)
                        if not isinstance(sz, Lin):
                            return sz
                        total = total + sz
                return total
            return Lin.c(len(e.elts))
        if isinstance(e, (ast.DictComp, ast.SetComp)) and len(e.generators) == 1 and not e.generators[0].ifs:
            g = e.generators[0]
            key = e.key if isinstance(e, ast.DictComp) else e.elt
            if isinstance(g.iter, ast.Call) and call_name(g.iter) == "enumerate" and g.iter.args and isinstance(g.target, ast.Tuple) \
                    and isinstance(g.target.elts[0], ast.Name) and isinstance(key, ast.Name) and key.id == g.target.elts[0].id:
                return self.size_of(st, g.iter.args[0])        # keyed by position: nothing collapses
            return self.distinct(env, self.size_of(st, g.iter))  # keyed by a value: equal keys collapse
        return Opaque(f"size of {type(e).__name__}")

    def distinct(self, env, s_: Any) -> Any:
        if isinstance(s_, Lin):
            u = env.facts.fresh("distinct", exact=env.facts.is_exact(s_), integer=True)
            env.facts.add_le(u, s_)
            lo1 = self.amin(env, Lin.c(1), s_)
            if isinstance(lo1, Lin):
                env.facts.add_ge(u, lo1)
            return u
        return s_

    def helper_size(self, st: YState, e: ast.Call) -> Any:
        """size of what a helper of the repository returns: its straight-line body is followed with the sizes / values of the
        arguments bound to its parameters; a tuple literal returned by every return statement has that many elements"""
        if self.prog is None or self._hdepth >= 2:
            return None
        target, off = self._resolve_helper(e)
        if target is None or not isinstance(target.node, (ast.FunctionDef, ast.AsyncFunctionDef)):
            return None
        if self.yields_in(target.node):
            return self._generator_helper_size(st, e, target, off)
        rets = [r for r in ast.walk(target.node) if isinstance(r, ast.Return) and r.value is not None]
        if rets and all(isinstance(r.value, ast.Tuple) for r in rets) and len({len(r.value.elts) for r in rets}) == 1:
            return Lin.c(len(rets[0].value.elts))
        body = [b for b in target.node.body if not (isinstance(b, ast.Expr) and isinstance(b.value, ast.Constant))]
        if not body or not isinstance(body[-1], ast.Return) or body[-1].value is None \
                or any(isinstance(x, (ast.If, ast.For, ast.While, ast.Try, ast.Return)) for b in body[:-1] for x in ast.walk(b)):
            return None
        a = target.node.args
        names = [x.arg for x in a.posonlyargs + a.args][off:]
        sub = YState(st.env.copy(), Lin.c(0))
        for p_, arg in zip(names, e.args):
            sz = self.size_of(st, arg)
            if isinstance(sz, Lin):
                sub.sizes[p_] = sz
            v = evaluate(st.env, arg)
            if isinstance(v, Lin):
                sub.env.vars[p_] = v
        for k_ in e.keywords:
            if k_.arg in names:
                sz = self.size_of(st, k_.value)
                if isinstance(sz, Lin):
                    sub.sizes[k_.arg] = sz
                v = evaluate(st.env, k_.value)
                if isinstance(v, Lin):
                    sub.env.vars[k_.arg] = v
        saved_fn, saved_cur = self.fn, getattr(self, "_cur", None)
        self.fn = target
        self._hdepth += 1
        try:
            states = [sub]
            for b in body[:-1]:
                states = self.block([b], states)
                if len(states) != 1:
                    return None
            self._cur = states[0]
            r = self.size_of(states[0], body[-1].value)
            # facts learnt inside (min definitions) belong to the caller's fact store
            st.env.facts = states[0].env.facts
            return r if isinstance(r, Lin) else None
        finally:
            self.fn, self._cur = saved_fn, saved_cur
            self._hdepth -= 1

    def _resolve_helper(self, e: ast.Call):
        """(function, number of leading parameters the call does not supply) for self.m(..) / Class.m(..) / f(..) of the repository"""
        if self.prog is None:
            return None, 0
        target, off = None, 0
        if isinstance(e.func, ast.Attribute) and is_self_attr(e.func) and self.fn.cls is not None:
            target, off = self.prog.lookup_method(self.fn.cls, e.func.attr), 1
        elif isinstance(e.func, ast.Attribute) and isinstance(e.func.value, ast.Name):
            full = self.prog.resolve_name(self.fn.module, e.func.value.id)
            ci = self.prog.classes.get(full) if full else None
            if ci is None and isinstance(self.fn.node, (ast.FunctionDef, ast.AsyncFunctionDef)):
                # a parameter annotated with a class of the repository (ordering: PopulationOrdering): its method
                a_ = self.fn.node.args
                ann = next((x.annotation for x in a_.posonlyargs + a_.args + a_.kwonlyargs if x.arg == e.func.value.id and x.annotation is not None), None)
                nm_ = ann.id if isinstance(ann, ast.Name) else ann.value if isinstance(ann, ast.Constant) and isinstance(ann.value, str) else None
                if nm_ and nm_.isidentifier():
                    full = self.prog.resolve_name(self.fn.module, nm_)
                    ci = self.prog.classes.get(full) if full else None
            if ci is not None:
                target, off = self.prog.lookup_method(ci, e.func.attr), 1
        elif isinstance(e.func, ast.Name):
            full = self.prog.resolve_name(self.fn.module, e.func.id)
            target = self.prog.functions.get(full) if full else None
            if target is not None and target.cls is not None:
                target = None
        if target is not None and any((isinstance(d, ast.Name) and d.id == "staticmethod") for d in getattr(target.node, "decorator_list", [])):
            off = 0
        return target, off

    def _bind_helper(self, st: YState, e: ast.Call, target, off: int) -> YState:
        a = target.node.args
        names = [x.arg for x in a.posonlyargs + a.args][off:]
        sub = YState(st.env.copy(), Lin.c(0))
        for p_, arg in list(zip(names, e.args)) + [(k_.arg, k_.value) for k_ in e.keywords if k_.arg in names]:
            sz = self.size_of(st, arg)
            if isinstance(sz, Lin):
                sub.sizes[p_] = sz
            v = evaluate(st.env, arg)
            if isinstance(v, Lin):
                sub.env.vars[p_] = v
        return sub

    def _generator_helper_size(self, st: YState, e: ast.Call, target, off: int) -> Any:
        """number of items a generator helper of the repository yields for these arguments: its body is counted like the function under analysis"""
        sub = self._bind_helper(st, e, target, off)
        saved_fn, saved_cur = self.fn, getattr(self, "_cur", None)
        self.fn = target
        self._hdepth += 1
        try:
            body = [b for b in target.node.body if not (isinstance(b, ast.Expr) and isinstance(b.value, ast.Constant))]
            outs = self.block(body, [sub])
            counts = {repr(o.count) for o in outs}
            if outs and len(counts) == 1 and isinstance(outs[0].count, Lin) and not any(o.notes for o in outs):
                st.env.facts = outs[0].env.facts
                return outs[0].count
            return None
        finally:
            self.fn, self._cur = saved_fn, saved_cur
            self._hdepth -= 1

    def _yielded_tuple_len(self, target) -> Optional[int]:
        """when every value a generator helper yields is a tuple of the same length (a literal, or a call annotated -> tuple[A, B]): that length"""
        lens = set()
        for y in ast.walk(target.node):
            if isinstance(y, ast.Yield) and y.value is not None:
                v = y.value
                if isinstance(v, ast.Tuple):
                    lens.add(len(v.elts))
                elif isinstance(v, ast.Call):
                    saved = self.fn
                    self.fn = target
                    try:
                        g, _ = self._resolve_helper(v)
                    finally:
                        self.fn = saved
                    ann = getattr(g.node, "returns", None) if g is not None else None
                    if isinstance(ann, ast.Subscript) and norm(ann.value) in ("tuple", "Tuple") and isinstance(ann.slice, ast.Tuple) \
                            and not any(isinstance(x, ast.Constant) and x.value is Ellipsis for x in ann.slice.elts):
                        lens.add(len(ann.slice.elts))
                    else:
                        rets_ = [r for r in ast.walk(g.node) if isinstance(r, ast.Return) and r.value is not None] if g is not None else []
                        if rets_ and all(isinstance(r.value, ast.Tuple) for r in rets_) and len({len(r.value.elts) for r in rets_}) == 1:
                            lens.add(len(rets_[0].value.elts))        # every return statement of the callee is a tuple literal of that length
                        else:
                            return None
                else:
                    return None
            elif isinstance(y, ast.YieldFrom):
                return None
        return lens.pop() if len(lens) == 1 else None

    def add(self, a: Any, b: Any) -> Any:
        if isinstance(a, Lin) and isinstance(b, Lin):
            return a + b
        return a if isinstance(a, Opaque) else b if isinstance(b, Opaque) else Opaque("sum")

    # ------------------------------------------------------------- statements
    def block(self, stmts: list[ast.stmt], states: list[YState]) -> list[YState]:
        for s in stmts:
            nxt: list[YState] = []
            for st in states:
                if st.done or st.skip:
                    nxt.append(st)
                else:
                    nxt.extend(self.stmt(s, st))
            states = nxt
            if len(states) > 256:
                for st in states:
                    st.count = Opaque("too many paths")
                return states[:1]
        return states

    def yields_in(self, e: ast.AST) -> list[ast.AST]:
        return [y for y in ast.walk(e) if isinstance(y, (ast.Yield, ast.YieldFrom))]

    def stmt(self, s: ast.stmt, st: YState) -> list[YState]:
        env = st.env
        self._cur = st
        if isinstance(s, ast.Expr):
            v = s.value
            if isinstance(v, ast.Yield):
                st.count = self.add(st.count, Lin.c(1))
            elif isinstance(v, ast.YieldFrom):
                st.count = self.add(st.count, self.size_of(st, v.value))
            elif self.yields_in(v):
                st.count = Opaque("yield inside an expression")
            return [st]
        if isinstance(s, ast.Assign):
            if self.yields_in(s.value):
                st.count = Opaque("yield inside an assignment")
            for t in s.targets:
                if isinstance(t, ast.Name):
                    sz = self.size_of(st, s.value)
                    if isinstance(sz, Lin):
                        st.sizes[t.id] = sz
                    else:
                        st.sizes.pop(t.id, None)
                    v = evaluate(env, s.value)
                    if isinstance(v, Lin):
                        env.vars[t.id] = v
                    else:
                        env.vars[t.id] = Opaque("non-numeric")
                elif isinstance(t, ast.Tuple):
                    done_dm = False
                    if isinstance(s.value, ast.Call) and call_name(s.value) == "divmod" and len(s.value.args) == 2 and len(t.elts) == 2 \
                            and all(isinstance(el, ast.Name) for el in t.elts) and isinstance(s.value.args[1], ast.Constant) \
                            and isinstance(s.value.args[1].value, int) and s.value.args[1].value > 0:
                        a_, d_ = s.value.args
                        q = evaluate(env, ast.copy_location(ast.BinOp(left=a_, op=ast.FloorDiv(), right=d_), s.value))
                        av = evaluate(env, a_)
                        if isinstance(q, Lin) and isinstance(av, Lin):
                            env.vars[t.elts[0].id] = q
                            env.vars[t.elts[1].id] = av - q.scale(d_.value)
                            done_dm = True
                    if not done_dm and isinstance(s.value, ast.Call) and all(isinstance(el, ast.Name) for el in t.elts) and self._hdepth < 2:
                        # a, b = helper(x): a straight-line helper of the repository returning a tuple of that many numbers
                        g_, off_ = self._resolve_helper(s.value)
                        if g_ is not None and isinstance(g_.node, ast.FunctionDef) and not self.yields_in(g_.node):
                            body_ = [b for b in g_.node.body if not (isinstance(b, ast.Expr) and isinstance(b.value, ast.Constant))]
                            if body_ and isinstance(body_[-1], ast.Return) and isinstance(body_[-1].value, ast.Tuple) and len(body_[-1].value.elts) == len(t.elts) \
                                    and all(isinstance(b, (ast.Assign, ast.AnnAssign)) for b in body_[:-1]):
                                sub = self._bind_helper(st, s.value, g_, off_)
                                saved_fn = self.fn
                                self.fn = g_
                                self._hdepth += 1
                                try:
                                    outs_ = self.block(body_[:-1], [sub])
                                    if len(outs_) == 1:
                                        vals_ = [evaluate(outs_[0].env, x) for x in body_[-1].value.elts]
                                        if all(isinstance(v_, Lin) for v_ in vals_):
                                            st.env.facts = outs_[0].env.facts
                                            for el, v_ in zip(t.elts, vals_):
                                                env.vars[el.id] = v_
                                                st.sizes.pop(el.id, None)
                                            done_dm = True
                                finally:
                                    self.fn = saved_fn
                                    self._hdepth -= 1
                    if not done_dm:
                        for el in t.elts:
                            if isinstance(el, ast.Name):
                                env.vars[el.id] = Opaque("unpacked")
                                st.sizes.pop(el.id, None)
            return [st]
        if isinstance(s, ast.AnnAssign) and isinstance(s.target, ast.Name) and s.value is not None:
            return self.stmt(ast.copy_location(ast.Assign(targets=[s.target], value=s.value), s), st)
        if isinstance(s, ast.AugAssign) and isinstance(s.target, ast.Name):
            old = env.vars.get(s.target.id, evaluate(env, s.target))
            v = evaluate(env, s.value)
            if isinstance(old, Lin) and isinstance(v, Lin) and isinstance(s.op, (ast.Add, ast.Sub)):
                env.vars[s.target.id] = old + v if isinstance(s.op, ast.Add) else old - v
            else:
                env.vars[s.target.id] = Opaque("augassign")
            return [st]
        if isinstance(s, ast.Return):
            st.done = True
            return [st]
        if isinstance(s, ast.Raise):
            return []
        if isinstance(s, ast.If):
            t = self.truth(st, s.test)
            out = []
            if t.v is not False:
                a = st.copy()
                assume(a.env, s.test, True)
                a.conds.append(norm(s.test)[:50])
                out += self.block(s.body, [a])
            if t.v is not True:
                b = st.copy()
                assume(b.env, s.test, False)
                b.conds.append("not " + norm(s.test)[:50])
                out += self.block(s.orelse, [b])
            return out
        if isinstance(s, (ast.For, ast.AsyncFor)):
            return self.for_loop(s, st)
        if isinstance(s, ast.While):
            return self.while_loop(s, st)
        if isinstance(s, ast.Try):
            out = self.block(list(s.body) + list(s.orelse), [st.copy()])
            for h in s.handlers:
                out += self.block(h.body, [st.copy()])
            if s.finalbody:
                out = self.block(s.finalbody, out)
            return out
        if isinstance(s, (ast.With, ast.AsyncWith)):
            return self.block(s.body, [st])
        if isinstance(s, (ast.FunctionDef, ast.AsyncFunctionDef, ast.ClassDef, ast.Pass, ast.Assert, ast.Import,
                          ast.ImportFrom, ast.Global, ast.Nonlocal, ast.Delete)):
            return [st]
        if isinstance(s, ast.Continue):
            st.skip = True
            return [st]
        if isinstance(s, ast.Break) and self._quiet_break > 0:
            st.skip = True   # leaving a loop that neither yields nor counts: no effect on the yield count
            return [st]
        if isinstance(s, ast.Break):
            st.notes.append("break")
            st.count = Opaque("break in a counted region")
            return [st]
        return [st]

    def truth(self, st: YState, test: ast.AST) -> B3:
        """absint.truth extended with the truthiness of sequences of known size"""
        if isinstance(test, ast.Name) and test.id in st.sizes and isinstance(st.sizes[test.id], Lin):
            sz = st.sizes[test.id]
            if entails_ge0(st.env.facts, sz - Lin.c(1)):
                return B3(True)
            if entails_ge0(st.env.facts, -sz):
                return B3(False)
            return B3(None)
        if isinstance(test, ast.UnaryOp) and isinstance(test.op, ast.Not):
            v = self.truth(st, test.operand).v
            return B3(None if v is None else not v)
        if isinstance(test, ast.BoolOp):
            vs = [self.truth(st, v).v for v in test.values]
            if isinstance(test.op, ast.And):
                return B3(False if any(v is False for v in vs) else True if all(v is True for v in vs) else None)
            return B3(True if any(v is True for v in vs) else False if all(v is False for v in vs) else None)
        return truth(st.env, test)

    # ------------------------------------------------------------------ loops
    def body_effect(self, body: list[ast.stmt], st: YState, extra_vars: dict[str, Any]):
        """Interpret *body* once from a copy of st with count = 0; return the list of resulting states."""
        probe = st.copy()
        probe.count = Lin.c(0)
        probe.conds = []
        for k, v in extra_vars.items():
            probe.env.vars[k] = v
        out = self.block(body, [probe])
        for r in out:
            r.skip = False
        return out

    def _counter_guarded_loop(self, s: ast.For, st: YState, m: Any, extra: dict, before: dict) -> Optional[list]:
        """for x in xs:  if cnt >= K: break;  <body>   - the loop stops once a counter the body advances has reached K.
        Every path p of the body has a constant effect (c_p yields, d_p added to cnt).  When each path yields exactly what it counts
        (c_p == d_p == 1) the loop yields min(len(xs), K - cnt0).  Otherwise the behaviours in which one path is taken in every
        iteration are returned as separate states (they are feasible whenever the path conditions depend on per-iteration data such
        as a random draw): a path that yields without counting makes the loop run through all of xs."""
        if not s.body or not isinstance(s.body[0], ast.If) or s.body[0].orelse or len(s.body[0].body) != 1 or not isinstance(s.body[0].body[0], ast.Break):
            return None
        t = s.body[0].test
        if not (isinstance(t, ast.Compare) and len(t.ops) == 1 and isinstance(t.left, ast.Name) and t.left.id in before
                and isinstance(t.ops[0], (ast.GtE, ast.Gt, ast.Eq))):
            return None
        cnt = t.left.id
        K = evaluate(st.env, t.comparators[0])
        if not isinstance(K, Lin) or not isinstance(m, Lin):
            return None
        if isinstance(t.ops[0], ast.Gt):
            K = K + Lin.c(1)
        if any(isinstance(x, ast.Break) for b_ in s.body[1:] for x in ast.walk(b_)):
            return None
        results = self.body_effect(s.body[1:], st, extra)
        if not results or any(isinstance(r.count, Opaque) or r.done or not r.count.is_const() for r in results):
            return None
        paths = []
        for r in results:
            after = r.env.vars.get(cnt)
            if not isinstance(after, Lin) or not (after - before[cnt]).is_const():
                return None
            if any(isinstance(r.env.vars.get(k), Lin) and r.env.vars.get(k) != v for k, v in before.items() if k != cnt):
                return None                     # another counter changes as well: not this idiom
            paths.append((int(r.count.const), int((after - before[cnt]).const), r))
        room = K - before[cnt]                   # how far the counter is from the bound when the loop starts
        if all(c == 1 and d == 1 for c, d, _ in paths):
            times = self.amin(st.env, m, room) if entails_ge0(st.env.facts, room) else None
            if not isinstance(times, Lin):
                return None
            st.count = self.add(st.count, times)
            st.env.vars[cnt] = before[cnt] + times
            return [st]
        out = []
        seen = set()
        for c, d, r in paths:
            if (c, d) in seen:
                continue
            seen.add((c, d))
            ns = st.copy()
            if d <= 0:
                times = m                        # the counter never advances on this path: the loop runs through the whole input
            elif d == 1 and entails_ge0(ns.env.facts, room):
                times = self.amin(ns.env, m, room)
            else:
                return None
            if not isinstance(times, Lin):
                return None
            ns.count = self.add(ns.count, times.scale(c))
            ns.env.vars[cnt] = before[cnt] + times.scale(d)
            ns.conds.append(f"every iteration takes the path [{'; '.join(r.conds)[:80] or 'unconditional'}] ({c} yielded, '{cnt}' advanced by {d})")
            out.append(ns)
        return out

    def counters(self, st: YState) -> dict[str, Lin]:
        return {k: v for k, v in st.env.vars.items() if isinstance(v, Lin) and k != self.k_name}

    def for_loop(self, s: ast.For, st: YState) -> list[YState]:
        env = st.env
        it = s.iter
        if isinstance(it, ast.Call) and call_name(it) in ("count", "cycle", "repeat") and not (call_name(it) == "repeat" and len(it.args) > 1) \
                and not s.orelse and any(self.yields_in(b) for b in s.body):
            # an endless iterator: the loop is 'while True' with a counter nobody bounds it by
            w = ast.copy_location(ast.While(test=ast.copy_location(ast.Constant(value=True), s), body=s.body, orelse=[]), s)
            for tn in [n.id for n in ast.walk(s.target) if isinstance(n, ast.Name)]:
                env.vars[tn] = Opaque("position in an endless iterator")
            return self.while_loop(w, st)
        idx_name = elem_names = None
        m: Any = None
        tnames = [n.id for n in ast.walk(s.target) if isinstance(n, ast.Name)]
        if isinstance(it, ast.Call) and call_name(it) == "range" and len(it.args) == 1:
            m = self.size_of(st, it)
            idx_name = tnames[0] if tnames else None
        elif isinstance(it, ast.Call) and call_name(it) == "zip" and len(it.args) == 2:
            a, b = self.size_of(st, it.args[0]), self.size_of(st, it.args[1])
            m = self.amin(env, a, b)
        elif isinstance(it, ast.Call) and call_name(it) == "enumerate" and it.args:
            m = self.size_of(st, it.args[0])
            if isinstance(s.target, ast.Tuple) and isinstance(s.target.elts[0], ast.Name):
                idx_name = s.target.elts[0].id
        else:
            m = self.size_of(st, it)
        has_yield = any(self.yields_in(x) for x in s.body)
        changes_counters = any(isinstance(x, ast.AugAssign) for b_ in s.body for x in ast.walk(b_))
        if not has_yield and not changes_counters:
            # no effect on the count; model last-iteration bindings conservatively
            after = st
            for b_ in s.body:
                for a in ast.walk(b_):
                    if isinstance(a, ast.Assign):
                        for t in a.targets:
                            if isinstance(t, ast.Name):
                                # a sequence (re)bound in the body: its size after the loop is either the body's or the old one
                                pass
            # execute body once for size bindings (e.g. npopulation = step.apply(..., k, ...)), keep both outcomes
            self._quiet_break += 1
            try:
                entered = self.block(s.body, [st.copy()])
            finally:
                self._quiet_break -= 1
            for e_ in entered:
                e_.skip = False
            for e_ in entered:
                e_.conds.append(f"loop over {norm(it)[:30]} entered")
            skipped = st.copy()
            skipped.conds.append(f"loop over {norm(it)[:30]} not entered")
            may_skip = True
            if isinstance(m, Lin) and entails_ge0(env.facts, m - Lin.c(1)):
                may_skip = False
            only_binds = not any(isinstance(a, ast.Assign) and any(isinstance(t, ast.Name) and t.id in st.sizes for t in a.targets)
                                 for b_ in s.body for a in ast.walk(b_))
            if only_binds:
                return [st]
            return entered + ([skipped] if may_skip else [])
        if not isinstance(m, Lin):
            st.count = Opaque(f"loop over {norm(it)[:40]}: {getattr(m, 'why', m)}")
            return [st]
        idx_sym = env.facts.fresh("i", exact=True, integer=True) if idx_name else None
        extra = {idx_name: idx_sym} if idx_name else {}
        for tn in tnames:
            if tn != idx_name:
                extra[tn] = Opaque("element")
        before = self.counters(st)
        guarded = self._counter_guarded_loop(s, st, m, extra, before)
        if guarded is not None:
            return guarded
        results = self.body_effect(s.body, st, extra)
        if any(isinstance(r.count, Opaque) or r.done for r in results) or not results:
            st.count = Opaque("loop body effect not affine")
            return [st]
        # group by effect
        effects = []
        for r in results:
            dc = {k: (r.env.vars.get(k) - v) for k, v in before.items() if isinstance(r.env.vars.get(k), Lin)}
            effects.append((r.count, dc, r))
        uniform = all(e[0] == effects[0][0] and e[1] == effects[0][1] for e in effects)
        if uniform and effects[0][0].is_const() and all(d.is_const() for d in effects[0][1].values()):
            c = effects[0][0].const
            st.count = self.add(st.count, m.scale(c))
            for kname, d in effects[0][1].items():
                if d.const != 0:
                    env.vars[kname] = before[kname] + m.scale(d.const)
            if idx_name:
                env.vars[idx_name] = m - Lin.c(1)
                if not entails_ge0(env.facts, m - Lin.c(1)) and self._read_after(s, idx_name):
                    st.notes.append(f"loop variable '{idx_name}' is read after the loop but is unbound when the loop does not run")
            return [st]
        # guarded-by-index idiom: effects differ only by a condition  idx < K
        if idx_name and len(s.body) == 1 and isinstance(s.body[0], ast.If) and not s.body[0].orelse:
            t = s.body[0].test
            if isinstance(t, ast.Compare) and len(t.ops) == 1 and isinstance(t.left, ast.Name) and t.left.id == idx_name \
                    and isinstance(t.ops[0], (ast.Lt, ast.LtE)):
                bound = evaluate(env, t.comparators[0])
                if isinstance(bound, Lin):
                    if isinstance(t.ops[0], ast.LtE):
                        bound = bound + Lin.c(1)
                    inner = self.body_effect(s.body[0].body, st, extra)
                    if inner and all(isinstance(r.count, Lin) and r.count == inner[0].count and r.count.is_const() for r in inner):
                        times = self.amin(env, m, bound)
                        if isinstance(times, Lin):
                            st.count = self.add(st.count, times.scale(inner[0].count.const))
                            env.vars[idx_name] = m - Lin.c(1)
                            return [st]
        # general index-guard idiom (guard clauses, nested ifs): for some bound K compared with the index, every path of the
        # body either runs under idx <= K-1 with one constant effect, or under idx >= K with no effect
        if idx_name and idx_sym is not None:
            cands = []
            for b_ in s.body:
                for c_ in ast.walk(b_):
                    if isinstance(c_, ast.Compare) and len(c_.ops) == 1:
                        for side, other in ((c_.left, c_.comparators[0]), (c_.comparators[0], c_.left)):
                            if isinstance(side, ast.Name) and side.id == idx_name:
                                v = evaluate(env, other)
                                if isinstance(v, Lin):
                                    cands += [v, v + Lin.c(1)]
            for K in cands:
                inb, outb, okc = [], [], True
                for cnt, dc, r in effects:
                    fx = r.env.facts
                    if entails_ge0(fx, K - Lin.c(1) - idx_sym):
                        inb.append((cnt, dc))
                    elif entails_ge0(fx, idx_sym - K):
                        outb.append((cnt, dc))
                    else:
                        okc = False
                if not okc or not inb:
                    continue
                if all(c == inb[0][0] and d == inb[0][1] for c, d in inb) and inb[0][0].is_const() and all(d.is_const() for d in inb[0][1].values()) \
                        and all(c == Lin.c(0) and all(d == Lin.c(0) for d in dd.values()) for c, dd in outb):
                    times = self.amin(env, m, K) if entails_ge0(env.facts, K) else None
                    if isinstance(times, Lin):
                        st.count = self.add(st.count, times.scale(inb[0][0].const))
                        for kname, d in inb[0][1].items():
                            if d.const != 0:
                                env.vars[kname] = before[kname] + times.scale(d.const)
                        env.vars[idx_name] = m - Lin.c(1)
                        return [st]
        st.count = Opaque("loop body yields a path-dependent number of items")
        return [st]

    def _read_after(self, loop: ast.AST, name: str) -> bool:
        """Is *name* read after *loop* (outside it) without being assigned before the loop or re-bound after it?"""
        end = loop.end_lineno
        assigned_before = any(isinstance(n, ast.Name) and n.id == name and isinstance(n.ctx, ast.Store)
                              and n.lineno < loop.lineno for n in ast.walk(self.fn.node))
        if assigned_before or name in self.fn.params:
            return False
        inside = {id(n) for n in ast.walk(loop)}
        later_stores = sorted(n.lineno for n in ast.walk(self.fn.node) if isinstance(n, ast.Name) and n.id == name
                              and isinstance(n.ctx, ast.Store) and id(n) not in inside and n.lineno > end)
        for n in ast.walk(self.fn.node):
            if isinstance(n, ast.Name) and n.id == name and isinstance(n.ctx, ast.Load) and id(n) not in inside \
                    and n.lineno > end and not (later_stores and later_stores[0] <= n.lineno):
                return True
        return False

    def while_loop(self, s: ast.While, st: YState) -> list[YState]:
        env = st.env
        t = s.test
        if isinstance(t, ast.Compare) and len(t.ops) == 1 and isinstance(t.ops[0], ast.Lt) and isinstance(t.left, ast.Name):
            cname = t.left.id
            c0 = env.vars.get(cname)
            K = evaluate(env, t.comparators[0])
            if isinstance(c0, Lin) and isinstance(K, Lin):
                csym = env.facts.fresh("c", exact=True, integer=True)
                results = self.body_effect(s.body, st, {cname: csym})
                ok = bool(results)
                progress = False
                for r in results:
                    dc = r.env.vars.get(cname)
                    if not isinstance(r.count, Lin) or not isinstance(dc, Lin) or r.done:
                        ok = False
                        break
                    d = dc - csym
                    if not (d.is_const() and r.count.is_const() and d.const == r.count.const and d.const in (0, 1)):
                        ok = False
                        break
                    progress = progress or d.const == 1
                if ok and progress and entails_ge0(env.facts, K - c0):
                    st.count = self.add(st.count, K - c0)
                    env.vars[cname] = K
                    # other counters touched in the body become unknown
                    for r in results:
                        for k2, v2 in r.env.vars.items():
                            if k2 != cname and isinstance(v2, Lin) and env.vars.get(k2) != v2 and k2 in env.vars:
                                env.vars[k2] = Opaque("modified in loop")
                    self.assumptions.append(f"the counter loop 'while {norm(t)}' makes progress (creation eventually succeeds)")
                    return [st]
        # retry loop: 'while True' around a try that yields once and then leaves the loop (break directly after the yield, or in the
        # try's else); the handlers swallow the failure without leaving: the loop ends after exactly one successful yield
        if isinstance(t, ast.Constant) and t.value is True:
            tries = [b for b in s.body if isinstance(b, ast.Try)]
            rest = [b for b in s.body if not isinstance(b, ast.Try)]
            if len(tries) == 1 and not any(self.yields_in(b) for b in rest) \
                    and not any(isinstance(x, (ast.Break, ast.Return)) for b in rest for x in ast.walk(b)):
                tr = tries[0]
                ys = [i for i, b in enumerate(tr.body) if self.yields_in(b)]
                one_yield = len(ys) == 1 and isinstance(tr.body[ys[0]], ast.Expr) and isinstance(tr.body[ys[0]].value, ast.Yield)
                leaves = one_yield and (any(isinstance(b, ast.Break) for b in tr.body[ys[0] + 1:]) or any(isinstance(b, ast.Break) for b in tr.orelse))
                before_ok = one_yield and not any(isinstance(x, (ast.Break, ast.Return, ast.Continue)) for b in tr.body[:ys[0]] for x in ast.walk(b))
                handlers_stay = all(not any(isinstance(x, (ast.Break, ast.Return, ast.Raise, ast.Yield, ast.YieldFrom)) for b in h.body for x in ast.walk(b))
                                    for h in tr.handlers)
                if leaves and before_ok and handlers_stay and tr.handlers and not tr.finalbody:
                    st.count = self.add(st.count, Lin.c(1))
                    for h in tr.handlers:
                        for b in h.body:
                            for x in ast.walk(b):
                                if isinstance(x, (ast.AugAssign, ast.Assign)):
                                    tg_ = x.target if isinstance(x, ast.AugAssign) else x.targets[0]
                                    if isinstance(tg_, ast.Name) and tg_.id in env.vars:
                                        env.vars[tg_.id] = Opaque("modified in a retry loop")
                    self.assumptions.append("the retry loop 'while True: try: yield ...; break' makes progress (creation eventually succeeds)")
                    return [st]
        if any(self.yields_in(x) for x in s.body):
            st.count = Opaque(f"while-loop '{norm(t)[:40]}' is not a counter loop")
        return [st]


def verdict(fc: YieldCounter, st: YState, want: Lin):
    """('holds'|'fails'|'unproven'|'undecided', detail, witness)"""
    if isinstance(st.count, Opaque):
        return "undecided", st.count.why, None
    f = st.env.facts
    d = st.count - want
    if entails_ge0(f, d) and entails_ge0(f, -d):
        return "holds", f"count = {st.count!r}", None
    if entails_ge0(f, d - Lin.c(1)):
        return "fails", f"yields {st.count!r}, which exceeds k on every input of this path", None
    if entails_ge0(f, -d - Lin.c(1)):
        return "fails", f"yields {st.count!r}, fewer than k on every input of this path", None
    if f.is_exact(d):
        m = find_model(f, d) or find_model(f, -d)
        if m is not None:
            return "fails", f"yields {st.count!r} != k at {m}", m
    return "unproven", f"cannot prove {st.count!r} == k", None
