"""Memo-key completeness (dependency analysis over one function).

A *memo* is state an object keeps between calls in order to answer later calls without recomputing: in one method, a container
or attribute of `self` (or of an object handed in) is looked up, filled when the entry is missing, and the entry is used for the
result.  Such a memo is only transparent when the key determines the value: every parameter of the method that the stored value
depends on (by data flow through the locals, or by control flow through the branches it is computed under) must also flow into
the key.  Otherwise a later call with the same key and another value of that parameter is answered from the stale entry - the
result depends on the history of the object, not on the arguments.

  dict memo      self.T[K] = V         with a read of self.T (subscript / get / membership) in the same function
  scalar memo    self.a = V            under a guard 'self.a is None' / 'not hasattr(self, "a")' / 'not self.a', with self.a read afterwards;
                                        the key is empty, so V may depend on no parameter at all

Only parameters count as dependencies: attributes of self are the object's configuration (a change of those is C08's business),
and values drawn from a random source are the business of the provenance rules.  A function that only *sets* (no lookup of the same
container, e.g. set_fitness) or only advances a cursor (the value is computed from the entry itself) is not a memo."""
from __future__ import annotations

import ast
from dataclasses import dataclass
from typing import Optional

from .astutil import call_name, is_self_attr
from .frontend import FunctionInfo, norm, parent, walk_local


@dataclass
class MemoSite:
    fn: FunctionInfo
    node: ast.AST
    table: str                 # "self.T" or the name of a parameter holding the table
    key: Optional[ast.AST]     # None for a scalar memo
    value: ast.AST
    key_deps: set
    value_deps: set

    @property
    def missing(self) -> set:
        return self.value_deps - self.key_deps


def _table_of(e: ast.AST, params: list) -> Optional[str]:
    """'self.T' for self.T, 'p.T' / 'p' for a table reached from a parameter"""
    if isinstance(e, ast.Attribute) and isinstance(e.value, ast.Name) and (e.value.id == "self" or e.value.id in params):
        return f"{e.value.id}.{e.attr}"
    return None


class _Deps:
    def __init__(self, f: FunctionInfo):
        self.f = f
        self.params = [p for p in f.params if p != "self"]
        self.defs: dict[str, list[ast.AST]] = {}
        for n in walk_local(f.node, include_nested=True):
            if isinstance(n, ast.Assign):
                for t in n.targets:
                    self._bind(t, n.value)
            elif isinstance(n, ast.AnnAssign) and n.value is not None:
                self._bind(n.target, n.value)
            elif isinstance(n, ast.AugAssign):
                self._bind(n.target, n.value)
            elif isinstance(n, (ast.For, ast.AsyncFor)):
                self._bind(n.target, n.iter)
            elif isinstance(n, ast.comprehension):
                self._bind(n.target, n.iter)
            elif isinstance(n, ast.NamedExpr):
                self._bind(n.target, n.value)
            elif isinstance(n, (ast.With, ast.AsyncWith)):
                for it in n.items:
                    if it.optional_vars is not None:
                        self._bind(it.optional_vars, it.context_expr)

    def _bind(self, t: ast.AST, v: ast.AST):
        if isinstance(t, ast.Name):
            self.defs.setdefault(t.id, []).append(v)
        elif isinstance(t, (ast.Tuple, ast.List)):
            for e in t.elts:
                self._bind(e, v)
        elif isinstance(t, ast.Starred):
            self._bind(t.value, v)

    def atoms(self, key: ast.AST, seen: Optional[set] = None) -> set:
        """the names a key is built from by injective constructors only (tuples, aliases): the key determines each of them, and
        nothing finer - a key computed as 'hi - lo' determines neither hi nor lo"""
        seen = set() if seen is None else seen
        out: set = set()
        if isinstance(key, ast.Name):
            out.add(key.id)
            if key.id in self.defs and key.id not in seen and key.id not in self.params:
                seen.add(key.id)
                if all(isinstance(v, (ast.Name, ast.Tuple)) for v in self.defs[key.id]):
                    for v in self.defs[key.id]:
                        out |= self.atoms(v, seen)
        elif isinstance(key, ast.Tuple):
            for e in key.elts:
                out |= self.atoms(e, seen)
        elif isinstance(key, ast.Call) and call_name(key) in ("tuple", "frozenset", "str", "repr", "id", "type") and len(key.args) == 1:
            out |= {n.id for n in ast.walk(key.args[0]) if isinstance(n, ast.Name)} if not isinstance(key.args[0], ast.Name) else self.atoms(key.args[0], seen)
        else:
            # any other expression: a value computed from its names; it determines itself only
            pass
        return out

    def of(self, e: Optional[ast.AST], seen: Optional[set] = None, stop: frozenset = frozenset()) -> set:
        """parameters the value of e depends on (data flow through locals, flow-insensitive); names in `stop` are neither counted
        nor expanded (they are determined by the memo key)"""
        if e is None:
            return set()
        seen = set() if seen is None else seen
        out: set = set()
        for n in ast.walk(e):
            if isinstance(n, ast.Name) and isinstance(n.ctx, ast.Load):
                if n.id in stop:
                    continue
                if n.id in self.params and n.id not in self.defs:
                    out.add(n.id)
                elif n.id in self.defs and n.id not in seen:
                    seen.add(n.id)
                    if n.id in self.params:
                        out.add(n.id)
                    for v in self.defs[n.id]:
                        out |= self.of(v, seen, stop)
        return out

    def control(self, node: ast.AST, skip: set, stop: frozenset = frozenset()) -> set:
        """parameters the branch conditions around node depend on (the memo guard itself excepted)"""
        out: set = set()
        cur = node
        p = parent(cur)
        while p is not None and p is not self.f.node:
            if isinstance(p, (ast.If, ast.While)) and id(p) not in skip and cur is not p.test:
                out |= self.of(p.test, None, stop)
            elif isinstance(p, ast.IfExp) and cur is not p.test:
                out |= self.of(p.test, None, stop)
            cur, p = p, parent(p)
        return out


def _mentions_table(test: ast.AST, table: str) -> bool:
    return any(isinstance(x, ast.Attribute) and _tab(x) == table for x in ast.walk(test)) or \
        any(isinstance(x, ast.Call) and call_name(x) == "hasattr" and len(x.args) == 2 and isinstance(x.args[1], ast.Constant)
            and isinstance(x.args[0], ast.Name) and f"{x.args[0].id}.{x.args[1].value}" == table for x in ast.walk(test))


def _tab(e: ast.AST) -> Optional[str]:
    if isinstance(e, ast.Attribute) and isinstance(e.value, ast.Name):
        return f"{e.value.id}.{e.attr}"
    return None


def memo_sites(f: FunctionInfo) -> list[MemoSite]:
    if f.name in ("__init__", "__post_init__", "__new__") or not isinstance(f.node, (ast.FunctionDef, ast.AsyncFunctionDef)):
        return []
    params = [p for p in f.params if p != "self"]
    roots = (["self"] if f.params and f.params[0] == "self" else []) + params
    d: Optional[_Deps] = None
    out: list[MemoSite] = []
    nodes = list(walk_local(f.node))
    for st in nodes:
        if not isinstance(st, (ast.Assign, ast.AnnAssign)):
            continue
        targets = st.targets if isinstance(st, ast.Assign) else [st.target]
        value = st.value
        if value is None:
            continue
        for t in targets:
            # ---- dict memo
            if isinstance(t, ast.Subscript) and isinstance(t.value, ast.Attribute) and isinstance(t.value.value, ast.Name) and t.value.value.id in roots:
                table = _tab(t.value)
                reads = [x for x in nodes if x is not t and (
                    (isinstance(x, ast.Subscript) and isinstance(x.ctx, ast.Load) and _tab(x.value) == table) or
                    (isinstance(x, ast.Call) and isinstance(x.func, ast.Attribute) and x.func.attr in ("get", "setdefault") and _tab(x.func.value) == table) or
                    (isinstance(x, ast.Compare) and any(isinstance(o, (ast.In, ast.NotIn)) for o in x.ops) and any(_tab(c) == table for c in x.comparators)))]
                if not reads:
                    continue          # a setter, not a memo
                d = d or _Deps(f)
                # (a cursor's new value is computed from the entry itself: its dependencies are those of the key)
                katoms = frozenset(d.atoms(t.slice))
                if not katoms and isinstance(t.slice, ast.Constant):
                    continue          # a fixed slot, not a keyed memo
                # a key that is an expression (not a tuple of names) determines only itself: treat the local it was bound to, if any, as the atom
                vd = d.of(value, None, katoms)
                guards_ = {id(p) for p in _enclosing_ifs(st, f.node) if _mentions_table(p.test, table)}
                vd |= d.control(st, guards_, katoms)
                out.append(MemoSite(f, st, table, t.slice, value, set(), vd))
            # ---- scalar memo
            elif isinstance(t, ast.Attribute) and isinstance(t.value, ast.Name) and t.value.id in roots:
                table = _tab(t)
                gifs = [p for p in _enclosing_ifs(st, f.node) if _is_missing_test(p.test, table) and _in_body(st, p)]
                if not gifs:
                    continue
                if (isinstance(value, (ast.Dict, ast.List, ast.Set, ast.Tuple)) and not (value.keys if isinstance(value, ast.Dict) else value.elts)) or \
                        (isinstance(value, ast.Call) and not value.args and call_name(value) in ("dict", "list", "set", "defaultdict", "OrderedDict", "deque", "WeakKeyDictionary")) or \
                        (isinstance(value, ast.Call) and call_name(value) == "defaultdict") or (isinstance(value, ast.Constant)):
                    continue          # creating the (empty) table / a constant: nothing is remembered yet
                other_stores = [x for x in nodes if isinstance(x, (ast.Assign, ast.AnnAssign, ast.AugAssign)) and x is not st
                                and any(_tab(tt) == table for tt in (x.targets if isinstance(x, ast.Assign) else [x.target]))
                                and not any(_in_body(x, g) for g in gifs)]
                if other_stores:
                    continue          # the attribute is tracked state (also written when it is already there), not a fill-once memo
                later_reads = [x for x in nodes if isinstance(x, ast.Attribute) and isinstance(x.ctx, ast.Load) and _tab(x) == table
                               and not any(x is y for g in gifs for y in ast.walk(g.test))]
                if not later_reads:
                    continue
                d = d or _Deps(f)
                vd = d.of(value) | d.control(st, {id(g) for g in gifs})
                out.append(MemoSite(f, st, table, None, value, set(), vd))
    return out


def _enclosing_ifs(node: ast.AST, stop: ast.AST) -> list:
    out = []
    p = parent(node)
    while p is not None and p is not stop:
        if isinstance(p, ast.If):
            out.append(p)
        p = parent(p)
    return out


def _in_body(node: ast.AST, if_: ast.If) -> bool:
    return any(node is x for s in if_.body for x in ast.walk(s))


def _is_missing_test(test: ast.AST, table: str) -> bool:
    """'<table> is None', 'not hasattr(<obj>, "<attr>")', 'not <table>' (possibly one operand of an 'or')"""
    if isinstance(test, ast.BoolOp):
        return any(_is_missing_test(v, table) for v in test.values)
    if isinstance(test, ast.Compare) and len(test.ops) == 1 and isinstance(test.ops[0], ast.Is) and _tab(test.left) == table \
            and isinstance(test.comparators[0], ast.Constant) and test.comparators[0].value is None:
        return True
    if isinstance(test, ast.UnaryOp) and isinstance(test.op, ast.Not):
        o = test.operand
        if _tab(o) == table:
            return True
        if isinstance(o, ast.Call) and call_name(o) == "hasattr" and len(o.args) == 2 and isinstance(o.args[0], ast.Name) \
                and isinstance(o.args[1], ast.Constant) and f"{o.args[0].id}.{o.args[1].value}" == table:
            return True
    return False


def describe(site: MemoSite) -> str:
    key = f"keyed by '{norm(site.key)}'" if site.key is not None else "filled once"
    return (f"the memo {site.table} ({key}) stores a value that also depends on {sorted(site.missing)}: a later call with the same key and another "
            f"{' / '.join(sorted(site.missing))} is answered from the stale entry, so the result depends on what the object was asked before")


_EXAMPLES = '''
class K:
    def stale(self, lo, hi):
        width = hi - lo
        if width not in self.t:
            self.t[width] = (lo + width // 2, width)
        return self.t[width]

    def fine(self, lo, hi):
        key = (lo, hi)
        if key not in self.t:
            self.t[key] = lo + (hi - lo) // 2
        return self.t[key]

    def once(self, k):
        if self.cache is None:
            self.cache = list(self.items)[:k]
        return self.cache

    def setter(self, key, value):
        self.t[key] = value
'''


def selfcheck() -> None:
    """the rule's expected number of findings on a healthy tree is zero: three tiny examples that must be classified on every run"""
    from .frontend import AnalysisError, ModuleInfo, set_parents
    tree = ast.parse(_EXAMPLES)
    set_parents(tree)
    mod = ModuleInfo.__new__(ModuleInfo)
    mod.name, mod.relpath = "memo_examples", "<memo examples>"
    got = {}
    for fn in tree.body[0].body:
        f = FunctionInfo(mod, f"K.{fn.name}", fn)
        got[fn.name] = [sorted(s.missing) for s in memo_sites(f)]
    want = {"stale": [["lo"]], "fine": [[]], "once": [["k"]], "setter": []}
    if got != want:
        raise AnalysisError(f"memo analysis self-check failed: {got} != {want}")
