"""Resolved calls: direct calls through import tables, method calls through the receiver's
mypy type and the repository class hierarchy (CHA).  Receivers typed ``Any`` are never
guessed by method name; they are reported as unresolved and counted.
"""
from __future__ import annotations

import ast
import builtins
from dataclasses import dataclass, field
from typing import Iterator, Optional

from .frontend import (
    ClassInfo,
    FunctionInfo,
    ModuleInfo,
    Program,
    ancestors,
    dotted,
    walk_local,
)
from .types import T, TypeTable

BUILTINS = set(dir(builtins))


@dataclass
class CallTarget:
    kind: str  # 'repo' | 'ctor' | 'external' | 'builtin' | 'unresolved'
    targets: list[FunctionInfo] = field(default_factory=list)
    name: str = ""  # external dotted name / builtin name / class fullname for ctor
    cls: Optional[ClassInfo] = None
    recv_classes: list[ClassInfo] = field(default_factory=list)


class Resolver:
    def __init__(self, prog: Program, types: TypeTable):
        self.prog = prog
        self.types = types
        self.unresolved: list[tuple[FunctionInfo, ast.Call]] = []
        self._cache: dict[int, CallTarget] = {}

    # -------------------------------------------------------------- type helpers
    def classes_of_type(self, t: T) -> list[ClassInfo]:
        out = []
        for inst in t.instances():
            c = self.prog.classes.get(inst.fn)
            if c is not None and c not in out:
                out.append(c)
        if t.k == "typevar":
            pass
        return out

    def annotation_classes(self, m: ModuleInfo, ann: ast.AST | None) -> list[ClassInfo]:
        """Classes named in an annotation expression (handles Optional/Union/|/string forms)."""
        if ann is None:
            return []
        if isinstance(ann, ast.Constant) and isinstance(ann.value, str):
            try:
                ann = ast.parse(ann.value, mode="eval").body
            except SyntaxError:
                return []
        out: list[ClassInfo] = []
        for n in ast.walk(ann):
            d = dotted(n) if isinstance(n, (ast.Name, ast.Attribute)) else None
            if d:
                r = self.prog.resolve_name(m, d)
                if r in self.prog.classes and self.prog.classes[r] not in out:
                    out.append(self.prog.classes[r])
        return out

    def receiver_classes(self, fn: FunctionInfo, expr: ast.AST) -> list[ClassInfo]:
        t = self.types.of(fn.module, expr)
        cs = self.classes_of_type(t)
        if cs or not t.is_any():
            return cs
        # fallback for code mypy considers unreachable / untyped: declared annotations only
        if isinstance(expr, ast.Name):
            if expr.id == "self":
                c = self.enclosing_class(fn)
                return [c] if c else []
            f: Optional[FunctionInfo] = fn
            while f is not None:
                for a in _all_args(f.node):
                    if a.arg == expr.id and a.annotation is not None:
                        return self.annotation_classes(f.module, a.annotation)
                f = f.parent
        if isinstance(expr, ast.Attribute):
            for owner in self.receiver_classes(fn, expr.value):
                for c in self.prog.mro(owner):
                    a = c.class_attrs.get(expr.attr)
                    if isinstance(a, ast.AnnAssign):
                        r = self.annotation_classes(c.module, a.annotation)
                        if r:
                            return r
        return []

    def enclosing_class(self, fn: FunctionInfo) -> Optional[ClassInfo]:
        f: Optional[FunctionInfo] = fn
        while f is not None:
            if f.cls is not None:
                return f.cls
            f = f.parent
        return None

    # ------------------------------------------------------------------- calls
    def resolve(self, fn: FunctionInfo, call: ast.Call) -> CallTarget:
        key = id(call)
        r = self._cache.get(key)
        if r is None:
            r = self._resolve(fn, call)
            self._cache[key] = r
            if r.kind == "unresolved":
                self.unresolved.append((fn, call))
        return r

    def _local_def(self, fn: FunctionInfo, name: str) -> Optional[FunctionInfo]:
        f: Optional[FunctionInfo] = fn
        while f is not None:
            q = f"{f.qualname}.<locals>.{name}"
            g = f.module.functions.get(q)
            if g is not None:
                return g
            f = f.parent
        return None

    def _is_local_binding(self, fn: FunctionInfo, name: str) -> bool:
        f: Optional[FunctionInfo] = fn
        while f is not None:
            if name in f.params:
                return True
            for n in walk_local(f.node):
                if isinstance(n, ast.Name) and n.id == name and isinstance(n.ctx, ast.Store):
                    return True
            f = f.parent
        return False

    def _resolve(self, fn: FunctionInfo, call: ast.Call) -> CallTarget:
        f = call.func
        m = fn.module
        prog = self.prog
        if isinstance(f, ast.Name):
            loc = self._local_def(fn, f.id)
            if loc is not None:
                return CallTarget("repo", [loc])
            if self._is_local_binding(fn, f.id):
                # a local variable / parameter holding a callable
                t = self.types.of(m, f)
                if t.k == "callable" and t.fn in prog.classes:
                    return self._ctor(prog.classes[t.fn])
                return CallTarget("unresolved", name=f.id)
            r = prog.resolve_name(m, f.id)
            if r is not None:
                if r in prog.functions:
                    return CallTarget("repo", [prog.functions[r]])
                if r in prog.classes:
                    return self._ctor(prog.classes[r])
                return CallTarget("external", name=r)
            if f.id in m.globals_assigned:
                return CallTarget("unresolved", name=f.id)
            if f.id in BUILTINS:
                return CallTarget("builtin", name=f.id)
            return CallTarget("unresolved", name=f.id)
        if isinstance(f, ast.Attribute):
            v = f.value
            # super().m(...)
            if isinstance(v, ast.Call) and isinstance(v.func, ast.Name) and v.func.id == "super":
                c = self.enclosing_class(fn)
                if c is not None:
                    for b in prog.mro(c)[1:]:
                        if f.attr in b.methods:
                            return CallTarget("repo", [b.methods[f.attr]], recv_classes=[b])
                    return CallTarget("external", name=f"super().{f.attr}")
            d = dotted(v)
            if d is not None and not self._is_local_binding(fn, d.split(".")[0]):
                r = prog.resolve_name(m, d)
                if r is not None:
                    if r in prog.classes:  # Class.method(...) static style
                        g = prog.lookup_method(prog.classes[r], f.attr)
                        if g is not None:
                            return CallTarget("repo", [g], recv_classes=[prog.classes[r]])
                        return CallTarget("external", name=f"{r}.{f.attr}")
                    if r in prog.modules:
                        mod = prog.modules[r]
                        rr = prog.resolve_name(mod, f.attr)
                        if rr in prog.functions:
                            return CallTarget("repo", [prog.functions[rr]])
                        if rr in prog.classes:
                            return self._ctor(prog.classes[rr])
                    if r not in prog.functions:
                        return CallTarget("external", name=f"{r}.{f.attr}")
            cs = self.receiver_classes(fn, v)
            if cs:
                targets: list[FunctionInfo] = []
                for c in cs:
                    for g in prog.cha_targets(c, f.attr):
                        if g not in targets:
                            targets.append(g)
                if targets:
                    return CallTarget("repo", targets, recv_classes=cs)
                return CallTarget("external", name=f"{cs[0].fullname}.{f.attr}", recv_classes=cs)
            t = self.types.of(m, v)
            if not t.is_any() and t.k in ("instance", "tuple", "union", "none", "typetype", "callable"):
                return CallTarget("external", name=f"{t.fn or t.s}.{f.attr}")
            return CallTarget("unresolved", name=f.attr)
        return CallTarget("unresolved", name=type(f).__name__)

    def _ctor(self, c: ClassInfo) -> CallTarget:
        init = self.prog.lookup_method(c, "__init__")
        return CallTarget("ctor", [init] if init is not None else [], name=c.fullname, cls=c)

    # ---------------------------------------------------------- reachability
    def calls_in(self, fn: FunctionInfo, include_nested: bool = True) -> Iterator[ast.Call]:
        for n in walk_local(fn.node, include_nested=include_nested):
            if isinstance(n, ast.Call):
                yield n

    def reachable(self, roots: list[FunctionInfo], max_depth: int = 12,
                  stop: Optional[set[str]] = None) -> dict[FunctionInfo, list[FunctionInfo]]:
        """Functions reachable on resolved edges; value = one call path from a root."""
        seen: dict[FunctionInfo, list[FunctionInfo]] = {}
        todo = [(r, [r]) for r in roots]
        while todo:
            fn, path = todo.pop(0)
            if fn in seen:
                continue
            seen[fn] = path
            if len(path) > max_depth or (stop and fn.fullname in stop):
                continue
            for call in self.calls_in(fn):
                owner = self.prog.function_containing(call) or fn
                ct = self.resolve(owner, call)
                for g in ct.targets:
                    if g not in seen:
                        todo.append((g, path + [g]))
        return seen


def _all_args(fn_node: ast.AST) -> list[ast.arg]:
    a = fn_node.args
    return a.posonlyargs + a.args + a.kwonlyargs + ([a.vararg] if a.vararg else []) + ([a.kwarg] if a.kwarg else [])
