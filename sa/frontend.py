"""Front end: parse /repo's package sources and index them (stdlib ``ast`` only).

Nothing under the repository is imported or executed.  The index gives, for the
analysed scope (``geneticengine/`` and ``geml/``): modules, their import tables,
classes with resolved bases and an MRO, functions (methods, nested functions) with
parent links on every AST node, and a few helpers used by every rule module.
"""
from __future__ import annotations

import ast
import hashlib
import os
from dataclasses import dataclass, field
from typing import Iterator, Optional

PACKAGES = ("geneticengine", "geml")
# confirmed by hand on the pinned tree (see DESIGN 2.1); fewer => the run is broken
MODULE_FLOOR = 80


class AnalysisError(Exception):
    """The analysis itself cannot proceed (missing anchor, parse failure, floor)."""


@dataclass
class FunctionInfo:
    module: "ModuleInfo"
    qualname: str
    node: ast.AST  # FunctionDef | AsyncFunctionDef | Lambda
    cls: Optional["ClassInfo"] = None
    parent: Optional["FunctionInfo"] = None

    @property
    def name(self) -> str:
        return self.qualname.rsplit(".", 1)[-1]

    @property
    def fullname(self) -> str:
        return f"{self.module.name}:{self.qualname}"

    @property
    def params(self) -> list[str]:
        a = self.node.args
        return [x.arg for x in a.posonlyargs + a.args] + ([a.vararg.arg] if a.vararg else []) + [
            x.arg for x in a.kwonlyargs
        ] + ([a.kwarg.arg] if a.kwarg else [])

    def loc(self, node: ast.AST | None = None) -> str:
        n = node if node is not None else self.node
        return f"{self.module.relpath}:{getattr(n, 'lineno', 0)}"

    def __repr__(self) -> str:
        return f"<fn {self.fullname}>"

    def __hash__(self) -> int:
        return hash(self.fullname)

    def __eq__(self, other) -> bool:
        return isinstance(other, FunctionInfo) and other.fullname == self.fullname


@dataclass
class ClassInfo:
    module: "ModuleInfo"
    name: str
    node: ast.ClassDef
    base_exprs: list[ast.expr] = field(default_factory=list)
    bases: list[str] = field(default_factory=list)  # resolved full names ("mod.Class") or dotted text
    methods: dict[str, FunctionInfo] = field(default_factory=dict)
    class_attrs: dict[str, ast.AST] = field(default_factory=dict)  # name -> annotation/value node

    @property
    def fullname(self) -> str:
        return f"{self.module.name}.{self.name}"

    def __repr__(self) -> str:
        return f"<class {self.fullname}>"

    def __hash__(self) -> int:
        return hash(self.fullname)

    def __eq__(self, other) -> bool:
        return isinstance(other, ClassInfo) and other.fullname == self.fullname


@dataclass
class ModuleInfo:
    name: str
    path: str
    relpath: str
    source: str
    tree: ast.Module
    imports: dict[str, tuple[str, Optional[str]]] = field(default_factory=dict)
    type_checking_only: set[str] = field(default_factory=set)
    classes: dict[str, ClassInfo] = field(default_factory=dict)
    functions: dict[str, FunctionInfo] = field(default_factory=dict)  # qualname -> info
    globals_assigned: dict[str, ast.AST] = field(default_factory=dict)

    def seg(self, node: ast.AST) -> str:
        return ast.get_source_segment(self.source, node) or ast.unparse(node)


def norm(node: ast.AST) -> str:
    """Normalised text of a construct: used in finding keys (never line numbers)."""
    try:
        return " ".join(ast.unparse(node).split())
    except Exception:  # pragma: no cover
        return type(node).__name__


def set_parents(tree: ast.AST) -> None:
    for parent in ast.walk(tree):
        for child in ast.iter_child_nodes(parent):
            child._parent = parent  # type: ignore[attr-defined]
    tree._parent = None  # type: ignore[attr-defined]


def parent(node: ast.AST) -> Optional[ast.AST]:
    return getattr(node, "_parent", None)


def ancestors(node: ast.AST) -> Iterator[ast.AST]:
    p = parent(node)
    while p is not None:
        yield p
        p = parent(p)


def enclosing_function(node: ast.AST) -> Optional[ast.AST]:
    for a in ancestors(node):
        if isinstance(a, (ast.FunctionDef, ast.AsyncFunctionDef, ast.Lambda)):
            return a
    return None


def enclosing_stmt(node: ast.AST) -> ast.stmt:
    n = node
    while not isinstance(n, ast.stmt):
        n = parent(n)
        if n is None:
            raise AnalysisError("expression without enclosing statement")
    return n


def walk_local(fn_node: ast.AST, include_nested: bool = False) -> Iterator[ast.AST]:
    """Walk a function body; by default do not descend into nested defs/lambdas/classes."""
    body = fn_node.body if isinstance(fn_node.body, list) else [fn_node.body]
    stack = list(reversed(body))
    while stack:
        n = stack.pop()
        yield n
        if not include_nested and isinstance(n, (ast.FunctionDef, ast.AsyncFunctionDef, ast.Lambda, ast.ClassDef)):
            continue
        stack.extend(reversed(list(ast.iter_child_nodes(n))))


def dotted(node: ast.AST) -> Optional[str]:
    """``a.b.c`` for Name/Attribute chains, else None."""
    parts = []
    while isinstance(node, ast.Attribute):
        parts.append(node.attr)
        node = node.value
    if isinstance(node, ast.Name):
        parts.append(node.id)
        return ".".join(reversed(parts))
    return None


class Program:
    def __init__(self, repo: str):
        self.repo = os.path.abspath(repo)
        self.modules: dict[str, ModuleInfo] = {}
        self.classes: dict[str, ClassInfo] = {}
        self.functions: dict[str, FunctionInfo] = {}
        self._fn_by_node: dict[int, FunctionInfo] = {}
        self._load()
        self._resolve_bases()
        self._subclasses: dict[str, set[str]] = {}
        for c in self.classes.values():
            for b in c.bases:
                self._subclasses.setdefault(b, set()).add(c.fullname)

    # ------------------------------------------------------------------ loading
    def _load(self) -> None:
        files = []
        for pkg in PACKAGES:
            root = os.path.join(self.repo, pkg)
            if not os.path.isdir(root):
                raise AnalysisError(f"package directory missing: {root}")
            for dp, dn, fn in os.walk(root):
                dn[:] = sorted(d for d in dn if d != "__pycache__")
                for f in sorted(fn):
                    if f.endswith(".py"):
                        files.append(os.path.join(dp, f))
        h = hashlib.sha256()
        for path in files:
            rel = os.path.relpath(path, self.repo)
            with open(path, "rb") as fh:
                raw = fh.read()
            h.update(rel.encode() + b"\0" + raw + b"\0")
            src = raw.decode("utf-8")
            try:
                tree = ast.parse(src, filename=path)
            except SyntaxError as e:
                raise AnalysisError(f"cannot parse {rel}: {e}") from e
            set_parents(tree)
            name = rel[:-3].replace(os.sep, ".")
            if name.endswith(".__init__"):
                name = name[: -len(".__init__")]
            m = ModuleInfo(name=name, path=path, relpath=rel, source=src, tree=tree)
            self.modules[name] = m
            self._index_module(m)
        self.digest = h.hexdigest()
        if len(self.modules) < MODULE_FLOOR:
            raise AnalysisError(f"only {len(self.modules)} modules analysed (< floor {MODULE_FLOOR})")

    def _index_module(self, m: ModuleInfo) -> None:
        def imports_in(body, tc_only: bool):
            for st in body:
                if isinstance(st, ast.Import):
                    for al in st.names:
                        local = al.asname or al.name.split(".")[0]
                        m.imports[local] = (al.name if al.asname else al.name.split(".")[0], None)
                        if tc_only:
                            m.type_checking_only.add(local)
                elif isinstance(st, ast.ImportFrom):
                    mod = st.module or ""
                    if st.level:
                        base = m.name.split(".")
                        if not m.path.endswith("__init__.py"):
                            base = base[:-1]
                        base = base[: len(base) - (st.level - 1)] if st.level > 1 else base
                        mod = ".".join(base + ([mod] if mod else []))
                    for al in st.names:
                        local = al.asname or al.name
                        m.imports[local] = (mod, al.name)
                        if tc_only:
                            m.type_checking_only.add(local)
                elif isinstance(st, ast.If):
                    t = dotted(st.test)
                    is_tc = t in ("TYPE_CHECKING", "typing.TYPE_CHECKING")
                    imports_in(st.body, tc_only or is_tc)
                    imports_in(st.orelse, tc_only)
                elif isinstance(st, ast.Try):
                    imports_in(st.body, tc_only)

        imports_in(m.tree.body, False)
        # names imported inside functions (e.g. "import sys" in get_arguments) also count
        for n in ast.walk(m.tree):
            if isinstance(n, (ast.Import, ast.ImportFrom)) and enclosing_function(n) is not None:
                imports_in([n], False)

        def visit(body, prefix: str, cls: Optional[ClassInfo], fn: Optional[FunctionInfo]):
            for st in body:
                if isinstance(st, (ast.FunctionDef, ast.AsyncFunctionDef)):
                    q = f"{prefix}{st.name}"
                    fi = FunctionInfo(m, q, st, cls=cls if fn is None else None, parent=fn)
                    # keep the last definition of overloads (the implementation)
                    m.functions[q] = fi
                    self._fn_by_node[id(st)] = fi
                    if cls is not None and fn is None:
                        cls.methods[st.name] = fi
                    visit(st.body, f"{q}.<locals>.", None, fi)
                elif isinstance(st, ast.ClassDef):
                    ci = ClassInfo(m, st.name if not prefix else f"{prefix}{st.name}", st, list(st.bases))
                    if not prefix:
                        m.classes[st.name] = ci
                    for b in st.body:
                        if isinstance(b, ast.AnnAssign) and isinstance(b.target, ast.Name):
                            ci.class_attrs[b.target.id] = b
                        elif isinstance(b, ast.Assign):
                            for t in b.targets:
                                if isinstance(t, ast.Name):
                                    ci.class_attrs[t.id] = b
                    visit(st.body, f"{ci.name}.", ci, None)
                elif isinstance(st, (ast.If, ast.Try, ast.With, ast.For, ast.While)):
                    for fld in ("body", "orelse", "finalbody"):
                        visit(getattr(st, fld, []) or [], prefix, cls, fn)
                    for h in getattr(st, "handlers", []) or []:
                        visit(h.body, prefix, cls, fn)
                    if isinstance(st, ast.Match if hasattr(ast, "Match") else ()):
                        pass
                elif hasattr(ast, "Match") and isinstance(st, ast.Match):
                    for c in st.cases:
                        visit(c.body, prefix, cls, fn)
                elif isinstance(st, ast.Assign) and cls is None and fn is None:
                    for t in st.targets:
                        if isinstance(t, ast.Name):
                            m.globals_assigned[t.id] = st
                elif isinstance(st, ast.AnnAssign) and cls is None and fn is None and isinstance(st.target, ast.Name):
                    m.globals_assigned[st.target.id] = st

        visit(m.tree.body, "", None, None)
        for c in m.classes.values():
            self.classes[c.fullname] = c
        for f in m.functions.values():
            self.functions[f.fullname] = f

    def _resolve_bases(self) -> None:
        for c in self.classes.values():
            for b in c.base_exprs:
                if isinstance(b, ast.Subscript):  # Generic[...] / Representation[g, p]
                    b = b.value
                d = dotted(b)
                if d is None:
                    continue
                c.bases.append(self.resolve_name(c.module, d) or d)

    # ---------------------------------------------------------------- resolution
    def resolve_name(self, m: ModuleInfo, name: str, _depth: int = 0) -> Optional[str]:
        """Resolve a dotted name used in module *m* to 'mod.Class', 'mod:func' or an external dotted name."""
        head, _, rest = name.partition(".")
        if head in m.classes and not rest:
            return m.classes[head].fullname
        if head in m.functions and not rest:
            return m.functions[head].fullname
        if head in m.imports and _depth < 6:
            mod, attr = m.imports[head]
            if attr is None:
                target = mod + ("." + rest if rest else "")
                # module.attr
                if rest:
                    mm, _, a = target.rpartition(".")
                    if mm in self.modules:
                        return self.resolve_name(self.modules[mm], a, _depth + 1) or target
                return target
            if mod in self.modules:
                r = self.resolve_name(self.modules[mod], attr + ("." + rest if rest else ""), _depth + 1)
                return r or f"{mod}.{attr}" + ("." + rest if rest else "")
            sub = f"{mod}.{attr}"
            if sub in self.modules and rest:
                return self.resolve_name(self.modules[sub], rest, _depth + 1) or f"{sub}.{rest}"
            return f"{mod}.{attr}" + ("." + rest if rest else "")
        return None

    def fn_of_node(self, node: ast.AST) -> Optional[FunctionInfo]:
        return self._fn_by_node.get(id(node))

    def function_containing(self, node: ast.AST) -> Optional[FunctionInfo]:
        for a in [node, *ancestors(node)]:
            if isinstance(a, (ast.FunctionDef, ast.AsyncFunctionDef)):
                fi = self._fn_by_node.get(id(a))
                if fi is not None:
                    return fi
        return None

    def get_function(self, fullname: str) -> FunctionInfo:
        f = self.functions.get(fullname)
        if f is None:
            raise AnalysisError(f"anchor function missing: {fullname}")
        return f

    def get_class(self, fullname: str) -> ClassInfo:
        c = self.classes.get(fullname)
        if c is None:
            raise AnalysisError(f"anchor class missing: {fullname}")
        return c

    def mro(self, cls: ClassInfo) -> list[ClassInfo]:
        """Linearisation good enough for single/near-single inheritance: DFS left-to-right, last occurrence wins."""
        out: list[ClassInfo] = []

        def rec(c: ClassInfo):
            out.append(c)
            for b in c.bases:
                if b in self.classes:
                    rec(self.classes[b])

        rec(cls)
        seen, res = set(), []
        for c in reversed(out):
            if c.fullname not in seen:
                seen.add(c.fullname)
                res.append(c)
        res.reverse()
        # keep cls first
        res.remove(cls)
        return [cls] + res

    def is_subclass(self, cls: ClassInfo | str, base: str) -> bool:
        if isinstance(cls, str):
            if cls not in self.classes:
                return cls == base
            cls = self.classes[cls]
        return any(c.fullname == base for c in self.mro(cls)) or base in self.all_bases(cls)

    def all_bases(self, cls: ClassInfo) -> set[str]:
        res: set[str] = set()
        todo = list(cls.bases)
        while todo:
            b = todo.pop()
            if b in res:
                continue
            res.add(b)
            if b in self.classes:
                todo.extend(self.classes[b].bases)
        return res

    def subclasses(self, base: str, strict: bool = True) -> list[ClassInfo]:
        res, todo, seen = [], [base], set()
        while todo:
            b = todo.pop()
            for s in sorted(self._subclasses.get(b, ())):
                if s not in seen:
                    seen.add(s)
                    res.append(self.classes[s])
                    todo.append(s)
        if not strict and base in self.classes:
            res.insert(0, self.classes[base])
        return sorted(res, key=lambda c: c.fullname)

    def lookup_method(self, cls: ClassInfo, name: str) -> Optional[FunctionInfo]:
        for c in self.mro(cls):
            if name in c.methods:
                return c.methods[name]
        return None

    def implementations(self, base: str, method: str, include_base: bool = False) -> list[FunctionInfo]:
        """Every definition of *method* in *base* (optionally) and its subclasses, concrete bodies only."""
        res = []
        for c in self.subclasses(base, strict=not include_base):
            f = c.methods.get(method)
            if f is not None and not is_stub(f.node):
                res.append(f)
        return res

    def cha_targets(self, cls: ClassInfo, method: str) -> list[FunctionInfo]:
        """Static target of cls.method plus every override in a subclass."""
        res = []
        f = self.lookup_method(cls, method)
        if f is not None:
            res.append(f)
        for s in self.subclasses(cls.fullname):
            g = s.methods.get(method)
            if g is not None and g not in res:
                res.append(g)
        return res


def is_stub(fn: ast.AST) -> bool:
    """Body is only ``...``/``pass``/docstring (abstract declarations)."""
    body = fn.body if isinstance(fn.body, list) else [fn.body]
    for st in body:
        if isinstance(st, ast.Pass):
            continue
        if isinstance(st, ast.Expr) and isinstance(st.value, ast.Constant) and (
            st.value.value is Ellipsis or isinstance(st.value.value, str)
        ):
            continue
        return False
    return True


def decorators(fn: ast.AST) -> list[str]:
    return [dotted(d) or dotted(getattr(d, "func", d)) or "" for d in getattr(fn, "decorator_list", [])]
