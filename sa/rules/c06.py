"""C06 - crossover recombines parental material; point mutation is local (structural clauses)."""
from __future__ import annotations

import ast
from typing import Optional

from ..astutil import call_name, guards, is_self_attr
from ..frontend import AnalysisError, FunctionInfo, ancestors, norm, parent, walk_local
from ..mutation import MutationAnalysis
from ..paths import conds_on, paths, stmts_on
from ..report import Ctx
from .common import REPR_MUT, REPR_XO, operator_instances

LEVEL_TEXT = (
    "Finite-model interpretation of the five representations' variation operators (found through the interfaces; "
    "helper functions, genotype methods and closures inlined; nothing is executed): (R1) linear one-point "
    "crossover is interpreted on two 4-gene parents with distinct symbolic genes for every cut 0..4: each child "
    "has the parents' length, every locus holds one of the two parental genes of that locus, the children are "
    "complementary, each child is a prefix of one parent followed by a suffix of the other, and some cut mixes "
    "both parents; (R2) structured crossover is interpreted for the four mask values over two keys: under every "
    "key the two children hold the two parents' gene blocks, and flipping a key's mask bit swaps them; (R3) point"
    " mutation is interpreted for every drawn position (and key, and an empty gene list): at most the drawn gene "
    "differs, it holds the newly drawn value, gene-list lengths are kept, the parent object is unchanged and the "
    "offspring is a different object, the position is drawn from [0, length-1], retry loops around the draw are "
    "followed (a viability test on the offspring may go either way), and a genotype without any gene list is "
    "returned as a copy; (R4) every attribute name used to steer tree variation (hasattr / getattr strings, "
    "gengy_* reads) is defined somewhere in the package - a guard on a never-defined attribute is constant and "
    "kills a branch; (R5) tree crossover (mutate with donor material, interpreted through sa/treemodel.py) "
    "returns one of the donor's same-typed subtrees and never synthesises new material - also when the donor's "
    "root is its only same-typed subtree. Decides these shapes for all parents and seeds within the model sizes."
)

MUTATE = "geneticengine.representations.tree.treebased:mutate"
LENGTH_CHANGING = {"append", "extend", "insert", "pop", "remove", "clear", "popitem", "__delitem__"}


def _dna_kind(gcls) -> Optional[str]:
    for b in [gcls]:
        for st in b.node.body:
            if isinstance(st, ast.AnnAssign) and isinstance(st.target, ast.Name) and st.target.id == "dna":
                t = norm(st.annotation).strip("'\"")
                return "list" if t.startswith(("list", "List")) else "dict" if t.startswith(("dict", "Dict")) else None
    return None


def _genes(prefix: str, n: int, start: int = 1) -> list:
    from ..modelinterp import Sym
    return [Sym(f"{prefix}{i}") for i in range(start, start + n)]


def _mk(gcls, dna, rnd: str):
    from ..modelinterp import Obj, Sym, _dataclass_fields
    return Obj(gcls.name, {"dna": dna, "random": Sym(rnd)}, gcls.fullname)


def rule_r1_r2(ctx: Ctx) -> None:
    """Model check of every genotype-level crossover (sa/rules/c06model.py): linear genomes for every cut 0..4 of two
    4-gene parents, structured genomes for the four mask values over two keys."""
    from ..modelinterp import Budget, Obj, Sym, UNKNOWN
    from .c06model import Script, genotype_class, run_operator
    prog = ctx.prog
    n1 = n2 = 0
    for f in sorted(operator_instances(prog, REPR_XO, "crossover"), key=lambda x: x.fullname):
        gcls = genotype_class(ctx, f)
        kind = _dna_kind(gcls) if gcls is not None else None
        ps = [p for p in f.params if p not in ("self", "kwargs") and p != f.params[1]][:2]
        if gcls is None or kind is None or len(ps) < 2:
            continue   # tree crossover: R4/R5
        cname = f.cls.name if f.cls else f.name
        if kind == "list":
            G = 4 if ctx.tier != "thorough" else 7
            A, B = _genes("a", G), _genes("b", G)
            bad = und = None
            mixes = 0
            for cut in range(0, G + 1):
                try:
                    res, envs = run_operator(ctx, f, Script([cut], []), {"self.gene_length": G},
                                             {ps[0]: _mk(gcls, list(A), "r1"), ps[1]: _mk(gcls, list(B), "r2")})
                except Budget:
                    und = "too many interpretations"
                    continue
                for (trace, rv, notes) in res:
                    if any(e.kind == "raise" for e in trace):
                        continue
                    if not (isinstance(rv, list) and len(rv) == 2 and all(isinstance(c, Obj) and isinstance(c.fields.get("dna"), list) for c in rv)):
                        und = f"the children are not followed (cut={cut}: {rv!r})"
                        continue
                    c1, c2 = rv[0].fields["dna"], rv[1].fields["dna"]
                    n1 += 1
                    pat = []
                    for child in (c1, c2):
                        if len(child) != G:
                            bad = bad or (f"cut={cut}: a child has {len(child)} genes, the parents have {G}", cut)
                            pat.append(None)
                            continue
                        src = "".join("A" if g == A[i] else "B" if g == B[i] else "?" for i, g in enumerate(child))
                        pat.append(src)
                        if "?" in src:
                            j = src.index("?")
                            bad = bad or (f"cut={cut}: locus {j} of a child holds {child[j]!r}, which is neither parent's gene at that locus "
                                          f"({A[j]!r} / {B[j]!r}): genes end up at other positions than in the parent they came from", cut)
                        elif "AB" in src and "BA" in src:
                            bad = bad or (f"cut={cut}: a child takes {src} from the parents: not a one-point recombination", cut)
                    if None not in pat and "?" not in "".join(pat):
                        if any(x == y for x, y in zip(pat[0], pat[1])):
                            bad = bad or (f"cut={cut}: the children take {pat[0]} and {pat[1]}: not complementary (a parental gene is duplicated "
                                          f"and the other lost)", cut)
                        if "A" in pat[0] and "B" in pat[0]:
                            mixes += 1
            if not bad and not und and mixes == 0:
                bad = ("no cut position makes a child contain genes of both parents: nothing is recombined", None)
            ctx.ob("C06.R1", f, f.node, f"{cname}.crossover: each child is parental genes at their own loci, one-point, complementary (every cut position)",
                   False if bad else (None if und else True), bad[0] if bad else (und or ""), witness={"cut": bad[1]} if bad else {"cuts": G + 1, "genes": G})
        else:
            P1 = {"K1": _genes("a", 2), "K2": _genes("a", 1, 3)}
            P2 = {"K1": _genes("b", 2), "K2": _genes("b", 1, 3)}
            bad = und = None
            outcomes = {}
            for mask in ((True, True), (True, False), (False, True), (False, False)):
                try:
                    res, envs = run_operator(ctx, f, Script([], list(mask)), {},
                                             {ps[0]: _mk(gcls, {k: list(v) for k, v in P1.items()}, "r1"),
                                              ps[1]: _mk(gcls, {k: list(v) for k, v in P2.items()}, "r2")})
                except Budget:
                    und = "too many interpretations"
                    continue
                for (trace, rv, notes) in res:
                    if any(e.kind == "raise" for e in trace):
                        continue
                    if not (isinstance(rv, list) and len(rv) == 2 and all(isinstance(c, Obj) and isinstance(c.fields.get("dna"), dict) for c in rv)):
                        und = f"the children are not followed (mask={mask}: {rv!r})"
                        continue
                    c1, c2 = rv[0].fields["dna"], rv[1].fields["dna"]
                    n2 += 1
                    for k in ("K1", "K2"):
                        g1, g2 = c1.get(k), c2.get(k)
                        if not ((g1 == P1[k] and g2 == P2[k]) or (g1 == P2[k] and g2 == P1[k])):
                            bad = bad or (f"mask={mask}: under key {k} the children hold {g1!r} and {g2!r}; the parents hold {P1[k]!r} and {P2[k]!r}: "
                                          f"a gene block is duplicated, lost or lands under another key", mask)
                    if set(c1) != {"K1", "K2"} or set(c2) != {"K1", "K2"}:
                        bad = bad or (f"mask={mask}: the children have keys {sorted(c1)} / {sorted(c2)}, the parents K1, K2", mask)
                    outcomes[mask] = tuple("1" if c1.get(k) == P1[k] else "2" for k in ("K1", "K2"))
            # a parent that lacks some keys (possible for genotypes that grow on demand): the gene lists of one child must be
            # distinct objects - otherwise a later in-place extension or a mutation changes several keys at once
            try:
                p1d = {"K1": _genes("a", 2), "K2": _genes("a", 1, 3), "K3": _genes("a", 1, 4)}
                res, envs = run_operator(ctx, f, Script([], [True, True, True]), {},
                                         {ps[0]: _mk(gcls, p1d, "r1"), ps[1]: _mk(gcls, {"K1": _genes("b", 2)}, "r2")})
                for (trace, rv, notes) in res:
                    if any(e.kind == "raise" for e in trace) or not (isinstance(rv, list) and len(rv) == 2):
                        continue
                    for ci, child in enumerate(rv):
                        dna = child.fields.get("dna") if isinstance(child, Obj) else None
                        if not isinstance(dna, dict):
                            continue
                        ks = [k for k, v in dna.items() if isinstance(v, list)]
                        for i_, k1 in enumerate(ks):
                            for k2 in ks[i_ + 1:]:
                                if dna[k1] is dna[k2]:
                                    bad = bad or (f"when a parent lacks the keys {k1} and {k2}, child {ci + 1} holds one and the same list object under both "
                                                  f"keys: mapping or mutating the child later changes several keys at once", None)
                            if any(dna[k1] is v for v in p1d.values()):
                                bad = bad or (f"child {ci + 1} shares the gene list under {k1} with a parent", None)
            except Budget:
                pass
            if not bad and not und and len(outcomes) == 4:
                if outcomes[(True, True)][0] == outcomes[(False, True)][0] or outcomes[(True, True)][1] == outcomes[(True, False)][1]:
                    bad = (f"flipping a key's mask bit does not swap the parents for that key ({outcomes}): the mask has no effect", None)
            ctx.ob("C06.R2", f, f.node, f"{cname}.crossover: per key, one child gets each parent's gene block; the mask bit swaps them",
                   False if bad else (None if und else True), bad[0] if bad else (und or ""), witness={"mask": list(bad[1])} if bad and bad[1] else {"masks": 4})
    ctx.floor("C06.R1", n1, 8, "interpreted linear crossover scenarios")
    ctx.floor("C06.R2", n2, 8, "interpreted structured crossover scenarios")


def rule_r3(ctx: Ctx) -> None:
    """Model check of every genotype-level mutate: for every drawn position (and key) the offspring differs from the parent in
    at most that one gene, which holds the newly drawn value; gene lists keep their lengths; the parent is left as it was;
    the position is drawn from [0, length - 1]."""
    from ..modelinterp import Budget, Obj, Sym, UNKNOWN
    from .c06model import Script, genotype_class, run_operator
    prog = ctx.prog
    n = 0
    for f in sorted(operator_instances(prog, REPR_MUT, "mutate"), key=lambda x: x.fullname):
        gcls = genotype_class(ctx, f)
        kind = _dna_kind(gcls) if gcls is not None else None
        ps = [p for p in f.params if p not in ("self", "kwargs") and p != f.params[1]][:1]
        if gcls is None or kind is None or not ps:
            continue
        cname = f.cls.name if f.cls else f.name
        scenarios = []
        if kind == "list":
            for j in range(4):
                scenarios.append((_genes("a", 4), [j], 0))
        else:
            for ci in (0, 1):
                for j in range(2 if ci == 0 else 1):
                    scenarios.append(({"K1": _genes("a", 2), "K2": _genes("a", 1, 3)}, [j], ci))
            scenarios.append(({"K1": [], "K2": _genes("a", 1, 3)}, [0], 0))   # an empty gene list must stay empty
            scenarios.append(({}, [0], 0))                                     # a genotype without genes yet (never mapped)
        bad = und = None
        changed_any = False
        for dna0, ints, ci in scenarios:
            mk = (lambda: list(dna0)) if kind == "list" else (lambda: {k: list(v) for k, v in dna0.items()})
            script = Script(ints, [], ci)
            try:
                res, envs = run_operator(ctx, f, script, {"self.gene_length": 4}, {ps[0]: _mk(gcls, mk(), "r1")})
            except Budget:
                und = "too many interpretations"
                continue
            for (trace, rv, notes), env_after in zip(res, envs):
                if any(e.kind == "raise" for e in trace):
                    continue
                if not (isinstance(rv, Obj) and isinstance(rv.fields.get("dna"), type(dna0))):
                    und = f"the offspring is not followed ({rv!r})"
                    continue
                n += 1
                child = rv.fields["dna"]
                parent_obj = env_after.get(ps[0])
                if rv is parent_obj or (isinstance(parent_obj, Obj) and child is parent_obj.fields.get("dna")):
                    bad = bad or (f"for the genes {mk()!r} mutate returns the parent's own genotype (or its gene container): offspring and parent are "
                                  f"one object, so whatever later grows or edits the offspring's genes in place changes the parent", None)
                parent_after = env_after[ps[0]].fields["dna"] if isinstance(env_after.get(ps[0]), Obj) else None
                if parent_after != mk():
                    bad = bad or (f"the parent's genes are {parent_after!r} after mutate (they were {mk()!r}): the parent is modified", None)
                flat0 = [("", i, g) for i, g in enumerate(dna0)] if kind == "list" else [(k, i, g) for k, v in dna0.items() for i, g in enumerate(v)]
                shape0 = len(dna0) if kind == "list" else {k: len(v) for k, v in dna0.items()}
                shape1 = len(child) if kind == "list" else {k: len(v) if isinstance(v, list) else None for k, v in child.items()}
                if shape0 != shape1:
                    bad = bad or (f"the offspring's gene lists have shape {shape1}, the parent's {shape0}: point mutation changes a length "
                                  f"(position draw {ints}, key choice {ci})", None)
                    continue
                diffs = [(k, i) for (k, i, g) in flat0 if (child[i] if kind == "list" else child[k][i]) != g]
                if len(diffs) > 1:
                    bad = bad or (f"{len(diffs)} genes differ from the parent after one point mutation ({diffs})", None)
                for (k, i) in diffs:
                    changed_any = True
                    v = child[i] if kind == "list" else child[k][i]
                    if v != Sym("newgene"):
                        bad = bad or (f"the changed gene holds {v!r}, not the newly drawn value", None)
                for lo, hi, v in script.draw_ranges:
                    L = len(dna0) if kind == "list" else None
                    if kind == "dict":
                        if not dna0:
                            continue
                        key = list(dna0.keys())[ci % len(dna0)]
                        L = len(dna0[key])
                    if not (isinstance(lo, int) and isinstance(hi, int)):
                        und = und or f"the position's range [{lo!r}, {hi!r}] is not followed"
                    elif lo < 0 or hi > L - 1:
                        bad = bad or (f"the position is drawn from [{lo}, {hi}] for a gene list of length {L}: outside [0, length - 1]", None)
        if not bad and not und and not changed_any:
            bad = ("no scenario changes a gene: mutate returns the parent's genes unchanged", None)
        ctx.ob("C06.R3", f, f.node, f"{cname}.mutate: at most the one drawn gene changes, to the new value, in a copy; lengths kept; position in range",
               False if bad else (None if und else True), bad[0] if bad else (und or ""))
    ctx.floor("C06.R3", n, 12, "interpreted point-mutation scenarios")


def rule_r4(ctx: Ctx) -> None:
    prog = ctx.prog
    defined: set[str] = set()
    for f in prog.functions.values():
        for x in walk_local(f.node):
            if isinstance(x, ast.Attribute) and isinstance(x.ctx, ast.Store):
                defined.add(x.attr)
            if isinstance(x, ast.Call) and call_name(x) == "setattr" and len(x.args) >= 2 and isinstance(x.args[1], ast.Constant):
                defined.add(x.args[1].value)
    for c in prog.classes.values():
        defined |= set(c.class_attrs)
        for m in c.methods:
            defined.add(m)
    n = 0
    scope = [f for f in prog.functions.values() if f.module.name.startswith(("geneticengine.representations.tree", "geneticengine.grammar.metahandlers",
                                                                                "geneticengine.solutions.tree"))]
    for f in sorted(scope, key=lambda x: x.fullname):
        for x in walk_local(f.node):
            name = None
            if isinstance(x, ast.Call) and call_name(x) in ("hasattr", "getattr") and len(x.args) >= 2 and isinstance(x.args[1], ast.Constant) \
                    and isinstance(x.args[1].value, str) and not x.args[1].value.startswith("__"):
                name = x.args[1].value
            elif isinstance(x, ast.Attribute) and isinstance(x.ctx, ast.Load) and x.attr.startswith("gengy_"):
                name = x.attr
            if name is None:
                continue
            n += 1
            ok = name in defined
            is_test = isinstance(x, ast.Call) and call_name(x) == "hasattr"
            tail = ("this test is constant: the guarded branch (descending into a child instead of replacing the whole node) can never run"
                    if is_test else "reading it raises AttributeError if the statement is ever reached")
            ctx.ob("C06.R4", f, x, f"attribute '{name}' is defined somewhere in the package", ok,
                   "" if ok else f"'{norm(x)[:60]}': no code ever sets an attribute named '{name}', so {tail}")
    ctx.floor("C06.R4", n, 20, "attribute-name uses on tree nodes")


def rule_r5(ctx: Ctx) -> None:
    """Tree crossover = mutate(..., source_material=[donor]).  mutate is interpreted (sa/treemodel.py) on a synthesised node
    selected for replacement with donor material present: when the donor offers same-typed subtrees the result is one of
    them and nothing is synthesised; when it offers none, nothing may be synthesised either (the child would receive fresh
    material instead of parental material)."""
    from ..modelinterp import Budget, Obj, Sym, UNKNOWN, Effect, TypeV
    from ..treemodel import TreeModel
    mu = ctx.fn(MUTATE)
    sm = "source_material"
    if sm not in mu.params:
        raise AnalysisError("C06.R5: mutate has no source_material parameter")
    NODE = TypeV("class", "N")
    n = 0
    for label, options in (("the donor offers same-typed subtrees", [Sym("donor-subtree")]), ("the donor offers no same-typed subtree", None),
                           ("the donor offers an empty list of subtrees", []),
                           # the other parent as a whole is parental material too (a donor whose root is its only node of the wanted type)
                           ("the donor's root is its only same-typed subtree", [Sym("donor")])):
        def extra_find(it, call, env, args, kwargs, options=options):
            from ..modelinterp import _NONE
            return _NONE if options is None else list(options)

        def extra_choose(it, call, env, args, kwargs):
            it.trace.append(Effect("call", "choose_options", tuple(list(a) if isinstance(a, list) else a for a in args), {}, node=call, fn=it.fn_stack[-1]))
            opts = args[0] if args else None
            return opts[0] if isinstance(opts, list) and opts else Sym("chosen")

        model = TreeModel(ctx, fields={NODE: [("f1", TypeV("class", "T1"))]}, ints={"mutate:random_int": 0},
                          hasattrs={"node": {}, "__typeof__": {"node": NODE}},
                          extra_calls={"find_in_tree": extra_find, "choose_options": extra_choose,
                                       "has_annotated_mutation": lambda *a, **k: False})
        it = model.interp()
        p = mu.params
        env = {p[0]: Obj("GlobalSynthesisContext", {"random": Sym("random"), "grammar": Sym("grammar"), "decider": Sym("decider")}),
               p[1]: Sym("node"), p[2]: NODE, sm: [Sym("donor")],
               f"{p[1]}.gengy_synthesis_context": Obj("LocalSynthesisContext", {"depth": 1, "nodes": 1, "expansions": 1, "dependent_values": {}}),
               f"{p[1]}.gengy_weighted_nodes": 3, f"{p[1]}.gengy_init_values": [Sym("v1")]}
        if len(p) > 3 and p[3] != sm:
            env[p[3]] = {}
        try:
            runs = it.run(mu, env)
        except Budget:
            ctx.ob("C06.R5", mu, mu.node, f"tree crossover when {label}", None, "too many interpretations")
            continue
        verdict: Optional[bool] = True
        why = ""
        node = mu.node
        for trace, rv, notes in runs:
            if any(e.kind == "raise" for e in trace):
                continue
            n += 1
            synth = [e for e in trace if e.kind == "call" and e.name == "create_node"]
            if synth:
                verdict = False
                node = synth[0].node
                why = ("a path on which donor material was supplied still ends in create_node(...): when no same-typed donor subtree is found "
                       "the 'crossover' child receives freshly synthesised material instead of parental material" if not options else
                       "although the donor offers same-typed subtrees, new material is synthesised")
                break
            is_copy = options and isinstance(rv, Sym) and rv.tag.startswith(options[0].tag + "~copy")     # a copy of the donor's subtree is parental material
            if options and rv != options[0] and not is_copy:
                verdict = None if rv is UNKNOWN else False
                why = f"the child receives {rv!r}, not one of the donor's same-typed subtrees"
        ctx.ob("C06.R5", mu, node, f"tree crossover when {label}: the child receives parental material, nothing is synthesised", verdict, why)
    ctx.floor("C06.R5", n, 3, "interpreted tree-crossover scenarios")


def run(ctx: Ctx) -> None:
    ctx.rule("C06.R1", "linear crossover: parental segments placed at their own loci; complementary children")
    ctx.rule("C06.R2", "structured crossover: per-key copies from one parent each, swapped by the mask bit")
    ctx.rule("C06.R3", "point mutation: at most one in-range gene replaced in a copy; no length change (incl. callees)")
    ctx.rule("C06.R4", "attribute names steering tree variation are defined somewhere (no constant guards)")
    ctx.rule("C06.R5", "tree crossover never reaches create_node when donor material is present")
    rule_r1_r2(ctx)
    rule_r3(ctx)
    rule_r4(ctx)
    rule_r5(ctx)
    ctx.assumptions += ["both parents of a linear crossover have the representation's gene length (cut index <= length)"]
