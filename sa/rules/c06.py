"""C06 - crossover recombines parental material; point mutation is local (structural clauses)."""
from __future__ import annotations

import ast
from typing import Optional

from ..astutil import call_name, guards, is_self_attr
from ..frontend import AnalysisError, FunctionInfo, ancestors, norm, parent, walk_local
from ..mutation import MutationAnalysis
from ..paths import conds_on, paths, stmts_on
from ..report import Ctx
from .common import REPR_MUT, REPR_XO

LEVEL_TEXT = (
    "Static rules on the five representations' crossover and mutate (found through the interfaces): (R1) linear "
    "one-point crossover by slice algebra: each child is a concatenation of parental segments and every segment is "
    "placed at the offset it was cut from (P[:k] + Q[k:]), the two children using complementary parents; (R2) "
    "structured crossover copies, for every key, that key's gene list from one parent to one child and from the other "
    "parent to the other child, under either value of the mask bit; (R3) point mutation stores at most one gene, at an "
    "index drawn inside the existing range, into a copy of the parent's genes, and neither it nor any callee it hands "
    "the offspring to changes a gene list's length; (R4) every attribute name used to steer tree variation "
    "(hasattr / getattr strings, gengy_* reads) is defined somewhere in the package - a guard on a never-defined "
    "attribute is constant and kills a branch; (R5) tree crossover never synthesises new material (no path with "
    "donor material reaches create_node). Decides these shapes for all parents and seeds."
)

MUTATE = "geneticengine.representations.tree.treebased:mutate"
LENGTH_CHANGING = {"append", "extend", "insert", "pop", "remove", "clear", "popitem", "__delitem__"}


def segments(e: ast.AST) -> Optional[list[tuple[str, Optional[str], Optional[str]]]]:
    """a + b + ... of slices  ->  [(source text, lower text|None, upper text|None)]"""
    if isinstance(e, ast.BinOp) and isinstance(e.op, ast.Add):
        l, r = segments(e.left), segments(e.right)
        return None if l is None or r is None else l + r
    if isinstance(e, ast.Subscript) and isinstance(e.slice, ast.Slice) and e.slice.step is None:
        lo = norm(e.slice.lower) if e.slice.lower is not None else None
        hi = norm(e.slice.upper) if e.slice.upper is not None else None
        return [(norm(e.value), lo, hi)]
    return None


def rule_r1_r2(ctx: Ctx) -> None:
    prog = ctx.prog
    n1 = n2 = 0
    for f in sorted(prog.implementations(REPR_XO, "crossover"), key=lambda x: x.fullname):
        p1, p2 = [p for p in f.params if p.startswith("parent")][:2] if len([p for p in f.params if p.startswith("parent")]) >= 2 else (None, None)
        if p1 is None or (f.cls is not None and "Tree" in f.cls.name):
            continue  # tree crossover is R4/R5
        # children: names passed to the genotype constructor in the returned tuple
        rets = [r for r in walk_local(f.node) if isinstance(r, ast.Return) and isinstance(r.value, ast.Tuple)]
        kids = []
        for r in rets:
            for el in r.value.elts:
                if isinstance(el, ast.Call):
                    for a in list(el.args) + [k.value for k in el.keywords]:
                        if isinstance(a, ast.Name) and a.id not in (p1, p2) and not a.id.startswith("random"):
                            kids.append(a.id)
        lin = [a for a in walk_local(f.node) if isinstance(a, ast.Assign) and isinstance(a.targets[0], ast.Name) and a.targets[0].id in kids
               and segments(a.value) is not None]
        if lin:
            srcs = []
            for a in lin:
                n1 += 1
                segs = segments(a.value)
                ok, why = True, ""
                offset: Optional[str] = None  # text of current offset (None = 0)
                for (src, lo, hi) in segs:
                    if (lo or None) != offset:
                        ok = False
                        why = f"the segment {src}[{lo or ''}:{hi or ''}] is placed at offset {offset or 0}, not at the locus it was cut from"
                        break
                    offset = hi
                if ok and offset is not None:
                    ok, why = False, "the child does not extend to the end of a parent"
                if ok and not all(s.endswith(".dna") and s.split(".")[0] in (p1, p2) for s, _, _ in segs):
                    ok, why = False, "a segment does not come from a parent's genes"
                srcs.append(tuple(s.split(".")[0] for s, _, _ in segs))
                ctx.ob("C06.R1", f, a, f"child {a.targets[0].id} = parental segments at their own loci", ok,
                       "" if ok else f"'{norm(a)[:80]}': {why}: genes end up at other positions than in the parent they came from")
            if len(srcs) == 2:
                comp = srcs[0] == tuple(reversed(srcs[1])) and len(set(srcs[0])) == 2
                ctx.ob("C06.R1", f, lin[1], "the two children take complementary parents", comp,
                       "" if comp else f"children are built from {srcs}: not one child per parent ordering")
            continue
        # ---- structured: per-key stores
        stores = [a for a in walk_local(f.node) if isinstance(a, ast.Assign) and isinstance(a.targets[0], ast.Subscript)
                  and isinstance(a.targets[0].value, ast.Name) and a.targets[0].value.id in kids]
        if not stores:
            ctx.ob("C06.R2", f, f.node, "crossover form", None, "neither slice concatenation nor per-key stores found")
            continue
        by_branch: dict[tuple, dict[str, str]] = {}
        for a in stores:
            n2 += 1
            key = norm(a.targets[0].slice)
            # source: copy(parentX.dna[key']) / parentX.dna.get(key', [])
            src_parent = src_key = None
            for x in ast.walk(a.value):
                if isinstance(x, ast.Subscript) and isinstance(x.value, ast.Attribute) and x.value.attr == "dna" and isinstance(x.value.value, ast.Name):
                    src_parent, src_key = x.value.value.id, norm(x.slice)
                if isinstance(x, ast.Call) and call_name(x) == "get" and isinstance(x.func.value, ast.Attribute) and x.func.value.attr == "dna" \
                        and isinstance(x.func.value.value, ast.Name) and x.args:
                    src_parent, src_key = x.func.value.value.id, norm(x.args[0])
            ok = src_parent in (p1, p2) and src_key == key
            ctx.ob("C06.R2", f, a, f"{a.targets[0].value.id}[{key}] copies the same key from a parent", ok,
                   "" if ok else f"'{norm(a)[:70]}' takes key {src_key} of {src_parent}: the gene block lands under another key than in its parent")
            br = tuple((norm(t), pol) for t, pol in guards(a, stop=f.node))
            by_branch.setdefault(br, {})[a.targets[0].value.id] = src_parent or "?"
        for br, m in by_branch.items():
            comp = len(m) == 2 and set(m.values()) == {p1, p2}
            ctx.ob("C06.R2", f, f.node, f"under [{', '.join(t + '=' + str(p) for t, p in br) or 'always'}] the children take different parents", comp,
                   "" if comp else f"on this branch the children are assigned {m}: parental blocks are duplicated or lost")
        if len(by_branch) == 2:
            vals = list(by_branch.values())
            sw = all(vals[0].get(k) != vals[1].get(k) for k in vals[0])
            ctx.ob("C06.R2", f, f.node, "the two mask values swap the parents", sw,
                   "" if sw else "both mask values assign the same parents: the mask has no effect")
    ctx.floor("C06.R1", n1, 4, "linear crossover children")
    ctx.floor("C06.R2", n2, 8, "structured crossover stores")


def rule_r3(ctx: Ctx) -> None:
    prog, res = ctx.prog, ctx.res
    ma = MutationAnalysis(prog, res, depth=4)
    n = 0
    for f in sorted(prog.implementations(REPR_MUT, "mutate"), key=lambda x: x.fullname):
        if "genotype" not in f.params or (f.cls and "Tree" in f.cls.name):
            continue
        n += 1
        # offspring containers: locals bound to a copy of genotype.dna; offspring objects: constructed genotypes
        kids = set()
        for a in walk_local(f.node):
            if isinstance(a, ast.Assign) and isinstance(a.targets[0], ast.Name):
                if any(isinstance(x, ast.Attribute) and x.attr == "dna" for x in ast.walk(a.value)) and not isinstance(a.value, ast.Attribute):
                    kids.add(a.targets[0].id)
                elif isinstance(a.value, ast.Call) and res.resolve(f, a.value).kind == "ctor":
                    kids.add(a.targets[0].id)
        if not kids:
            ctx.ob("C06.R3", f, f.node, "offspring gene container", None, "no copy of the parent's genes found")
            continue
        muts = ma.analyse(f, {}, sticky=set(kids))
        stores = [m for m in muts if m.how == "item store"]
        other = [m for m in muts if m.how != "item store"]
        for m in other:
            ctx.ob("C06.R3", f, m.node, f"length-preserving: {m.how} on offspring genes"[:110], False,
                   f"'{norm(m.node)[:70]}' ({m.how}) changes the shape of the offspring's genes: mutation must replace at most one gene "
                   f"and keep every gene list's length" + (f" [via {' -> '.join(m.chain)}]" if m.chain else ""))
        # at most one gene store per path, not a slice
        bad_slice = [m for m in stores if any(isinstance(t, ast.Subscript) and isinstance(t.slice, ast.Slice)
                                              for t in (m.node.targets if isinstance(m.node, ast.Assign) else []))]
        worst = 0
        store_nodes = {id(m.node) for m in stores}
        for pth in paths(f.node.body, unroll_loops=True):
            k = sum(1 for st in stmts_on(pth) if id(st) in store_nodes)
            worst = max(worst, k)
        in_loop = any(any(isinstance(a, (ast.For, ast.While)) for a in ancestors(m.node)) for m in stores)
        ok = worst <= 1 and not bad_slice and not in_loop
        ctx.ob("C06.R3", f, stores[0].node if stores else f.node, "at most one gene is replaced on any path", ok,
               "" if ok else f"up to {worst} gene stores on one path{' (in a loop)' if in_loop else ''}{' (slice assignment)' if bad_slice else ''}: "
                             f"more than one gene can change")
        # the index is drawn inside the existing range
        for m in stores:
            tgt = m.node.targets[0] if isinstance(m.node, ast.Assign) else None
            idx = tgt.slice if isinstance(tgt, ast.Subscript) else None
            okr = False
            why = "the replaced position is not a draw from [0, length-1]"
            if isinstance(idx, ast.Name):
                d = [a for a in walk_local(f.node) if isinstance(a, ast.Assign) and isinstance(a.targets[0], ast.Name) and a.targets[0].id == idx.id]
                if d and isinstance(d[-1].value, ast.Call) and call_name(d[-1].value) == "randint" and len(d[-1].value.args) == 2:
                    lo, hi = d[-1].value.args
                    # abstract evaluation: 0 <= lo and hi <= len(container) - 1, with 'if container:' guards giving len >= 1
                    from ..absint import Env, Facts, Lin, entails_ge0, evaluate
                    env = Env(Facts())
                    lens = [c for c in ast.walk(hi) if isinstance(c, ast.Call) and call_name(c) == "len" and c.args]
                    cont = norm(lens[0].args[0]) if lens else None
                    okr = False
                    if cont is not None:
                        L = env.symbol("L")
                        env.facts.add_ge(L, Lin.c(0))
                        for t, pol in guards(d[-1], stop=f.node):
                            if pol and norm(t) == cont:
                                env.facts.add_ge(L, Lin.c(1))
                        env.hooks.append(lambda e_, c_: L if (call_name(c_) == "len" and c_.args and norm(c_.args[0]) == cont) else None)
                        if cont.startswith("self.gene_length"):
                            pass
                        lo_v, hi_v = evaluate(env, lo), evaluate(env, hi)
                        if isinstance(lo_v, Lin) and isinstance(hi_v, Lin):
                            okr = entails_ge0(env.facts, lo_v) and entails_ge0(env.facts, L - Lin.c(1) - hi_v)
                    elif isinstance(lo, ast.Constant) and lo.value == 0 and isinstance(hi, ast.BinOp) and isinstance(hi.op, ast.Sub) \
                            and isinstance(hi.right, ast.Constant) and hi.right.value == 1:
                        okr = True   # randint(0, <length attribute> - 1)
                    if not okr:
                        why = f"the index is drawn from [{norm(lo)}, {norm(hi)}], which is not provably inside [0, length-1]"
            ctx.ob("C06.R3", f, m.node, "the replaced gene position lies inside the existing genes", okr, "" if okr else why)
    ctx.floor("C06.R3", n, 4, "genotype mutate implementations")


def rule_r4(ctx: Ctx) -> None:
    prog = ctx.prog
    defined: set[str] = set()
    for f in prog.functions.values():
        for x in walk_local(f.node):
            if isinstance(x, ast.Attribute) and isinstance(x.ctx, ast.Store):
                defined.add(x.attr)
            if isinstance(x, ast.Call) and call_name(x) == "setattr" and len(x.args) >= 2 and isinstance(x.args[1], ast.Constant):
                defined.add(x.args[1].value)
    for c in prog.classes.values():
        defined |= set(c.class_attrs)
        for m in c.methods:
            defined.add(m)
    n = 0
    scope = [f for f in prog.functions.values() if f.module.name.startswith(("geneticengine.representations.tree", "geneticengine.grammar.metahandlers",
                                                                                "geneticengine.solutions.tree"))]
    for f in sorted(scope, key=lambda x: x.fullname):
        for x in walk_local(f.node):
            name = None
            if isinstance(x, ast.Call) and call_name(x) in ("hasattr", "getattr") and len(x.args) >= 2 and isinstance(x.args[1], ast.Constant) \
                    and isinstance(x.args[1].value, str) and not x.args[1].value.startswith("__"):
                name = x.args[1].value
            elif isinstance(x, ast.Attribute) and isinstance(x.ctx, ast.Load) and x.attr.startswith("gengy_"):
                name = x.attr
            if name is None:
                continue
            n += 1
            ok = name in defined
            is_test = isinstance(x, ast.Call) and call_name(x) == "hasattr"
            tail = ("this test is constant: the guarded branch (descending into a child instead of replacing the whole node) can never run"
                    if is_test else "reading it raises AttributeError if the statement is ever reached")
            ctx.ob("C06.R4", f, x, f"attribute '{name}' is defined somewhere in the package", ok,
                   "" if ok else f"'{norm(x)[:60]}': no code ever sets an attribute named '{name}', so {tail}")
    ctx.floor("C06.R4", n, 20, "attribute-name uses on tree nodes")


def rule_r5(ctx: Ctx) -> None:
    mu = ctx.fn(MUTATE)
    sm = "source_material"
    if sm not in mu.params:
        raise AnalysisError("C06.R5: mutate has no source_material parameter")
    n = 0
    for pth in paths(mu.node.body, unroll_loops=False):
        has_material = any(pol and sm in {x.id for x in ast.walk(t) if isinstance(x, ast.Name)} and not (isinstance(t, ast.UnaryOp))
                           for t, pol in conds_on(pth))
        if not has_material:
            continue
        n += 1
        synth = [c for st in stmts_on(pth) for c in ast.walk(st) if isinstance(c, ast.Call) and call_name(c) == "create_node"]
        ctx.ob("C06.R5", mu, synth[0] if synth else mu.node, "with donor material present, no new subtree is synthesised", not synth,
               "" if not synth else "a path on which donor material was supplied still ends in create_node(...): when no same-typed donor "
                                    "subtree is found the 'crossover' child receives freshly synthesised material instead of parental "
                                    "material")
    ctx.floor("C06.R5", n, 1, "paths of mutate with donor material")


def run(ctx: Ctx) -> None:
    ctx.rule("C06.R1", "linear crossover: parental segments placed at their own loci; complementary children")
    ctx.rule("C06.R2", "structured crossover: per-key copies from one parent each, swapped by the mask bit")
    ctx.rule("C06.R3", "point mutation: at most one in-range gene replaced in a copy; no length change (incl. callees)")
    ctx.rule("C06.R4", "attribute names steering tree variation are defined somewhere (no constant guards)")
    ctx.rule("C06.R5", "tree crossover never reaches create_node when donor material is present")
    rule_r1_r2(ctx)
    rule_r3(ctx)
    rule_r4(ctx)
    rule_r5(ctx)
    ctx.assumptions += ["both parents of a linear crossover have the representation's gene length (cut index <= length)"]
