"""Finite models of the selection steps (C17), interpreted by sa/modelinterp.

A population of three symbolic individuals with small concrete fitness values; the random source is a script (choice picks
by index, shuffle applies the next scripted permutation in place and returns its argument, as RandomSource.shuffle does).
The step's iterate() is interpreted with its helper methods inlined; the recorded draws, shuffles and yields are compared
with the reference meaning of tournament / lexicase selection.  Nothing is executed."""
from __future__ import annotations

import ast
import statistics
from typing import Any, Optional

from ..astutil import call_name
from ..frontend import FunctionInfo
from ..modelinterp import Arr, Budget, Effect, Interp, Obj, Sym, UNKNOWN, _NONE, _is_num


class SelScript:
    def __init__(self, picks: list, perms: list):
        self.picks0, self.perms0 = list(picks), [list(p) for p in perms]
        self.reset()

    def reset(self):
        self.picks, self.perms = list(self.picks0), [list(p) for p in self.perms0]


def run_selection(ctx, cls, f: FunctionInfo, tags: list, ranks: dict, comps: dict, minimize: Any, script: SelScript,
                  self_attrs: dict, target_size: int, n_cases: int = 2):
    def fit_obj(tag: str) -> Obj:
        return Obj("Fitness", {"maximizing_aggregate": ranks.get(tag, 0), "fitness_components": list(comps.get(tag, []))})

    def call_model(it: Interp, call: ast.Call, env: dict, args: list, kwargs: dict) -> Any:
        nm = call_name(call)
        recv = it.ev(call.func.value, env, 9) if isinstance(call.func, ast.Attribute) else None
        if nm == "evaluate" and isinstance(call.func, ast.Attribute) and len(args) >= 2:
            return args[1]
        if nm == "key_function" and isinstance(recv, Sym) and recv.tag == "problem" and len(args) == 1 and isinstance(args[0], Obj):
            return args[0].fields.get("maximizing_aggregate", UNKNOWN)     # Problem.key_function(fitness)
        if nm == "key_function":
            return Sym("KEY")
        if nm == "choice" and len(args) == 1 and isinstance(args[0], list) and isinstance(call.func, ast.Attribute):
            lst = args[0]
            if not lst:
                it.throw("IndexError: choice from an empty list", call)
            i = script.picks.pop(0) if script.picks else 0
            v = lst[i % len(lst)]
            it.trace.append(Effect("call", "choice", (list(lst), v), {}, node=call, fn=it.fn_stack[-1]))
            return v
        if nm == "shuffle" and len(args) == 1 and isinstance(args[0], list) and isinstance(call.func, ast.Attribute):
            lst = args[0]
            before = list(lst)
            perm = script.perms.pop(0) if script.perms else list(range(len(lst)))
            new = [lst[j] for j in perm if j < len(lst)] if len(perm) >= len(lst) else list(lst)
            lst[:] = new
            it.trace.append(Effect("call", "shuffle", (before, list(lst)), {}, node=call, fn=it.fn_stack[-1]))
            return lst
        if nm == "get_fitness" and isinstance(recv, Sym) and recv.tag in ranks:
            if not args and not kwargs or (args and args[0] is None):
                # Individual.get_fitness() without a problem hands back the fitness stored first: the model's individuals were
                # evaluated for another problem before, which ranks them the other way round
                return Obj("Fitness", {"maximizing_aggregate": -ranks.get(recv.tag, 0), "fitness_components": [ranks.get(recv.tag, 0)]})
            return fit_obj(recv.tag)
        if nm == "key_function" and isinstance(recv, Sym) and recv.tag == "problem" and len(args) == 1 and isinstance(args[0], Obj):
            return args[0].fields.get("maximizing_aggregate", UNKNOWN)     # Problem.key_function(fitness)
        if nm == "number_of_objectives":
            return n_cases
        if nm == "array" and len(args) == 1 and isinstance(args[0], list):
            return Arr(args[0])
        if nm in ("fromiter", "asarray") and args and isinstance(args[0], list) and isinstance(call.func, ast.Attribute) \
                and (kwargs.get("count") in (None, len(args[0]), -1)):
            return Arr(args[0])           # np.fromiter(<generator>, dtype=..., count=len): the array of the produced values
        if nm == "flatnonzero" and len(args) == 1 and isinstance(args[0], list) and all(isinstance(x, bool) or _is_num(x) for x in args[0]):
            return [i_ for i_, x in enumerate(args[0]) if x]
        if nm == "nonzero" and len(args) == 1 and isinstance(args[0], list) and all(isinstance(x, bool) or _is_num(x) for x in args[0]):
            return [[i_ for i_, x in enumerate(args[0]) if x]]
        if nm == "isnan" and len(args) == 1 and _is_num(args[0]):
            return args[0] != args[0]
        if nm == "isnan" and len(args) == 1 and isinstance(args[0], Arr) and all(_is_num(x) for x in args[0]):
            return Arr([x != x for x in args[0]])
        if nm == "isclose" and len(args) == 2 and not kwargs:
            # numpy.isclose(a, b): |a - b| <= atol + rtol * |b| with rtol=1e-05, atol=1e-08, element-wise with broadcasting of a scalar
            a_, b_ = args
            if isinstance(call.func, ast.Attribute) and isinstance(call.func.value, ast.Name) and call.func.value.id == "math":
                return None
            la = list(a_) if isinstance(a_, list) else None
            lb = list(b_) if isinstance(b_, list) else None
            k_ = len(la) if la is not None else len(lb) if lb is not None else None
            if k_ is None:
                return (abs(a_ - b_) <= 1e-08 + 1e-05 * abs(b_)) if _is_num(a_) and _is_num(b_) else None
            la = la if la is not None else [a_] * k_
            lb = lb if lb is not None else [b_] * k_
            if len(la) == len(lb) and all(_is_num(x) for x in la + lb):
                return Arr([abs(x - y) <= 1e-08 + 1e-05 * abs(y) for x, y in zip(la, lb)])
        if nm == "median" and len(args) == 1 and isinstance(args[0], list) and args[0] and all(_is_num(x) for x in args[0]):
            return statistics.median(args[0])
        if nm in ("absolute", "abs") and len(args) == 1:
            if isinstance(args[0], list) and all(_is_num(x) for x in args[0]):
                return Arr([abs(x) for x in args[0]])
            if _is_num(args[0]):
                return abs(args[0])
        return None

    it = Interp(ctx.prog, cls, lambda *_: None, call_model, max_depth=5, max_traces=8)
    it.on_start = script.reset
    it.strict_index = True
    it.instantiate_classes = True     # small helper objects of the repository (an ordering, a record) are followed
    it.heap[("problem", "minimize")] = minimize
    it.sym_result = lambda fv, a: (ranks.get(a[0].tag, UNKNOWN) if fv.tag == "KEY" and a and isinstance(a[0], Sym) else Sym(fv.tag + "()"))
    p = f.params
    env: dict[str, Any] = {"self": Sym("self"), p[1]: Sym("problem"), p[2]: Sym("evaluator"), p[3]: Sym("representation"),
                           p[4]: Sym("random"), p[5]: [Sym(t) for t in tags], p[6]: target_size, p[7]: 0,
                           f"{p[1]}.minimize": minimize}
    for k, v in self_attrs.items():
        env["self." + k] = v
    return it.run(f, env)
