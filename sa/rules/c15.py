"""C15 - population size is invariant across generations and step compositions (structural clauses)."""
from __future__ import annotations

import ast
from typing import Any, Optional

from ..absint import Env, Facts, Lin, Opaque, entails_ge0, evaluate
from ..astutil import call_name, guards, is_self_attr
from ..frontend import ancestors, AnalysisError, FunctionInfo, norm, parent, walk_local
from ..iterconsume import ConsumeAnalysis, iterator_params
from ..report import Ctx
from ..yieldcount import YieldCounter, YState, verdict
from .common import ALGORITHM, INITIALIZER, STEP

LEVEL_TEXT = (
    "Static rules: (R1) typestate of every Iterator/Iterable-typed parameter in the package: on no path is the "
    "one-shot iterator consumed twice; (R2) symbolic yield count of every built-in GeneticStep.iterate / apply "
    "and PopulationInitializer.initialize by abstract interpretation over affine forms (helper methods inlined; "
    "continue guards, divmod, index guards, nlargest; a collection keyed or de-duplicated by a value - set(..), "
    "{id(x): x for ..}.values() - has between 1 and n elements): the number of yields equals the requested size k"
    " on every path, for all k and all input sizes n >= k (callee steps/initializers are assumed to honour the "
    "same obligation; helper generators of the repository are sized by the same analysis; 'while True' retry "
    "loops yield once per completed round; a loop that stops once a counter reaches k yields k only if every path"
    " that yields also counts - a path that yields without counting is followed to the end of the input; an "
    "except / else clause that swallows a failed creation without yielding makes the count fall short and is a "
    "finding); every leaf step's iterate is also interpreted on populations of 1..4 individuals for every k <= n "
    "with the per-individual draw scripted both ways - a fully followed run that yields another number of "
    "individuals is a finding, finding none decides nothing; (R2p) the parallel family, per class (an inherited "
    "iterate with overridden hooks is analysed again): the slice boundaries are decided by a list-shape abstract "
    "interpretation (first / last element, bounds, monotonicity through running sums, itertools.accumulate, "
    "clamps, concatenation, append loops, b[-1] = k, conditions on b[-1]): consecutive pairs of one list that "
    "starts at 0, is non-decreasing, never passes and ends exactly at target_size, computed from this call's "
    "arguments (no memo); every sub-step is asked for end-start and empty slices contribute nothing, so the "
    "shares telescope to k for every weight vector; (R3) the GP driver (and its helper methods) asks initializer "
    "and step for the configured population size. Does not decide that the shares are proportional to the "
    "weights."
)

ALLOW_SIZE = {
    "geneticengine.algorithms.gp.adaptive:ParameterlessPopulationInitializer.initialize":
        "size is defined by a time budget, by design (parameterless GP)",
    "geneticengine.algorithms.gp.parameterless:ParameterlessPopulationInitializer.initialize":
        "size is defined by a time budget, by design (parameterless GP)",
}


def rule_r1(ctx: Ctx) -> None:
    ca = ConsumeAnalysis(ctx.prog, ctx.res, depth=8 if ctx.tier == "thorough" else 4)
    n = 0
    for f in sorted(ctx.prog.functions.values(), key=lambda x: x.fullname):
        for idx, name in iterator_params(f):
            n += 1
            st = ca.analyse(f, name)
            ok = st.count < 2
            ctx.ob("C15.R1", f, st.second if st.second is not None else f.node,
                   f"one-shot parameter '{name}' consumed at most once", ok,
                   "" if ok else f"'{name}' (declared one-shot) is consumed a second time at line "
                                 f"{getattr(st.second, 'lineno', '?')} (first use line {getattr(st.first, 'lineno', '?')}): "
                                 f"given a real iterator the second use sees an empty population",
                   witness={"first": getattr(st.first, "lineno", None), "second": getattr(st.second, "lineno", None)})
    ctx.floor("C15.R1", n, 25, "Iterator/Iterable-typed parameters")


def _small_scope_counterexample(ctx: Ctx, f: FunctionInfo, kname: str, pname: str) -> Optional[str]:
    """interpret a leaf step's iterate (no sub-steps) with n = 1..4 symbolic individuals and every 1 <= k <= n, the per-individual draw scripted to
    0.0 and to 1.0; representation.mutate / crossover return fresh genotypes; returns a description of the first fully followed run whose number
    of yields differs from k"""
    from ..modelinterp import Budget, Interp, Sym, UNKNOWN
    if any(isinstance(c, ast.Call) and isinstance(c.func, ast.Attribute) and c.func.attr in ("apply", "iterate") and not is_self_attr(c.func)
           for c in walk_local(f.node, include_nested=True)):
        return None
    for n_ in (1, 2, 3, 4):
        for k_ in range(1, n_ + 1):
            for draw in (0.0, 1.0):
                cnt = {"k": 0}

                def fresh(tag):
                    cnt["k"] += 1
                    return Sym(f"{tag}{cnt['k']}")

                def call_model(it, call, env, args, kwargs):
                    nm = call_name(call)
                    if nm in ("random_float", "random") and isinstance(call.func, ast.Attribute):
                        return draw
                    if nm == "crossover" and isinstance(call.func, ast.Attribute) and not is_self_attr(call.func):
                        return [fresh("geno"), fresh("geno")]
                    if nm == "mutate" and isinstance(call.func, ast.Attribute) and not is_self_attr(call.func):
                        return fresh("geno")
                    if nm == "Individual" and isinstance(call.func, ast.Name):
                        return fresh("child")
                    if nm in ("debug", "info", "warning"):
                        from ..modelinterp import _NONE
                        return _NONE
                    if nm == "isinstance":
                        return True
                    return None
                it = Interp(ctx.prog, f.cls, lambda *_: None, call_model, max_depth=6, max_traces=2)
                it.strict_iter = True
                env = {}
                for q in f.params:
                    env[q] = Sym(q)
                env["self"] = Sym("self")
                env[pname] = [Sym(f"ind{i}") for i in range(n_)]
                env[kname] = k_
                env["self.probability"] = 0.5
                try:
                    runs = it.run(f, env)
                except Budget:
                    return None
                if len(runs) != 1:
                    return None
                trace, rv, notes = runs[0]
                if notes or any(e.kind == "raise" for e in trace):
                    return None
                ys = 0
                for e in trace:
                    if e.kind == "yield":
                        if e.name == "from":
                            if not isinstance(e.args[0], list):
                                return None
                            ys += len(e.args[0])
                        else:
                            ys += 1
                if ys != k_:
                    return (f"with a population of {n_} individual(s), target_size {k_} and every per-individual draw equal to {draw} the step yields {ys} individual(s), "
                            f"not {k_}: the next generation does not have the requested size")
    return None


def _param_named(f: FunctionInfo, cands: tuple[str, ...]) -> Optional[str]:
    for c in cands:
        if c in f.params:
            return c
    return None


def rule_r2(ctx: Ctx) -> None:
    prog = ctx.prog
    targets: list[tuple[FunctionInfo, str, Optional[str]]] = []
    parallel: list[tuple[Any, FunctionInfo]] = []
    from ..frontend import is_stub

    def overrides_hook(c, f: FunctionInfo) -> bool:
        """does class c (inheriting f) override a method that f calls on self?"""
        for x in walk_local(f.node):
            if isinstance(x, ast.Call) and isinstance(x.func, ast.Attribute) and is_self_attr(x.func):
                a, b = prog.lookup_method(c, x.func.attr), prog.lookup_method(f.cls, x.func.attr) if f.cls else None
                if a is not None and b is not None and a is not b:
                    return True
        return False

    for c in prog.subclasses(STEP, strict=False):
        for mname in ("iterate", "apply"):
            f = prog.lookup_method(c, mname)
            if f is None or "target_size" not in f.params or is_stub(f.node):
                continue
            if f.cls is not c and not overrides_hook(c, f):
                continue   # inherited unchanged: analysed with the class that defines it
            if _range_loops(f):
                parallel.append((c, f))
                continue
            if f.cls is c:
                targets.append((f, "target_size", _param_named(f, ("population",))))
    for c in prog.subclasses(INITIALIZER):
        f = c.methods.get("initialize")
        if f is not None and "target_size" in f.params:
            targets.append((f, "target_size", None))
    n = 0
    for f, kname, pname in targets:
        if f.fullname in ALLOW_SIZE:
            ctx.accept("C15.R2", f.loc(), ALLOW_SIZE[f.fullname])
            continue
        yc = YieldCounter(f, kname, pname)
        yc.prog = prog
        from ..inline import make_inline_hook
        ih = make_inline_hook(prog, f.cls, f.module, skip=("apply", "iterate", "initialize", "compute_ranges"))
        yc.hooks.append(ih)
        yc.assume_hooks.append(ih.assume)
        states = yc.run()
        if not states:
            ctx.ob("C15.R2", f, f.node, "yield count", None, "no terminating path found")
            continue
        for st in states:
            n += 1
            status, detail, wit = verdict(yc, st, yc.k)
            cond = "; ".join(st.conds) or "all inputs"
            ok = True if status == "holds" else False if status == "fails" else None
            if status == "unproven":
                ok = None
            ctx.ob("C15.R2", f, f.node, f"yields exactly target_size [{cond}]"[:150], ok,
                   detail if status != "holds" else detail, witness=wit)
            for note in st.notes:
                if "unbound" in note:
                    ctx.ob("C15.R2", f, f.node, "loop variable read after a loop that may not run", False, note)
        for a in yc.assumptions:
            if a not in ctx.assumptions:
                ctx.assumptions.append(a)
        # a small-scope counterpart: whatever the spelling, the step is interpreted on 1..4 individuals for every k <= n and must yield k;
        # only a fully followed run with another count is a finding (it decides nothing when it finds none)
        if pname is not None and f.name == "iterate":
            cex = _small_scope_counterexample(ctx, f, kname, pname)
            if cex is not None:
                n += 1
                ctx.ob("C15.R2", f, f.node, "yields exactly target_size on populations of 1..4 individuals (finite-model interpretation)", False, cex)
    ctx.floor("C15.R2", n, 20, "yield-count paths over steps and initializers")
    # a failed attempt is retried until it yields: a yield inside a try whose handler swallows the exception must sit in a loop that
    # can only be left by a successful yield (a counter loop, or 'while True' left by a break / return after the yield)
    for f, kname, pname in targets:
        for t in walk_local(f.node):
            if not (isinstance(t, ast.Try) and any(isinstance(y, (ast.Yield, ast.YieldFrom)) for b in t.body for y in ast.walk(b))):
                continue
            swallow = [h for h in t.handlers if not any(isinstance(x, (ast.Raise, ast.Return, ast.Yield, ast.YieldFrom)) for b in h.body for x in ast.walk(b))]
            if not swallow:
                continue
            loop = next((a for a in ancestors(t) if isinstance(a, (ast.For, ast.While, ast.AsyncFor))), None)
            if loop is None:
                continue
            ok: Optional[bool]
            why = ""
            yidx = next(i for i, b in enumerate(t.body) if any(isinstance(y, (ast.Yield, ast.YieldFrom)) for y in ast.walk(b)))
            after = [x for b in list(t.body[yidx + 1:]) + list(t.orelse) for x in ast.walk(b)]     # what runs only after a successful yield
            endless_for = isinstance(loop, ast.For) and isinstance(loop.iter, ast.Call) and call_name(loop.iter) in ("count", "cycle", "repeat") \
                and not (call_name(loop.iter) == "repeat" and len(loop.iter.args) > 1)
            if isinstance(loop, ast.While) or endless_for:
                test_names = {x.id for x in ast.walk(loop.test) if isinstance(x, ast.Name)} if isinstance(loop, ast.While) else set()
                counted = any(isinstance(x, ast.AugAssign) and isinstance(x.target, ast.Name) and x.target.id in test_names for x in after)
                forever = endless_for or (isinstance(loop.test, ast.Constant) and loop.test.value is True)
                left_after = any(isinstance(x, (ast.Break, ast.Return)) for x in after)
                exits_elsewhere = [x for b in loop.body for x in ast.walk(b) if isinstance(x, ast.Break) and x not in after]
                if counted or (forever and left_after and not exits_elsewhere):
                    ok = True
                else:
                    ok, why = None, "the retry loop around a swallowed failure is neither a counter loop nor 'while True' left after the yield"
            else:
                ok = False
                why = (f"a failed attempt ('except {norm(swallow[0].type)[:30] if swallow[0].type is not None else ''}' swallows it) consumes an iteration of "
                       f"'{norm(loop).splitlines()[0][:50]}' without yielding: when every attempt of that bounded loop fails nothing is yielded for the slot "
                       f"and the initial population is smaller than target_size")
            ctx.ob("C15.R2", f, t, f"{f.qualname}: a swallowed failure is retried until something is yielded", ok, why)

    # ---- R2p parallel family
    cr_impls = [f for c in prog.subclasses(STEP) for f in [c.methods.get("compute_ranges")] if f is not None]
    ctx.floor("C15.R2p", len(cr_impls), 1, "compute_ranges implementations")
    for f in cr_impls:
        check_compute_ranges(ctx, f)
    ctx.floor("C15.R2p", len(parallel), 3, "step classes with a per-slice (start, end) loop")
    for c, f in parallel:
        check_parallel_iterate(ctx, f, c)


def _range_loops(f: FunctionInfo) -> list[ast.For]:
    """loops 'for (start, end), step in <pairs of slices and steps>'"""
    return [l for l in walk_local(f.node) if isinstance(l, ast.For) and isinstance(l.target, ast.Tuple) and len(l.target.elts) >= 2
            and isinstance(l.target.elts[0], ast.Tuple) and len(l.target.elts[0].elts) == 2
            and all(isinstance(x, ast.Name) for x in l.target.elts[0].elts)
            and any(isinstance(c, ast.Call) and call_name(c) in ("apply", "iterate") for b_ in l.body for c in ast.walk(b_))]


def check_compute_ranges(ctx: Ctx, f: FunctionInfo, ranges_var: Optional[ast.Name] = None) -> None:
    """Boundary-chain rule on the function that builds the ranges (compute_ranges itself, or a step that builds
    them inline: then *ranges_var* is the local list the per-slice loop iterates)."""
    k = "target_size"
    if k not in f.params:
        ctx.ob("C15.R2p", f, f.node, "compute_ranges(target_size)", None, "no target_size parameter")
        return
    body = f.node.body
    # ranges must be a function of this call's arguments: a memo on the step object is stale when the size changes
    memo = [a for a in walk_local(f.node) if isinstance(a, ast.Assign) and any(is_self_attr(t) for t in a.targets)]
    if memo and ranges_var is None:
        keyed = set()
        for a in memo:
            for t, pol in guards(a, stop=f.node):
                keyed |= {x.id for x in ast.walk(t) if isinstance(x, ast.Name)}
        ok = k in keyed and "population" in keyed
        ctx.ob("C15.R2p", f, memo[0], "slice boundaries are computed from this call's target_size and population", ok,
               "" if ok else f"'{norm(memo[0])[:60]}' caches the ranges on the step object and recomputes them only when "
                             f"{sorted(keyed - {'self'}) or 'never'} change: a later call with another target size (a step shared by two "
                             f"searches, an adaptive population size) is served the old boundaries and yields the old number of individuals")
        if not ok:
            return
    # ---- list-shape abstract interpretation of the boundary construction (sa/listshape.py)
    from ..listshape import AList, APairs, ShapeInterp
    facts = Facts()
    kk = Lin.sym("k")
    facts.ints.add("k")
    facts.add_ge(kk, Lin.c(1))
    env = Env(facts)
    env.vars[k] = kk

    def nonneg_elt(e: ast.AST, depth_: int = 0) -> bool:
        """a share: built from the weights, len(), sum(), non-negative constants with * / + int() round() only (a helper method
        whose body is one such expression of its parameters counts as that expression)"""
        if isinstance(e, ast.Call) and isinstance(e.func, ast.Attribute) and isinstance(e.func.value, ast.Name) and e.func.value.id == "self" \
                and f.cls is not None and depth_ < 2:
            h = ctx.prog.lookup_method(f.cls, e.func.attr)
            if h is not None:
                body_ = [b_ for b_ in h.node.body if not (isinstance(b_, ast.Expr) and isinstance(b_.value, ast.Constant))]
                if len(body_) == 1 and isinstance(body_[0], ast.Return) and body_[0].value is not None:
                    return nonneg_elt(body_[0].value, depth_ + 1) and all(nonneg_elt(a_, depth_ + 1) for a_ in e.args)
            return False
        for x in ast.walk(e):
            if isinstance(x, ast.BinOp) and not isinstance(x.op, (ast.Mult, ast.Div, ast.Add, ast.FloorDiv)):
                return False
            if isinstance(x, ast.UnaryOp):
                return False
            if isinstance(x, ast.Call) and call_name(x) not in ("int", "round", "len", "sum", "float"):
                return False
            if isinstance(x, ast.Constant) and isinstance(x.value, (int, float)) and x.value < 0:
                return False
        return True

    si = ShapeInterp(ctx.prog, f, facts, env, nonneg_elt)
    si.run()
    res = si.lists.get(ranges_var.id) if ranges_var is not None else si.returned
    anchor = f.node
    if not isinstance(res, APairs):
        und = isinstance(res, AList) and not res.known or res is None or si.notes
        ctx.ob("C15.R2p", f, anchor, "ranges are consecutive pairs of one boundary list", None if und else False,
               (getattr(res, "why", "") or "; ".join(si.notes) or "the value returned is not followed") if und else
               "the ranges are not consecutive pairs of a single boundary list: they need not be contiguous")
        return
    ctx.ob("C15.R2p", f, anchor, "ranges are consecutive pairs of one boundary list", True, "")
    b = res.base
    zero = Lin.c(0)

    def tri(cond_true: bool, definite: bool) -> Optional[bool]:
        return True if cond_true else (False if definite else None)

    ctx.ob("C15.R2p", f, anchor, "boundaries start at 0", tri(b.first == zero, b.known and b.first is not None or b.known),
           "" if b.first == zero else (f"the first boundary is {b.first!r}, not 0" if b.first is not None else
                                       (b.why or "the first boundary is not known to be 0")))
    ctx.ob("C15.R2p", f, anchor, "the last boundary is exactly target_size on every path", tri(b.last == kk, b.known),
           "" if b.last == kk else (f"the last boundary is {b.last!r}, not target_size" if b.last is not None else
                                    (b.why or "the last boundary is not set to target_size") + ": the shares decide the total"))
    chain_ok = b.mono and b.last == kk
    ctx.ob("C15.R2p", f, anchor, "boundaries form a non-decreasing chain that never passes target_size", tri(chain_ok, b.known),
           "" if chain_ok else (f"{b.why or 'the boundaries are not known to be ordered'}: cumulative rounded shares used as boundaries "
                                f"unclamped can exceed target_size, later slices become negative and are skipped, and more than "
                                f"target_size individuals are produced (e.g. 4 equal weights, 6 individuals -> 8)"))
    ctx.assumptions.append("weights are non-negative (stated in the property), so rounded shares are >= 0")


def check_parallel_iterate(ctx: Ctx, f: FunctionInfo, cls=None) -> None:
    k = "target_size"
    cls = cls or f.cls
    who = f"{cls.name}: " if cls is not None and cls is not f.cls else ""
    srcs = [f]
    for x in walk_local(f.node):
        if isinstance(x, ast.Call) and isinstance(x.func, ast.Attribute) and is_self_attr(x.func) and cls is not None:
            g = ctx.prog.lookup_method(cls, x.func.attr)
            if g is not None and g not in srcs and g.name != "compute_ranges":
                srcs.append(g)
    calls = [c for g in srcs for c in walk_local(g.node) if isinstance(c, ast.Call) and call_name(c) == "compute_ranges"]
    for c in calls:
        ok = len(c.args) >= 2 and isinstance(c.args[1], ast.Name) and c.args[1].id == k
        ctx.ob("C15.R2p", f, c, "compute_ranges is asked for target_size", ok,
               "" if ok else f"ranges are computed for '{norm(c.args[1]) if len(c.args) > 1 else '?'}' instead of the requested size")
    loops = _range_loops(f)
    if len(loops) != 1:
        ctx.ob("C15.R2p", f, f.node, "one loop over (start, end) ranges", None, f"{len(loops)} candidate loops")
        return
    loop = loops[0]
    from_helper = bool(calls)
    if not from_helper:
        # the step builds its slice boundaries inline: the same boundary-chain rule applies here
        rname = loop.iter.args[0] if isinstance(loop.iter, ast.Call) and loop.iter.args and isinstance(loop.iter.args[0], ast.Name) else \
            (loop.iter if isinstance(loop.iter, ast.Name) else None)
        if rname is None:
            ctx.ob("C15.R2p", f, loop, "the slices come from compute_ranges or an inline boundary list", None, f"loop iterable '{norm(loop.iter)[:40]}' not followed")
        else:
            check_compute_ranges(ctx, f, ranges_var=rname)
    s_name, e_name = (x.id for x in loop.target.elts[0].elts)
    # every range is served: loop over zip(ranges, self.steps) with equal lengths asserted or by construction
    yc = YieldCounter(f, k, None)
    yc.prog = ctx.prog
    fa = Facts()
    S, E = Lin.sym("start"), Lin.sym("end")
    fa.ints |= {"start", "end"}
    env = Env(fa)
    from ..inline import make_inline_hook
    ih = make_inline_hook(ctx.prog, cls, f.module, skip=("apply", "iterate", "compute_ranges"))
    env.hooks.append(ih)
    env.assume_hooks.append(ih.assume)
    env.vars[s_name], env.vars[e_name] = S, E
    env.vars[k] = Lin.sym("k")
    st0 = YState(env, Lin.c(0))
    outs = yc.block(loop.body, [st0])
    for st in outs:
        want = E - S
        cond = "; ".join(st.conds) or "unguarded"
        if isinstance(st.count, Opaque):
            ctx.ob("C15.R2p", f, loop, f"{who}slice [{cond}] yields end-start", None, st.count.why)
            continue
        d = st.count - want
        fx = st.env.facts
        if entails_ge0(fx, d) and entails_ge0(fx, -d):
            ok, why = True, ""
        elif st.count == Lin.c(0) and entails_ge0(fx, -(want)):
            ok, why = True, ""  # skipped slice is empty (boundaries are non-decreasing: end-start = 0)
        else:
            ok, why = False, f"a slice of size end-start produces {st.count!r} individuals"
        ctx.ob("C15.R2p", f, loop, f"{who}slice [{cond}] contributes end-start", ok, why)
    # nothing yielded outside the loop
    outside = [y for y in walk_local(f.node) if isinstance(y, (ast.Yield, ast.YieldFrom))
               and not any(a is loop for a in _anc(y))]
    ctx.ob("C15.R2p", f, outside[0] if outside else loop, "all yields come from the per-slice loop", not outside,
           "" if not outside else "individuals are also yielded outside the slices")
    for a in yc.assumptions:
        if a not in ctx.assumptions:
            ctx.assumptions.append(a)


def _anc(n):
    from ..frontend import ancestors
    return ancestors(n)


def rule_r3(ctx: Ctx) -> None:
    prog = ctx.prog
    n = 0
    for f0 in prog.implementations(ALGORITHM, "search"):
        srcs = [f0]
        for x in walk_local(f0.node):
            if isinstance(x, ast.Call) and isinstance(x.func, ast.Attribute) and is_self_attr(x.func) and f0.cls is not None:
                g = prog.lookup_method(f0.cls, x.func.attr)
                if g is not None and g not in srcs:
                    srcs.append(g)
        for f, c in [(g, c_) for g in srcs for c_ in walk_local(g.node)]:
            if isinstance(c, ast.Call) and call_name(c) in ("initialize", "apply") and isinstance(c.func, ast.Attribute):
                idx = 3 if call_name(c) == "initialize" else 5
                kw = next((k.value for k in c.keywords if k.arg == "target_size"), None)
                arg = kw if kw is not None else (c.args[idx] if len(c.args) > idx else None)
                n += 1
                ok = arg is not None and is_self_attr(arg, "population_size")
                ctx.ob("C15.R3", f, c, f"{call_name(c)} is asked for self.population_size", ok,
                       "" if ok else f"the driver asks for '{norm(arg) if arg is not None else '?'}' individuals instead of "
                                     f"the configured population size")
    ctx.floor("C15.R3", n, 2, "initializer/step requests in GP search")


def run(ctx: Ctx) -> None:
    ctx.rule("C15.R1", "one-shot Iterator/Iterable parameters are consumed at most once on every path")
    ctx.rule("C15.R2", "symbolic yield count of each step / initializer equals target_size on every path (n >= k)")
    ctx.rule("C15.R2p", "parallel family: slice boundaries 0 <= ... <= k ending at k; each sub-step asked for end-start")
    ctx.rule("C15.R3", "GP driver requests self.population_size from initializer and step")
    rule_r1(ctx)
    rule_r2(ctx)
    rule_r3(ctx)
