"""C15 - population size is invariant across generations and step compositions (structural clauses)."""
from __future__ import annotations

import ast
from typing import Any, Optional

from ..absint import Env, Facts, Lin, Opaque, entails_ge0, evaluate
from ..astutil import call_name, guards, is_self_attr
from ..frontend import AnalysisError, FunctionInfo, norm, parent, walk_local
from ..iterconsume import ConsumeAnalysis, iterator_params
from ..report import Ctx
from ..yieldcount import YieldCounter, YState, verdict
from .common import ALGORITHM, INITIALIZER, STEP

LEVEL_TEXT = (
    "Static rules: (R1) typestate of every Iterator/Iterable-typed parameter in the package: on no path is the "
    "one-shot iterator consumed twice (iteration, eager builtins, hand-over to a consuming callee - resolved through "
    "the class hierarchy; re-binding to a materialised copy ends tracking); (R2) symbolic yield count of every "
    "built-in GeneticStep.iterate / apply and PopulationInitializer.initialize by abstract interpretation over "
    "affine forms: the number of yields equals the requested size k on every path, for all k and all input sizes "
    "n >= k (callee steps/initializers are assumed to honour the same obligation); (R2p) the slice boundaries of "
    "ParallelStep / ExclusiveParallelStep / FeedbackParallelStep form a chain 0 <= ... <= k ending exactly at k and "
    "every sub-step is asked for end-start, so the shares telescope to k for every weight vector; (R3) the GP "
    "driver asks initializer and step for the configured population size. Decides the count for all sizes, "
    "weights and iterable forms; does not decide that the shares are proportional to the weights."
)

ALLOW_SIZE = {
    "geneticengine.algorithms.gp.adaptive:ParameterlessPopulationInitializer.initialize":
        "size is defined by a time budget, by design (parameterless GP)",
    "geneticengine.algorithms.gp.parameterless:ParameterlessPopulationInitializer.initialize":
        "size is defined by a time budget, by design (parameterless GP)",
}


def rule_r1(ctx: Ctx) -> None:
    ca = ConsumeAnalysis(ctx.prog, ctx.res, depth=8 if ctx.tier == "thorough" else 4)
    n = 0
    for f in sorted(ctx.prog.functions.values(), key=lambda x: x.fullname):
        for idx, name in iterator_params(f):
            n += 1
            st = ca.analyse(f, name)
            ok = st.count < 2
            ctx.ob("C15.R1", f, st.second if st.second is not None else f.node,
                   f"one-shot parameter '{name}' consumed at most once", ok,
                   "" if ok else f"'{name}' (declared one-shot) is consumed a second time at line "
                                 f"{getattr(st.second, 'lineno', '?')} (first use line {getattr(st.first, 'lineno', '?')}): "
                                 f"given a real iterator the second use sees an empty population",
                   witness={"first": getattr(st.first, "lineno", None), "second": getattr(st.second, "lineno", None)})
    ctx.floor("C15.R1", n, 25, "Iterator/Iterable-typed parameters")


def _param_named(f: FunctionInfo, cands: tuple[str, ...]) -> Optional[str]:
    for c in cands:
        if c in f.params:
            return c
    return None


def rule_r2(ctx: Ctx) -> None:
    prog = ctx.prog
    targets: list[tuple[FunctionInfo, str, Optional[str]]] = []
    parallel: list[FunctionInfo] = []
    for c in prog.subclasses(STEP, strict=False):
        for mname in ("iterate", "apply"):
            f = c.methods.get(mname)
            if f is None or "target_size" not in f.params:
                continue
            from ..frontend import is_stub
            if is_stub(f.node):
                continue
            if _range_loops(f):
                parallel.append(f)
                continue
            targets.append((f, "target_size", _param_named(f, ("population",))))
    for c in prog.subclasses(INITIALIZER):
        f = c.methods.get("initialize")
        if f is not None and "target_size" in f.params:
            targets.append((f, "target_size", None))
    n = 0
    for f, kname, pname in targets:
        if f.fullname in ALLOW_SIZE:
            ctx.accept("C15.R2", f.loc(), ALLOW_SIZE[f.fullname])
            continue
        yc = YieldCounter(f, kname, pname)
        states = yc.run()
        if not states:
            ctx.ob("C15.R2", f, f.node, "yield count", None, "no terminating path found")
            continue
        for st in states:
            n += 1
            status, detail, wit = verdict(yc, st, yc.k)
            cond = "; ".join(st.conds) or "all inputs"
            ok = True if status == "holds" else False if status == "fails" else None
            if status == "unproven":
                ok = None
            ctx.ob("C15.R2", f, f.node, f"yields exactly target_size [{cond}]"[:150], ok,
                   detail if status != "holds" else detail, witness=wit)
            for note in st.notes:
                if "unbound" in note:
                    ctx.ob("C15.R2", f, f.node, "loop variable read after a loop that may not run", False, note)
        for a in yc.assumptions:
            if a not in ctx.assumptions:
                ctx.assumptions.append(a)
    ctx.floor("C15.R2", n, 20, "yield-count paths over steps and initializers")

    # ---- R2p parallel family
    cr_impls = [f for c in prog.subclasses(STEP) for f in [c.methods.get("compute_ranges")] if f is not None]
    ctx.floor("C15.R2p", len(cr_impls), 1, "compute_ranges implementations")
    for f in cr_impls:
        check_compute_ranges(ctx, f)
    ctx.floor("C15.R2p", len(parallel), 3, "steps with a per-slice (start, end) loop")
    for f in parallel:
        check_parallel_iterate(ctx, f)


def _range_loops(f: FunctionInfo) -> list[ast.For]:
    return [l for l in walk_local(f.node) if isinstance(l, ast.For) and isinstance(l.iter, ast.Call) and call_name(l.iter) == "zip"
            and l.iter.args and isinstance(l.iter.args[0], ast.Name) and isinstance(l.target, ast.Tuple)
            and isinstance(l.target.elts[0], ast.Tuple) and len(l.target.elts[0].elts) == 2]


def check_compute_ranges(ctx: Ctx, f: FunctionInfo, ranges_var: Optional[ast.Name] = None) -> None:
    """Boundary-chain rule on the function that builds the ranges (compute_ranges itself, or a step that builds
    them inline: then *ranges_var* is the local list the per-slice loop iterates)."""
    k = "target_size"
    if k not in f.params:
        ctx.ob("C15.R2p", f, f.node, "compute_ranges(target_size)", None, "no target_size parameter")
        return
    body = f.node.body
    # ranges must be a function of this call's arguments: a memo on the step object is stale when the size changes
    memo = [a for a in walk_local(f.node) if isinstance(a, ast.Assign) and any(is_self_attr(t) for t in a.targets)]
    if memo and ranges_var is None:
        keyed = set()
        for a in memo:
            for t, pol in guards(a, stop=f.node):
                keyed |= {x.id for x in ast.walk(t) if isinstance(x, ast.Name)}
        ok = k in keyed and "population" in keyed
        ctx.ob("C15.R2p", f, memo[0], "slice boundaries are computed from this call's target_size and population", ok,
               "" if ok else f"'{norm(memo[0])[:60]}' caches the ranges on the step object and recomputes them only when "
                             f"{sorted(keyed - {'self'}) or 'never'} change: a later call with another target size (a step shared by two "
                             f"searches, an adaptive population size) is served the old boundaries and yields the old number of individuals")
        if not ok:
            return
    rets = [r for r in walk_local(f.node) if isinstance(r, ast.Return) and r.value is not None]
    if ranges_var is not None:
        rets = [ast.copy_location(ast.Return(value=ranges_var), ranges_var)]
    if len(rets) != 1:
        ctx.ob("C15.R2p", f, f.node, "single return of the ranges", None, f"{len(rets)} returns")
        return
    rv = rets[0].value

    def resolve_name(e: ast.AST) -> ast.AST:
        if isinstance(e, ast.Name):
            ds = [a for a in body if isinstance(a, ast.Assign) and any(isinstance(t, ast.Name) and t.id == e.id for t in a.targets)]
            if len(ds) == 1:
                return ds[0].value
        return e

    rv0 = rv
    rname = rv.id if isinstance(rv, ast.Name) else None
    rv = resolve_name(rv)
    if isinstance(rv, ast.Call) and call_name(rv) == "list" and rv.args:
        rv = rv.args[0]
    ok_pairs = isinstance(rv, ast.Call) and call_name(rv) == "zip" and len(rv.args) == 2 and isinstance(rv.args[0], ast.Name) \
        and isinstance(rv.args[1], ast.Subscript) and isinstance(rv.args[1].value, ast.Name) \
        and rv.args[1].value.id == rv.args[0].id and isinstance(rv.args[1].slice, ast.Slice) \
        and isinstance(rv.args[1].slice.lower, ast.Constant) and rv.args[1].slice.lower.value == 1 \
        and rv.args[1].slice.upper is None
    ctx.ob("C15.R2p", f, rets[0], "ranges are consecutive pairs zip(b, b[1:]) of one boundary list", ok_pairs,
           "" if ok_pairs else "the ranges are not consecutive pairs of a single boundary list: they need not be contiguous")
    if not ok_pairs:
        return
    bname = rv.args[0].id
    bdefs = [a for a in body if isinstance(a, ast.Assign) and any(isinstance(t, ast.Name) and t.id == bname for t in a.targets)]
    if len(bdefs) != 1:
        ctx.ob("C15.R2p", f, f.node, f"boundary list '{bname}' defined once", None, f"{len(bdefs)} definitions")
        return
    bv = bdefs[0].value
    starts0 = isinstance(bv, ast.BinOp) and isinstance(bv.op, ast.Add) and isinstance(bv.left, ast.List) \
        and len(bv.left.elts) == 1 and isinstance(bv.left.elts[0], ast.Constant) and bv.left.elts[0].value == 0
    ctx.ob("C15.R2p", f, bdefs[0], "boundaries start at 0", starts0, "" if starts0 else "the first boundary is not 0")
    rest = bv.right if starts0 else bv
    clamped = False
    src = rest
    if isinstance(rest, ast.ListComp) and len(rest.generators) == 1 and not rest.generators[0].ifs:
        e = rest.elt
        if isinstance(e, ast.Call) and call_name(e) == "min" and len(e.args) == 2:
            names = [a.id for a in e.args if isinstance(a, ast.Name)]
            tvar = rest.generators[0].target.id if isinstance(rest.generators[0].target, ast.Name) else None
            clamped = k in names and tvar in names
        src = rest.generators[0].iter
    ctx.ob("C15.R2p", f, bdefs[0], "every boundary is clamped to target_size", clamped,
           "" if clamped else "cumulative rounded shares are used as boundaries unclamped: an intermediate boundary can "
                              "exceed target_size, later slices become negative and are skipped, and more than "
                              "target_size individuals are produced (e.g. 4 equal weights, 6 individuals -> 8)")
    src = resolve_name(src)
    mono = isinstance(src, ast.Call) and call_name(src) == "cumsum"
    ctx.ob("C15.R2p", f, bdefs[0], "boundaries are a running sum (non-decreasing for non-negative weights)", mono,
           "" if mono else "boundaries are not produced by the running sum helper")
    # last boundary == target_size, unconditionally, after the definition
    idx = body.index(bdefs[0])
    last_ok = False
    why = "the last boundary is not set to target_size"
    for st in body[idx + 1:]:
        if isinstance(st, ast.Assign) and len(st.targets) == 1 and isinstance(st.targets[0], ast.Subscript) \
                and isinstance(st.targets[0].value, ast.Name) and st.targets[0].value.id == bname:
            sl = st.targets[0].slice
            is_last = isinstance(sl, ast.UnaryOp) and isinstance(sl.op, ast.USub) and isinstance(sl.operand, ast.Constant) \
                and sl.operand.value == 1
            if is_last and isinstance(st.value, ast.Name) and st.value.id == k:
                last_ok = True
    # patches applied to the ranges list instead (pre-fix form): must be unconditional and set (x, target_size)
    for st in walk_local(f.node):
        if isinstance(st, ast.Assign) and len(st.targets) == 1 and isinstance(st.targets[0], ast.Subscript) \
                and isinstance(st.targets[0].value, ast.Name) and rname and st.targets[0].value.id == rname:
            g = guards(st, stop=f.node)
            if g:
                why = f"the last slice is patched to end at target_size only when '{norm(g[0][0])}': otherwise the " \
                      f"shares decide the total"
            elif isinstance(st.value, ast.Tuple) and len(st.value.elts) == 2 and isinstance(st.value.elts[1], ast.Name) \
                    and st.value.elts[1].id == k:
                last_ok = True
    ctx.ob("C15.R2p", f, bdefs[0], "the last boundary is exactly target_size on every path", last_ok, "" if last_ok else why)
    # cumsum really is a running sum
    cs = ctx.prog.lookup_method(f.cls, "cumsum") if f.cls else None
    if cs is not None:
        okc = False
        loops = [l for l in walk_local(cs.node) if isinstance(l, ast.For)]
        if len(loops) == 1:
            l = loops[0]
            acc = [a for a in l.body if isinstance(a, (ast.Assign, ast.AugAssign))]
            app = [x for b_ in l.body for x in ast.walk(b_) if isinstance(x, ast.Call) and call_name(x) == "append"]
            if len(acc) == 1 and len(app) == 1 and isinstance(l.target, ast.Name):
                a = acc[0]
                tname = a.targets[0].id if isinstance(a, ast.Assign) and isinstance(a.targets[0], ast.Name) else \
                    a.target.id if isinstance(a, ast.AugAssign) and isinstance(a.target, ast.Name) else None
                if isinstance(a, ast.Assign):
                    v = a.value
                    okc = isinstance(v, ast.BinOp) and isinstance(v.op, ast.Add) and \
                        {getattr(v.left, "id", None), getattr(v.right, "id", None)} == {tname, l.target.id}
                else:
                    okc = isinstance(a.op, ast.Add) and isinstance(a.value, ast.Name) and a.value.id == l.target.id
                okc = okc and isinstance(app[0].args[0], ast.Name) and app[0].args[0].id == tname
        ctx.ob("C15.R2p", cs, cs.node, "cumsum appends the running sum of its input", okc,
               "" if okc else "cumsum is not a plain running sum: boundaries need not be non-decreasing")
    ctx.assumptions.append("weights are non-negative (stated in the property), so rounded shares are >= 0")


def check_parallel_iterate(ctx: Ctx, f: FunctionInfo) -> None:
    k = "target_size"
    calls = [c for c in walk_local(f.node) if isinstance(c, ast.Call) and call_name(c) == "compute_ranges"]
    for c in calls:
        ok = len(c.args) >= 2 and isinstance(c.args[1], ast.Name) and c.args[1].id == k
        ctx.ob("C15.R2p", f, c, "compute_ranges is asked for target_size", ok,
               "" if ok else f"ranges are computed for '{norm(c.args[1]) if len(c.args) > 1 else '?'}' instead of the requested size")
    loops = _range_loops(f)
    if len(loops) != 1:
        ctx.ob("C15.R2p", f, f.node, "one loop over (start, end) ranges", None, f"{len(loops)} candidate loops")
        return
    loop = loops[0]
    rname = loop.iter.args[0]
    rdefs = [a for a in f.node.body if isinstance(a, ast.Assign) and any(isinstance(t, ast.Name) and t.id == rname.id for t in a.targets)]
    from_helper = len(rdefs) == 1 and isinstance(rdefs[0].value, ast.Call) and call_name(rdefs[0].value) == "compute_ranges"
    if not from_helper:
        # the step builds its slice boundaries inline: the same boundary-chain rule applies here
        check_compute_ranges(ctx, f, ranges_var=rname)
    s_name, e_name = (x.id for x in loop.target.elts[0].elts)
    # every range is served: loop over zip(ranges, self.steps) with equal lengths asserted or by construction
    yc = YieldCounter(f, k, None)
    fa = Facts()
    S, E = Lin.sym("start"), Lin.sym("end")
    fa.ints |= {"start", "end"}
    env = Env(fa)
    env.vars[s_name], env.vars[e_name] = S, E
    env.vars[k] = Lin.sym("k")
    st0 = YState(env, Lin.c(0))
    outs = yc.block(loop.body, [st0])
    for st in outs:
        want = E - S
        cond = "; ".join(st.conds) or "unguarded"
        if isinstance(st.count, Opaque):
            ctx.ob("C15.R2p", f, loop, f"slice [{cond}] yields end-start", None, st.count.why)
            continue
        d = st.count - want
        fx = st.env.facts
        if entails_ge0(fx, d) and entails_ge0(fx, -d):
            ok, why = True, ""
        elif st.count == Lin.c(0) and entails_ge0(fx, -(want)):
            ok, why = True, ""  # skipped slice is empty (boundaries are non-decreasing: end-start = 0)
        else:
            ok, why = False, f"a slice of size end-start produces {st.count!r} individuals"
        ctx.ob("C15.R2p", f, loop, f"slice [{cond}] contributes end-start", ok, why)
    # nothing yielded outside the loop
    outside = [y for y in walk_local(f.node) if isinstance(y, (ast.Yield, ast.YieldFrom))
               and not any(a is loop for a in _anc(y))]
    ctx.ob("C15.R2p", f, outside[0] if outside else loop, "all yields come from the per-slice loop", not outside,
           "" if not outside else "individuals are also yielded outside the slices")
    for a in yc.assumptions:
        if a not in ctx.assumptions:
            ctx.assumptions.append(a)


def _anc(n):
    from ..frontend import ancestors
    return ancestors(n)


def rule_r3(ctx: Ctx) -> None:
    prog = ctx.prog
    n = 0
    for f in prog.implementations(ALGORITHM, "search"):
        for c in walk_local(f.node):
            if isinstance(c, ast.Call) and call_name(c) in ("initialize", "apply") and isinstance(c.func, ast.Attribute):
                idx = 3 if call_name(c) == "initialize" else 5
                kw = next((k.value for k in c.keywords if k.arg == "target_size"), None)
                arg = kw if kw is not None else (c.args[idx] if len(c.args) > idx else None)
                n += 1
                ok = arg is not None and is_self_attr(arg, "population_size")
                ctx.ob("C15.R3", f, c, f"{call_name(c)} is asked for self.population_size", ok,
                       "" if ok else f"the driver asks for '{norm(arg) if arg is not None else '?'}' individuals instead of "
                                     f"the configured population size")
    ctx.floor("C15.R3", n, 2, "initializer/step requests in GP search")


def run(ctx: Ctx) -> None:
    ctx.rule("C15.R1", "one-shot Iterator/Iterable parameters are consumed at most once on every path")
    ctx.rule("C15.R2", "symbolic yield count of each step / initializer equals target_size on every path (n >= k)")
    ctx.rule("C15.R2p", "parallel family: slice boundaries 0 <= ... <= k ending at k; each sub-step asked for end-start")
    ctx.rule("C15.R3", "GP driver requests self.population_size from initializer and step")
    rule_r1(ctx)
    rule_r2(ctx)
    rule_r3(ctx)
