"""A finite family of model grammars on which the repository's grammar analysis is interpreted end to end.

A model grammar is a small class hierarchy written down as data: for every class its kind (abstract / concrete), its direct
parent and its typed fields (TypeV forms over the classes and int: plain, list[..], Annotated[.., m], Union[.., ..]).  The
repository's own pipeline - Grammar.__init__, register_type(start), preprocess() - is interpreted by sa/modelinterp on it;
only reflection is replaced by the data (is_abstract, get_arguments, mro, issubclass, get_gengy), the typing predicates are the
repository's own, evaluated on the model of what the typing runtime exposes.  Nothing is executed.

The tables the interpretation ends with (alternatives, distanceToTerminal, recursive_prods, abstract_dist_to_t) are compared with
a reference computed here, independently, from the *specification*: productions = direct subtypes among the supplied classes
that the start symbol's registration reaches; minimum depth = depth of the shallowest derivable program in the library's depth
convention; recursive = derives a program containing itself; abstract hops = length of the shortest chain of abstract expansions.

The family deliberately stays away from the four defects recorded as known findings (tuple fields, unions whose members have
different minimum depths, bool fields, programs with lists *created* one level too deep): those are reported by their own rules.
"""
from __future__ import annotations

import ast
from dataclasses import dataclass, field
from typing import Any, Optional

from ..astutil import call_name
from ..frontend import AnalysisError
from ..modelinterp import BUILTIN_TYPES, Budget, DDict, Interp, Sym, TypeV, UNKNOWN, _NONE

GRAMMAR = "geneticengine.grammar.grammar.Grammar"
INF = 1000000
INT = BUILTIN_TYPES["int"]
OBJECT = BUILTIN_TYPES["object"]
ABC_T = TypeV("class", "ABC")


def C(name: str) -> TypeV:
    return TypeV("class", name)


def lst(t: TypeV) -> TypeV:
    return TypeV("list", f"list[{t.name}]", (t,))


def ann(t: TypeV, tag: str = "MH") -> TypeV:
    return TypeV("annotated", f"Annotated[{t.name}, {tag}]", (t,), Sym(tag))


def uni(*ts: TypeV) -> TypeV:
    return TypeV("union", f"Union[{', '.join(t.name for t in ts)}]", tuple(ts))


@dataclass
class ModelGrammar:
    name: str
    start: str
    classes: dict            # name -> (kind, parent name | None, [(field, TypeV)])
    supplied: list           # names handed to extract_grammar (order matters to the registration)
    note: str = ""
    more_bases: dict = field(default_factory=dict)     # name -> further base classes after the grammar parent (multiple inheritance)

    def bases(self, n: str) -> list:
        p = self.classes[n][1]
        return ([p] if p is not None else []) + list(self.more_bases.get(n, []))

    def linearisation(self, n: str) -> list:
        """class names in method-resolution order (depth first through the first base, then the further bases; no diamonds in the models)"""
        out = [n]
        for b in self.bases(n):
            for k in self.linearisation(b):
                if k not in out:
                    out.append(k)
        return out

    def t(self, n: str) -> TypeV:
        return C(n)

    def is_abstract(self, n: str) -> bool:
        return self.classes[n][0] == "abstract"

    def subclasses(self, n: str) -> list:
        return [k for k in self.classes if n in self.linearisation(k)]


def _inner_classes(t: TypeV) -> list:
    if t.kind == "class":
        return [t.name]
    out = []
    for a in t.args or ():
        if isinstance(a, TypeV):
            out += _inner_classes(a)
    return out


FAMILY: list[ModelGrammar] = [
    ModelGrammar("three abstract levels", "Expr", {
        "Expr": ("abstract", None, []), "Atom": ("abstract", "Expr", []), "Lit": ("abstract", "Atom", []),
        "Num": ("concrete", "Lit", [("v", INT)]), "Var": ("concrete", "Atom", [("n", INT)]),
        "Add": ("concrete", "Expr", [("l", C("Expr")), ("r", C("Expr"))]),
    }, ["Atom", "Lit", "Num", "Var", "Add"]),
    ModelGrammar("intermediate abstract types not among the supplied classes", "Expr", {
        "Expr": ("abstract", None, []), "Atom": ("abstract", "Expr", []), "Lit": ("abstract", "Atom", []),
        "Num": ("concrete", "Lit", [("v", INT)]), "Var": ("concrete", "Atom", [("n", INT)]),
        "Add": ("concrete", "Expr", [("l", C("Expr")), ("r", C("Expr"))]),
    }, ["Num", "Var", "Add"]),
    ModelGrammar("start symbol below the top of its hierarchy, its parent mentioned by a field", "Arith", {
        "Expr": ("abstract", None, []), "Arith": ("abstract", "Expr", []),
        "Paren": ("concrete", "Arith", [("inner", C("Expr"))]), "Num": ("concrete", "Arith", [("v", INT)]),
        "Lit": ("concrete", "Expr", [("v", INT)]),
    }, ["Paren", "Num", "Lit"]),
    ModelGrammar("three abstract levels, supplied bottom-up", "Expr", {
        "Expr": ("abstract", None, []), "Atom": ("abstract", "Expr", []), "Lit": ("abstract", "Atom", []),
        "Num": ("concrete", "Lit", [("v", INT)]), "Neg": ("concrete", "Expr", [("e", C("Atom"))]),
    }, ["Num", "Neg", "Lit", "Atom"]),
    ModelGrammar("mutual recursion through a list", "A", {
        "A": ("abstract", None, []), "B": ("abstract", None, []),
        "P": ("concrete", "A", [("xs", lst(C("B")))]), "Q": ("concrete", "B", [("a", C("A"))]), "R": ("concrete", "B", [("v", INT)]),
        "Z": ("concrete", "A", []),
    }, ["P", "Q", "R", "Z"]),
    ModelGrammar("refined fields and a refined list of the start symbol", "S", {
        "S": ("abstract", None, []),
        "N": ("concrete", "S", [("x", ann(INT)), ("cs", ann(lst(C("S")), "MHL"))]), "Z": ("concrete", "S", [("v", ann(INT))]),
    }, ["N", "Z"]),
    ModelGrammar("an unreachable supplied class and an unreachable hierarchy", "Root", {
        "Root": ("abstract", None, []), "Leaf": ("concrete", "Root", [("v", INT)]),
        "Pair": ("concrete", "Root", [("a", C("Leaf")), ("b", C("Root"))]),
        "Other": ("abstract", None, []), "Un": ("concrete", "Other", [("r", C("Root"))]), "Lone": ("concrete", None, [("v", INT)]),
    }, ["Leaf", "Pair", "Un", "Lone"]),
    ModelGrammar("union of members of equal depth; recursion only through the union", "R", {
        "R": ("abstract", None, []), "S": ("abstract", None, []),
        "L": ("concrete", "R", [("v", INT)]), "M": ("concrete", "S", [("v", INT)]),
        "N": ("concrete", "R", [("a", uni(C("R"), C("S")))]),
    }, ["L", "M", "N"]),
    ModelGrammar("deep non-recursive chain with a concrete start symbol", "Top", {
        "Top": ("concrete", None, [("m", C("Mid")), ("k", INT)]), "Mid": ("concrete", None, [("b", lst(C("Bot")))]),
        "Bot": ("abstract", None, []), "B1": ("concrete", "Bot", [("v", INT)]), "B2": ("concrete", "Bot", [("w", C("B1"))]),
    }, ["Mid", "B1", "B2"]),
    ModelGrammar("a cycle through five abstract stages (each stage also has a leaf)", "S1", dict(
        [(f"S{i}", ("abstract", None, [])) for i in range(1, 6)]
        + [(f"P{i}", ("concrete", f"S{i}", [("x", C(f"S{i % 5 + 1}"))])) for i in range(1, 6)]
        + [(f"Z{i}", ("concrete", f"S{i}", [])) for i in range(1, 6)]),
        [f"P{i}" for i in range(1, 6)] + [f"Z{i}" for i in range(1, 6)]),
    ModelGrammar("a cycle through five abstract stages, named against the iteration order", "V5", dict(
        [(f"V{i}", ("abstract", None, [])) for i in range(1, 6)]
        + [(f"Q{i}", ("concrete", f"V{i}", [("x", C(f"V{(i - 2) % 5 + 1}"))])) for i in range(1, 6)]
        + [(f"Y{i}", ("concrete", f"V{i}", [("v", INT)])) for i in range(1, 6)]),
        [f"Y{i}" for i in range(5, 0, -1)] + [f"Q{i}" for i in range(5, 0, -1)]),
    ModelGrammar("self recursion through an annotated list and a list of annotated", "T", {
        "T": ("abstract", None, []), "Nil": ("concrete", "T", []),
        "Cons": ("concrete", "T", [("kids", lst(ann(C("T"))))]), "Wrap": ("concrete", "T", [("k", ann(lst(C("Nil")), "MHL"))]),
    }, ["Nil", "Cons", "Wrap"]),
]


def generated_family(count: int, seed: int = 0) -> list:
    """a reproducible sample of small class hierarchies: 1-3 abstract types (nested or independent), 2-5 productions with 0-2
    fields drawn from int, a symbol, list[symbol], Annotated[int], Annotated[symbol], Annotated[list[symbol]], list[Annotated[symbol]],
    Union[symbol, symbol], plus sometimes an unreachable supplied class; the supplied order is shuffled.  Kept are the grammars
    in which every registered symbol is productive and every union has members of equal minimum depth (unequal members are
    the known union finding)."""
    import random as _r
    rnd = _r.Random(1000 + seed)
    out: list = []
    tries = 0
    while len(out) < count and tries < count * 40:
        tries += 1
        na = rnd.randint(1, 3)
        abs_ = [f"A{i}" for i in range(na)]
        classes: dict = {}
        for i, a in enumerate(abs_):
            parent = rnd.choice([None] + abs_[:i]) if i else None
            classes[a] = ("abstract", parent, [])
        npd = rnd.randint(2, 5)
        prods = [f"P{i}" for i in range(npd)]
        symbols = abs_ + prods

        def field_type():
            k = rnd.randint(0, 9)
            s_ = C(rnd.choice(symbols))
            if k <= 1:
                return INT
            if k == 2:
                return ann(INT)
            if k == 3:
                return lst(s_)
            if k == 4:
                return ann(s_)
            if k == 5:
                return ann(lst(s_), "MHL")
            if k == 6:
                return lst(ann(s_))
            if k == 7:
                return uni(s_, C(rnd.choice(symbols)))
            return s_
        for i, p_ in enumerate(prods):
            parent = rnd.choice(abs_) if i < na or rnd.random() < 0.8 else None
            if i < na:
                parent = abs_[i]            # every abstract type has a production
            fields = [(f"f{j}", field_type()) for j in range(rnd.choice([0, 1, 1, 2, 2]))]
            classes[p_] = ("concrete", parent, fields)
        supplied = abs_[1:] + prods
        if rnd.random() < 0.3:
            classes["Zun"] = ("concrete", None, [("v", INT)])
            supplied.append("Zun")
        rnd.shuffle(supplied)
        g = ModelGrammar(f"generated #{len(out)} (seed {seed})", "A0", classes, supplied)
        ok = True
        for e in (0, 1):
            ref = reference(g, e)
            if any(v >= INF for v in ref["distance"].values()):
                ok = False
                break
            D = ref["distance"]

            def dist(t):
                if t.kind == "builtin":
                    return e
                if t.kind == "class":
                    return D.get(t.name, INF)
                if t.kind == "list":
                    return e + dist(t.args[0])
                if t.kind == "annotated":
                    return dist(t.args[0])
                return e + min(dist(a) for a in t.args)
            for n_ in ref["registered"]:
                for _, ft in classes[n_][2]:
                    for u in [ft] + [a for a in (ft.args or ()) if isinstance(a, TypeV)]:
                        if u.kind == "union" and len({dist(a) for a in u.args}) != 1:
                            ok = False
        if ok:
            out.append(g)
    return out


# ---------------------------------------------------------------------------------------------- reference (specification)
def reference(g: ModelGrammar, e: int) -> dict:
    """what the analysis must report for the model grammar; e = 1 in expansion-depthing mode"""
    # --- registration closure: start; parents; field types; supplied subclasses of anything registered
    reg: list = []
    alts: dict = {}
    supplied = list(g.supplied)

    def register(n: str):
        if n in reg:
            return
        reg.append(n)
        kind, parent, fields = g.classes[n]
        if parent is not None:
            register(parent)
            alts.setdefault(parent, [])
            if n not in alts[parent]:
                alts[parent].append(n)
        if kind != "abstract":
            for _, ft in fields:
                for c_ in _inner_classes(ft):
                    register(c_)
        for s in supplied:
            if s in g.subclasses(n):
                register(s)

    register(g.start)
    # --- minimum depths (least fixpoint)
    D = {n: INF for n in reg}

    def dist(t: TypeV) -> int:
        if t.kind == "builtin":
            return e                     # base types: 0 in the default mode, 1 when every expansion counts
        if t.kind == "class":
            return D[t.name]
        if t.kind == "list":
            return min(INF, e + dist(t.args[0]))
        if t.kind == "annotated":
            return dist(t.args[0])
        if t.kind == "union":
            return min(INF, e + min(dist(a) for a in t.args))     # choosing a member is an expansion
        if t.kind == "tuple":
            return min(INF, e + max(dist(a) for a in t.args))     # every member is built
        raise AssertionError(t)

    changed = True
    while changed:
        changed = False
        for n in reg:
            kind, parent, fields = g.classes[n]
            if kind == "abstract":
                v = min([INF] + [min(INF, e + D[p]) for p in alts.get(n, [])])
            elif not fields:
                v = 1
            else:
                v = min(INF, max(1 + dist(ft) for _, ft in fields))
            if v < D[n]:
                D[n] = v
                changed = True
    # --- recursion: n derives a program containing n
    succ = {n: set() for n in reg}
    for n in reg:
        kind, parent, fields = g.classes[n]
        if kind == "abstract":
            succ[n] |= set(alts.get(n, []))
        else:
            for _, ft in fields:
                succ[n] |= set(_inner_classes(ft))
    rec = set()
    for n in reg:
        seen, todo = set(), list(succ[n])
        while todo:
            x = todo.pop()
            if x in seen:
                continue
            seen.add(x)
            todo += list(succ.get(x, ()))
        if n in seen:
            rec.add(n)
    # --- abstract hops
    hops: dict = {}
    for n in reg:
        if g.classes[n][0] != "abstract" or n not in alts:
            continue
        d_, frontier, k = {}, list(alts[n]), 1
        while frontier:
            nxt = []
            for p in frontier:
                if p not in d_:
                    d_[p] = k
                    nxt += alts.get(p, [])
            frontier, k = nxt, k + 1
        hops[n] = d_
    reach, todo = set(), [g.start]
    while todo:
        x = todo.pop()
        if x in reach:
            continue
        reach.add(x)
        todo += list(succ.get(x, ()))
    return {"registered": reg, "alternatives": alts, "distance": D, "recursive": rec, "hops": hops, "reachable": reach}


# ---------------------------------------------------------------------------------------------- interpretation
def _table() -> DDict:
    t = DDict()

    def inner():
        d = DDict()
        d.factory = lambda: INF
        return d
    t.factory = inner
    return t


def interpret(ctx, g: ModelGrammar, e: int) -> tuple[Optional[dict], str]:
    """(tables after Grammar.__init__; register_type(start); preprocess(), '') or (None, why it could not be followed)"""
    prog = ctx.prog
    gcls = prog.classes.get(GRAMMAR)
    if gcls is None:
        raise AnalysisError("anchor class missing: Grammar")
    init, reg, pre = (gcls.methods.get(n) for n in ("__init__", "register_type", "preprocess"))
    if init is None or reg is None or pre is None:
        raise AnalysisError("anchor function missing: Grammar.__init__ / register_type / preprocess")

    def cname(v: Any) -> Optional[str]:
        return v.name if isinstance(v, TypeV) and v.kind == "class" and v.name in g.classes else None

    def call_model(it, call, env, args, kwargs):
        nm = call_name(call)
        if nm == "is_abstract" and len(args) == 1:
            n = cname(args[0])
            return g.is_abstract(n) if n else False
        if nm == "get_arguments" and len(args) == 1:
            n = cname(args[0])
            return [[a, t] for a, t in g.classes[n][2]] if n else []
        if nm == "mro" and isinstance(call.func, ast.Attribute):
            n = cname(it.ev(call.func.value, env, 9))
            if n is None:
                return [it.ev(call.func.value, env, 9), OBJECT]
            chain = [C(k) for k in g.linearisation(n)]
            if any(g.is_abstract(k.name) for k in chain):
                chain.append(ABC_T)
            return chain + [OBJECT]
        if nm == "__subclasses__" and isinstance(call.func, ast.Attribute) and len(args) == 1 and cname(args[0]) is not None:
            return [C(k) for k in g.classes if cname(args[0]) in g.bases(k)]          # type.__subclasses__(cls)
        if nm == "__subclasses__" and isinstance(call.func, ast.Attribute) and not args:
            n = cname(it.ev(call.func.value, env, 9))
            if n is not None:
                return [C(k) for k in g.classes if n in g.bases(k)]
        if nm == "issubclass" and len(args) == 2:
            a, b = cname(args[0]), cname(args[1])
            if a is None:
                return False
            return b is not None and a in g.subclasses(b)
        if nm == "isinstance" and len(args) == 2 and isinstance(args[0], TypeV):
            return args[0].kind in ("class", "builtin")      # isinstance(t, type) / ABCMeta: plain classes only
        if nm in ("get_gengy",):
            return {}
        if nm in ("all_init_arguments_typed",):
            return True
        if nm in ("warn", "getmembers"):
            return _NONE if nm == "warn" else []
        return None

    def atom(it, e_, env):
        # 'parent not in [object, ABC, Generic, int, ...]': ABC / Generic are names of the abc / typing modules
        if isinstance(e_, ast.Name) and e_.id in ("ABC", "Generic", "ABCMeta", "Protocol") and e_.id not in env:
            return ABC_T if e_.id == "ABC" else TypeV("class", e_.id)
        # class reflection spelled as attributes: the direct bases / the linearisation / the name of a model class
        if isinstance(e_, ast.Attribute) and e_.attr in ("__bases__", "__mro__", "__name__", "__qualname__"):
            v_ = it.ev(e_.value, env, 9)
            n = cname(v_)
            if n is None and isinstance(v_, TypeV) and v_.kind in ("builtin", "class") and e_.attr in ("__bases__", "__mro__"):
                return [OBJECT] if e_.attr == "__bases__" else [v_, OBJECT]       # int, str, ...: plain classes below object
            if n is not None:
                if e_.attr in ("__name__", "__qualname__"):
                    return n
                if e_.attr == "__bases__":
                    return [C(b) for b in g.bases(n)] or [ABC_T if g.is_abstract(n) else OBJECT]
                chain = [C(k) for k in g.linearisation(n)]
                if any(g.is_abstract(k.name) for k in chain):
                    chain.append(ABC_T)
                return chain + [OBJECT]
        return None

    def mk():
        it = Interp(prog, gcls, atom, call_model, max_depth=40, max_traces=4)
        it.allow_recursion = True
        it.instantiate_classes = True
        it.strict_iter = True
        it.while_cap = 24
        return it

    def one(fn, env) -> tuple[Optional[dict], str]:
        it = mk()
        try:
            runs = it.run(fn, env)
        except Budget:
            return None, f"{fn.name}: open conditions (the model does not determine the branch at {it.fork_sites[:2]})"
        if len(runs) != 1:
            return None, f"{fn.name}: {len(runs)} interpretations (the model does not determine the branch at {it.fork_sites[:2]})"
        trace, rv, notes = runs[0]
        raised = [x for x in trace if x.kind == "raise"]
        if raised:
            return None, f"RAISES {fn.name}: {raised[0].name}"
        if notes:
            return None, f"{fn.name}: {notes[0]}"
        return {k: v for k, v in it.envs[0].items() if k == "self" or k.startswith("self.")}, ""

    p = init.params
    env = {"self": Sym("self"), p[1]: C(g.start), p[2]: [C(n) for n in g.supplied]}
    if len(p) > 3:
        env[p[3]] = bool(e)
    st, why = one(init, env)
    if st is None:
        return None, why
    if not isinstance(st.get("self.abstract_dist_to_t"), DDict):
        st["self.abstract_dist_to_t"] = _table()
    st2, why = one(reg, dict(st, **{reg.params[1]: C(g.start)}))
    if st2 is None:
        return None, why
    st3, why = one(pre, dict(st2))
    if st3 is None:
        return None, why
    # the reachable sub-grammar: what usable_grammar hands to extract_grammar
    ug = gcls.methods.get("usable_grammar")
    nested = any(isinstance(a, TypeV) and a.kind != "class" and a.kind != "builtin" for _, _, fs in g.classes.values() for _, ft in fs
                 for a in (ft.args or ()))
    if ug is not None and not nested:
        captured: list = []

        def cm2(it, call, env, args, kwargs):
            nm = call_name(call)
            if nm == "extract_grammar":
                captured.append([list(a) if isinstance(a, list) else a for a in args])
                return Sym("grammar")
            if nm == "is_dataclass" and len(args) == 1:
                return cname(args[0]) is not None and not g.is_abstract(cname(args[0]))
            return call_model(it, call, env, args, kwargs)
        it = Interp(prog, gcls, atom, cm2, max_depth=40, max_traces=4)
        it.allow_recursion = True
        it.while_cap = 40
        try:
            runs = it.run(ug, dict(st3))
            if len(runs) == 1 and not runs[0][2]:
                raised = [x for x in runs[0][0] if x.kind == "raise"]
                st3["usable"] = ("RAISES " + raised[0].name) if raised else (captured[0] if len(captured) == 1 else None)
        except Budget:
            pass
    return st3, ""


def names(v: Any) -> Any:
    if isinstance(v, TypeV):
        return v.name
    if isinstance(v, (list, tuple)):
        return [names(x) for x in v]
    if isinstance(v, set):
        return {names(x) for x in v}
    if isinstance(v, dict):
        return {names(k): names(x) for k, x in v.items()}
    return v


def tup(*ts: TypeV) -> TypeV:
    return TypeV("tuple", f"tuple[{', '.join(t.name for t in ts)}]", tuple(ts))


def wrapper_family() -> list:
    """S -> P(f: W) | Z, T -> Z2: the only way from S back to S passes through the wrapper type W, for fourteen nested forms"""
    S, T = C("S"), C("T")
    forms = [lst(S), ann(S), uni(S, T), tup(S, T), ann(lst(S), "MHL"), lst(ann(S)), uni(lst(S), T), tup(lst(S), T), lst(tup(S, T)),
             lst(uni(S, T)), ann(lst(uni(S, T)), "MHL"), ann(uni(S, T)), lst(lst(S)), uni(ann(S), T)]
    out = []
    for w in forms:
        out.append(ModelGrammar(f"recursion only through a field of type {w.name.replace('S', 'A').replace('T', 'B')}", "S", {
            "S": ("abstract", None, []), "T": ("abstract", None, []),
            "P": ("concrete", "S", [("f", w)]), "Z": ("concrete", "S", []), "Z2": ("concrete", "T", []),
        }, ["P", "Z", "Z2"]))
    return out


def wrapper_rule(ctx, rid: str) -> int:
    """the recursive set sees through every wrapper form: one obligation per nested wrapper type (default depth mode)"""
    gcls = ctx.prog.classes.get(GRAMMAR)
    pre = gcls.methods.get("preprocess") if gcls else None
    n = 0
    for g in wrapper_family():
        n += 1
        st, why = interpret(ctx, g, 0)
        wname = g.name.split("type ", 1)[1]
        construct = f"the reachability relation reaches the symbols inside {wname}"
        if st is None:
            fails = why.startswith("RAISES")
            ctx.ob(rid, pre, pre.node if pre else None, construct, False if fails else None,
                   f"the analysis fails on a grammar with such a field ({why[7:]})" if fails else f"not followed: {why}", witness={"type": wname})
            continue
        ok, detail = compare(g, st, reference(g, 0), "recursive")
        ctx.ob(rid, pre, pre.node if pre else None, construct, ok,
               "" if ok else f"a production whose only way back to its own symbol passes through a field of type {wname}: {detail} - the symbols inside "
                             f"that wrapper are not seen by the recursion analysis", witness={"type": wname})
    return n


ASPECTS = {
    "productions": "every registered abstract type lists exactly its direct subtypes among the supplied classes",
    "distance": "the minimum depth reported for every symbol is the depth of the shallowest derivable program",
    "recursive": "the symbols reported as recursive are exactly those that derive a program containing themselves",
    "usable": "the reachable sub-grammar is built from exactly the symbols reachable from the start symbol",
    "hops": "the abstract-expansion table holds the length of the shortest chain of abstract expansions to every production beneath",
}


def analysis_rule(ctx, rid: str, aspects: tuple, modes: tuple = (0, 1)) -> int:
    """one obligation per (model grammar, depth mode, aspect)"""
    cache = ctx.__dict__.setdefault("_grammodel_cache", {})
    gcls = ctx.prog.classes.get(GRAMMAR)
    pre = gcls.methods.get("preprocess") if gcls else None
    n = 0
    fam = list(FAMILY)
    if getattr(ctx, "tier", "quick") == "thorough":
        import os
        fam += generated_family(160, int(os.environ.get("VERIF_SEED", "0") or 0))
    for g in fam:
        for e in modes:
            key = (g.name, e)
            if key not in cache:
                cache[key] = interpret(ctx, g, e)
            st, why = cache[key]
            ref = reference(g, e)
            for asp in aspects:
                if asp == "usable" and (e != 0 or (st is not None and "usable" not in st)):
                    continue      # mode-independent; grammars with nested wrappers are the known usable_grammar finding (C05.R1)
                n += 1
                construct = f"model grammar '{g.name}' [expansion_depthing={bool(e)}]: {asp}"
                if st is None:
                    fails = why.startswith("RAISES")
                    ctx.ob(rid, pre, pre.node if pre else None, construct, False if fails else None,
                           (f"the analysis fails on this grammar ({why[7:]})" if fails else f"not followed: {why}"), witness={"grammar": g.name})
                    continue
                ok, detail = compare(g, st, ref, asp)
                ctx.ob(rid, pre, pre.node if pre else None, construct, ok, detail, witness={"grammar": g.name, "mode": e})
    return n


def compare(g: ModelGrammar, st: dict, ref: dict, asp: str) -> tuple[Optional[bool], str]:
    if asp == "productions":
        got = names(st.get("self.alternatives"))
        if not isinstance(got, dict):
            return None, "the table of productions is not followed"
        got = {k: sorted(v) for k, v in got.items() if isinstance(v, list)}
        want = {k: sorted(v) for k, v in ref["alternatives"].items()}
        if got == want:
            return True, ""
        k = next(k for k in sorted(set(got) | set(want)) if got.get(k) != want.get(k))
        return False, f"productions of {k}: reported {got.get(k)}, its direct subtypes among the supplied classes are {want.get(k)}"
    if asp == "distance":
        got = names(st.get("self.distanceToTerminal"))
        if not isinstance(got, dict):
            return None, "the distance table is not followed"
        for k, w in sorted(ref["distance"].items()):
            v = got.get(k)
            if not isinstance(v, int):
                return None, f"distance of {k} is not a number in the model ({v!r})"
            if v != w:
                return False, (f"minimum depth of {k}: reported {v}, the shallowest program derivable from it has depth {w} "
                               f"({'deeper programs are rejected as infeasible / valid limits refused' if v > w else 'a limit below the real minimum is accepted and creation fails'})")
        return True, ""
    if asp == "recursive":
        got = names(st.get("self.recursive_prods"))
        if not isinstance(got, set):
            return None, "the recursive set is not followed"
        got = {x for x in got if x in g.classes}
        if got == ref["recursive"]:
            return True, ""
        miss, extra = sorted(ref["recursive"] - got), sorted(got - ref["recursive"])
        return False, ("recursive symbols: " + (f"{miss} derive themselves but are not reported" if miss else "")
                       + (" ; " if miss and extra else "") + (f"{extra} are reported but cannot derive themselves" if extra else ""))
    if asp == "usable":
        u = st.get("usable")
        if u is None:
            return None, "usable_grammar is not followed on this grammar"
        if isinstance(u, str):
            return False, f"usable_grammar fails on this grammar ({u[7:]})"
        syms_ = u[0] if u and isinstance(u[0], list) else None
        if syms_ is None:
            return None, "what usable_grammar hands to extract_grammar is not followed"
        got = {x.name for x in syms_ if isinstance(x, TypeV) and x.kind == "class"}
        if got != ref["reachable"]:
            miss, extra = sorted(ref["reachable"] - got), sorted(got - ref["reachable"])
            return False, ("the reachable sub-grammar " + (f"lacks {miss}, reachable from the start symbol" if miss else "")
                           + (" and " if miss and extra else "") + (f"contains {extra}, not reachable from the start symbol" if extra else ""))
        start_ok = len(u) > 1 and isinstance(u[1], TypeV) and u[1].name == g.start
        return (True, "") if start_ok else (False, f"the reachable sub-grammar is rooted at {u[1] if len(u) > 1 else '?'!r}, not at the start symbol")
    if asp == "hops":
        got = names(st.get("self.abstract_dist_to_t"))
        if not isinstance(got, dict):
            return None, "the abstract-expansion table is not followed"
        for a, row in sorted(ref["hops"].items()):
            grow = got.get(a, {})
            for p_, w in sorted(row.items()):
                v = grow.get(p_, INF) if isinstance(grow, dict) else None
                if v != w:
                    return False, (f"abstract expansions from {a} to {p_}: the table holds {v}, the shortest chain has {w} "
                                   f"(node metadata in expansion-depthing mode adds this value)")
        return True, ""
    raise AssertionError(asp)
