"""C08 - same seed, same search: reproducible within and across processes (structural clauses)."""
from __future__ import annotations

import ast
from typing import Optional

from ..astutil import call_name, is_self_attr
from ..frontend import AnalysisError, FunctionInfo, ancestors, dotted, enclosing_stmt, norm, parent, walk_local
from ..mutation import MutationAnalysis
from ..report import Ctx
from .common import RANDOM_SOURCE

LEVEL_TEXT = (
    "Static rules over the whole package: (R1) every iteration of a set-typed expression (mypy types; sets of "
    "classes iterate in address order, which differs between processes) is classified by its consumer: "
    "reductions, set building, membership and commutative loop bodies are order-insensitive; anything that fixes "
    "positions (list(), list comprehension, append, yield, a random draw per element) is order-sensitive and a "
    "finding unless it is one of the sites confirmed insensitive by reading (frozen table, one reason each); the "
    "accepted fixpoint over the symbol set in preprocess is insensitive only if complete: every 'something "
    "changed' report inside a 'while <flag>' loop over that set (a smaller value stored, a helper returning "
    "whether it changed anything) must feed the loop flag; (R2) the seeded source draws only from a private "
    "random.Random(seed); (R3) no call of a process-global RNG, clock, uuid/urandom, no id()/hash() in a value "
    "position outside the allow-listed timing/logging sites, and no enumeration of type.__subclasses__() (class-"
    "definition order is the order modules were imported in); (R4) no function writes module-level or class-level"
    " state (caches, counters; a container created in a class body and modified through self unless every "
    "instance's constructor replaces it) and no parameter default is a shared stateful object, (R5) no method of "
    "a population initializer other than its constructor stores into the initializer, into a container it was "
    "built around (the caller's list of programs) or into an element of one (may-mutate analysis with self as "
    "owned root), so nothing carries over from one search to the next in a process. Equality of two whole runs is"
    " an execution and is not decided."
)

# iteration sites over sets confirmed order-insensitive by reading: (function qualname, iterable text) -> reason
ACCEPTED_SET_ITER = {
    ("Grammar.preprocess", "all_sym"): "monotone min/max fixpoint and reachability closure: the result is independent of visiting order",
    ("Grammar.get_weights", "self.all_nodes"): "builds a dict used only for keyed lookups and per-rule sums; the dict itself is never enumerated to draw",
    ("Grammar.get_grammar_properties_summary", "self.non_terminals"): "the list is used for membership tests only",
    ("Grammar.get_grammar_properties_summary", "self.recursive_prods"): "only its length is used",
    ("DynamicSGEDecider.__init__", "grammar.all_nodes"): "builds a dict of per-type cursors accessed by key only",
    ("create_arbitrary_grammar", "base_types"): "synthetic benchmark-grammar generator driven by its own random.Random(seed); it is not "
                                                "part of any search (grammars are built before a search starts)",
}
TIME_ALLOW = {
    "geneticengine.evaluation.tracker:ProgressTracker.__init__": "start of the wall-clock used by TimeBudget and the timing column",
    "geneticengine.evaluation.tracker:ProgressTracker.get_elapsed_time": "wall-clock budgets are excepted by the statement",
    "geneticengine.evaluation.recorder:CSVSearchRecorder.__init__": "the 'Execution Time' column reports wall-clock by design",
}
GLOBAL_WRITE_ALLOW = {
    "geneticengine.grammar.decorators:get_gengy": "creates an empty per-class __gengy__ dict on first use (idempotent, no information carried)",
    "geneticengine.grammar.decorators:abstract": "declaration-time decorator",
    "geneticengine.grammar.decorators:weight.<locals>.weight_w": "declaration-time decorator",
    "geneticengine.grammar.grammar:Grammar.update_weights": "grammar construction writes normalised weights back to the classes (C19)",
}
REDUCTIONS = {"max", "min", "sum", "len", "any", "all", "set", "frozenset", "sorted", "Counter"}


def set_typed(ctx: Ctx, fn: FunctionInfo, e: ast.AST) -> bool:
    t = ctx.types.of(fn.module, e)
    return any(i.fn in ("builtins.set", "builtins.frozenset", "typing.AbstractSet", "typing.Set", "typing.FrozenSet") for i in t.instances()) \
        or (t.k == "instance" and t.fn in ("builtins.set", "builtins.frozenset"))


def classify_consumer(ctx: Ctx, fn: FunctionInfo, it: ast.AST) -> tuple[str, str, ast.AST]:
    """('insensitive'|'sensitive', why, node) for the construct that iterates the set expression *it*"""
    p = parent(it)
    # generator of a comprehension
    if isinstance(p, ast.comprehension) and p.iter is it:
        comp = parent(p)
        if isinstance(comp, ast.SetComp):
            return "insensitive", "builds a set", comp
        if isinstance(comp, ast.DictComp):
            return "insensitive", "builds a dict keyed by the elements (keyed access)", comp
        if isinstance(comp, (ast.GeneratorExp, ast.ListComp)):
            user = parent(comp)
            if isinstance(user, ast.Call) and call_name(user) in REDUCTIONS and comp in user.args:
                return "insensitive", f"reduced by {call_name(user)}()", comp
            if isinstance(user, ast.Call) and call_name(user) in ("list", "tuple", "map") and isinstance(parent(user), ast.Call) \
                    and call_name(parent(user)) in REDUCTIONS:
                return "insensitive", f"reduced by {call_name(parent(user))}()", comp
            draws = [c for c in ast.walk(comp) if isinstance(c, ast.Call) and call_name(c) in ("randint", "random_bool", "choice", "random_float", "choice_weighted")]
            return "sensitive", "a list / generator fixes the elements' positions" + (" and draws per element" if draws else ""), comp
    if isinstance(p, (ast.For, ast.AsyncFor)) and p.iter is it:
        eff = _loop_effects(p)
        if eff:
            return "sensitive", f"the loop body {eff}", p
        return "insensitive", "loop body only adds to sets / stores by key / tests membership", p
    if isinstance(p, ast.Call) and it in p.args:
        nm = call_name(p)
        if nm in REDUCTIONS:
            return "insensitive", f"{nm}()", p
        if nm in ("list", "tuple", "enumerate", "iter", "next", "zip", "map", "filter", "choice", "shuffle", "deque", "join"):
            up, cur = parent(p), p
            # position-preserving wrappers between the iteration and its consumer (chain.from_iterable(map(f, S)) flattens in the same order)
            while isinstance(up, ast.Call) and call_name(up) in ("list", "tuple", "map", "filter", "from_iterable", "chain", "iter") and cur in up.args \
                    and nm in ("list", "tuple", "map", "filter"):
                cur, up = up, parent(up)
            if isinstance(up, ast.Call) and call_name(up) in REDUCTIONS and nm in ("list", "tuple", "map", "filter"):
                return "insensitive", f"reduced by {call_name(up)}()", p
            return "sensitive", f"{nm}() fixes the elements' positions", p
        return "insensitive", f"passed to {nm}()", p
    if isinstance(p, ast.Starred):
        return "sensitive", "unpacked positionally", p
    if isinstance(p, ast.Attribute) and p.attr == "pop" and isinstance(parent(p), ast.Call):
        return "sensitive", "set.pop() returns an address-dependent element", parent(p)
    return "insensitive", "not iterated", it


def _loop_effects(loop: ast.For) -> str:
    for n in ast.walk(ast.Module(body=loop.body, type_ignores=[])):
        if isinstance(n, (ast.Yield, ast.YieldFrom)):
            return "yields per element"
        if isinstance(n, ast.Call):
            nm = call_name(n)
            if nm in ("append", "extend", "insert") and isinstance(n.func, ast.Attribute):
                return f"{nm}s to a list per element"
            if nm in ("randint", "random_bool", "choice", "random_float", "choice_weighted", "shuffle"):
                return "draws from the random source per element"
        if isinstance(n, ast.Return) and n.value is not None:
            return "returns on the first matching element"
        if isinstance(n, ast.Break):
            return "stops at the first matching element"
    return ""


def rule_r1(ctx: Ctx) -> None:
    prog = ctx.prog
    n = 0
    for f in sorted(prog.functions.values(), key=lambda x: x.fullname):
        if f.parent is not None:
            continue
        for e in walk_local(f.node, include_nested=True):
            if not isinstance(e, (ast.Name, ast.Attribute, ast.Call, ast.BinOp, ast.Subscript)):
                continue
            p = parent(e)
            iterated = (isinstance(p, ast.comprehension) and p.iter is e) or (isinstance(p, (ast.For, ast.AsyncFor)) and p.iter is e) \
                or (isinstance(p, ast.Call) and e in p.args and call_name(p) in ("list", "tuple", "enumerate", "iter", "next", "zip", "map", "filter", "sorted", "max", "min", "sum", "any", "all", "len", "join")) \
                or isinstance(p, ast.Starred) or (isinstance(p, ast.Attribute) and p.attr == "pop")
            if not iterated or not set_typed(ctx, f, e):
                continue
            if isinstance(p, ast.Call) and call_name(p) == "len":
                continue
            n += 1
            kind, why, node = classify_consumer(ctx, f, e)
            key = (f.qualname.split(".<locals>")[0], norm(e))
            construct = f"iteration of set {norm(e)[:40]}: {why}"[:140]
            if kind == "insensitive":
                ctx.ob("C08.R1", f, node, construct, True, "")
            elif ACCEPTED_SET_ITER.get(key):
                ctx.accept("C08.R1", f"{f.loc(node)} {norm(e)}", ACCEPTED_SET_ITER[key])
                ctx.ob("C08.R1", f, node, construct, True, "accepted: " + ACCEPTED_SET_ITER[key])

            else:
                ctx.ob("C08.R1", f, node, construct, False,
                       f"'{norm(node)[:70]}' consumes the set '{norm(e)}' in iteration order ({why}); sets of classes iterate in "
                       f"address order, which differs from process to process, so the same seed gives different results in "
                       f"different processes")
    ctx.floor("C08.R1", n, 8, "iteration sites over set-typed expressions")
    # fixpoint loops over sets: order-insensitivity of their result rests on running to the fixpoint
    nfix = 0
    for (fname, setname), reason in ACCEPTED_SET_ITER.items():
        if "fixpoint" not in reason:
            continue
        for f in prog.functions.values():
            if f.qualname != fname:
                continue
            for loop in [w for w in walk_local(f.node) if isinstance(w, ast.While) and isinstance(w.test, ast.Name)]:
                if any(isinstance(x, ast.For) and norm(x.iter) == setname for b in loop.body for x in ast.walk(b)):
                    nfix += 1
                    _fixpoint_complete(ctx, f, loop)
    ctx.floor("C08.R1", nfix, 1, "fixpoint loops over a set of symbols")


def _flag_returning(g: FunctionInfo) -> bool:
    """does *g* return a 'something changed' flag: a local that starts False and is set True / or-ed in the body?"""
    rets = [r for r in walk_local(g.node) if isinstance(r, ast.Return) and isinstance(r.value, ast.Name)]
    for r in rets:
        nm = r.value.id
        starts = any(isinstance(a, ast.Assign) and isinstance(a.targets[0], ast.Name) and a.targets[0].id == nm
                     and isinstance(a.value, ast.Constant) and a.value.value is False for a in walk_local(g.node))
        grows = any((isinstance(a, ast.AugAssign) and isinstance(a.target, ast.Name) and a.target.id == nm and isinstance(a.op, ast.BitOr))
                    or (isinstance(a, ast.Assign) and isinstance(a.targets[0], ast.Name) and a.targets[0].id == nm
                        and isinstance(a.value, ast.Constant) and a.value.value is True) for a in walk_local(g.node))
        if starts and grows:
            return True
    return False


def _fixpoint_complete(ctx: Ctx, f: FunctionInfo, site: ast.AST) -> None:
    """An order-insensitive set iteration is accepted only inside a loop that really runs to a fixpoint: every helper called
    in the body that reports 'something changed' must have that report accumulated into the loop's continuation flag -
    otherwise the loop can stop with an incomplete closure, and how far it got depends on the set's iteration order."""
    loop = site
    flag = loop.test.id
    dropped = []
    nflag = 0
    for c in [x for b in loop.body for x in ast.walk(b) if isinstance(x, ast.Call)]:
        t = ctx.res.resolve(ctx.prog.function_containing(c) or f, c)
        g = None
        if t.kind == "repo" and t.targets:
            g = t.targets[0]
        elif isinstance(c.func, ast.Name):
            g = ctx.res._local_def(f, c.func.id)
        if g is None or not _flag_returning(g):
            continue
        nflag += 1
        st = enclosing_stmt(c)
        used = (isinstance(st, ast.AugAssign) and isinstance(st.target, ast.Name) and st.target.id == flag and isinstance(st.op, ast.BitOr)) \
            or (isinstance(st, ast.Assign) and isinstance(st.targets[0], ast.Name) and st.targets[0].id == flag
                and flag in {n_.id for n_ in ast.walk(st.value) if isinstance(n_, ast.Name)}) \
            or (isinstance(st, ast.If) and any(isinstance(a, ast.Assign) and isinstance(a.targets[0], ast.Name) and a.targets[0].id == flag
                                              for a in ast.walk(st)))
        if not used:
            dropped.append(c)
    ctx.ob("C08.R1", f, dropped[0] if dropped else loop, f"{f.name}: every 'something changed' report in the fixpoint loop feeds the loop flag '{flag}'",
           not dropped, "" if not dropped else
           f"'{norm(dropped[0])[:60]}' returns whether its closure grew, but the result is dropped: the loop over the set can stop before "
           f"the closure is complete, and how far it got depends on the set's iteration order (class addresses), so recursive_prods - and "
           f"every decider that consults it - differs between processes for the same seed", witness={"flag_returning_calls": nflag})


def rule_r2(ctx: Ctx) -> None:
    from .c18 import rule_r4 as seeded_source
    before = len(ctx.obligations)
    seeded_source(ctx)
    for o in ctx.obligations[before:]:
        o.rule = "C08.R2"


AMBIENT = ("random.", "numpy.random", "np.random", "time.", "os.urandom", "uuid.", "secrets.", "datetime.")


def _time_allow_key(ctx: Ctx, f: FunctionInfo) -> str:
    """the allow-list key for a clock read in *f*: recorders only log, so the clock may be read anywhere in a SearchRecorder
    subclass (helper methods included) under the recorder's entry"""
    top = f
    while top.parent is not None:
        top = top.parent
    base = top.fullname
    owner = ctx.res.enclosing_class(top)
    if owner is not None and ctx.prog.is_subclass(owner, "geneticengine.evaluation.recorder.SearchRecorder") and owner.name == "CSVSearchRecorder":
        return "geneticengine.evaluation.recorder:CSVSearchRecorder.__init__"
    rec = ctx.prog.classes.get("geneticengine.evaluation.recorder.CSVSearchRecorder")
    if owner is None and rec is not None and top.module is rec.module:
        # a module-level helper of the recorder module that only the recorder module itself calls (e.g. the default column table)
        callers = [g for g in ctx.prog.functions.values() for c in walk_local(g.node, include_nested=True)
                   if isinstance(c, ast.Call) and call_name(c) == top.name]
        # ... or that is only mentioned (as a column extractor in a table of the recorder module) and never imported elsewhere
        mentioned_here = any(isinstance(x, ast.Name) and x.id == top.name and isinstance(x.ctx, ast.Load) for x in ast.walk(rec.module.tree))
        imported_elsewhere = any(mod is not rec.module and any(isinstance(x, ast.ImportFrom) and any(a.name == top.name for a in x.names) for x in ast.walk(mod.tree))
                                 for mod in ctx.prog.modules.values())
        if (callers and all(g.module is rec.module for g in callers)) or (not callers and mentioned_here and not imported_elsewhere):
            return "geneticengine.evaluation.recorder:CSVSearchRecorder.__init__"
    return base


def rule_r3(ctx: Ctx) -> None:
    prog, res = ctx.prog, ctx.res
    n = 0
    for f in sorted(prog.functions.values(), key=lambda x: x.fullname):
        owner = res.enclosing_class(f)
        if owner is not None and prog.is_subclass(owner, RANDOM_SOURCE):
            continue  # the seeded source itself is R2
        for c in walk_local(f.node, include_nested=True):
            if not isinstance(c, ast.Call):
                continue
            if (prog.function_containing(c) or f) is not f:
                continue  # belongs to a nested def, visited on its own
            t = res.resolve(f, c)
            nm = t.name if t.kind in ("external", "builtin") else ""
            base = _time_allow_key(ctx, f)
            if t.kind == "external" and (nm.startswith(AMBIENT) and not nm.startswith("random.Random") or nm in ("time.monotonic_ns", "time.time", "time.monotonic", "time.perf_counter")):
                n += 1
                ok = base in TIME_ALLOW and nm.startswith("time.")
                if ok:
                    ctx.accept("C08.R3", f.loc(c), TIME_ALLOW[base])
                ctx.ob("C08.R3", f, c, f"ambient source {nm}", ok,
                       "" if ok else f"{nm}() is process-global / wall-clock state: the search no longer depends on the seed alone")
            elif call_name(c) == "__subclasses__":
                # type.__subclasses__() lists classes in the order they were *defined*: the order modules happened to be imported in
                n += 1
                ctx.ob("C08.R3", f, c, "class registry order (__subclasses__)", False,
                       f"'{norm(c)[:60]}' enumerates subclasses in class-definition order, i.e. in the order the modules were imported: what is built from it "
                       f"(the order of a symbol's productions, which every seeded choice indexes) differs between two processes that import the same "
                       f"grammar modules in another order")
            elif t.kind == "builtin" and t.name in ("id", "hash"):
                n += 1
                # allowed: inside __hash__, or inside a logging call / f-string of a logging call
                in_hash = f.name == "__hash__"
                pp = parent(c)
                # identity bookkeeping: id() used only as a dict key / set member / in an 'in' test never orders anything
                if isinstance(pp, ast.DictComp) and pp.key is c or isinstance(pp, ast.Subscript) and pp.slice is c \
                        or isinstance(pp, ast.Compare) or (isinstance(pp, ast.Call) and call_name(pp) in ("add", "discard")):
                    in_hash = True
                in_log = any(isinstance(a, ast.Call) and isinstance(a.func, ast.Attribute) and a.func.attr in ("debug", "info", "warning", "error")
                             for a in ancestors(c))
                ok = in_hash or in_log
                ctx.ob("C08.R3", f, c, f"{t.name}() value", ok,
                       "" if ok else f"{t.name}() of an object is address-dependent: using it as a value makes results differ between processes")
    # monotonic_ns imported as a bare name
    for f in prog.functions.values():
        for c in walk_local(f.node, include_nested=True):
            if isinstance(c, ast.Call) and isinstance(c.func, ast.Name) and c.func.id in ("monotonic_ns", "time", "perf_counter", "monotonic"):
                r = prog.resolve_name(f.module, c.func.id)
                if r and r.startswith("time."):
                    n += 1
                    base = f.fullname.split(".<locals>")[0]
                    base = _time_allow_key(ctx, f)
                    ok = base in TIME_ALLOW
                    if ok:
                        ctx.accept("C08.R3", f.loc(c), TIME_ALLOW[base])
                    ctx.ob("C08.R3", f, c, f"clock {r}", ok, "" if ok else f"{r}() read in result-affecting code")
    ctx.floor("C08.R3", n, 4, "ambient-source / id / hash call sites")


def rule_r4(ctx: Ctx) -> None:
    n = process_state_rule(ctx, "C08.R4")
    ctx.floor("C08.R4", n, 3, "process-global write candidates / defaults")


def _pure_numeric(f: FunctionInfo) -> bool:
    a = f.node.args
    params = a.posonlyargs + a.args + a.kwonlyargs
    if f.cls is not None or a.vararg or a.kwarg or not params:
        return False
    if not all(p.annotation is not None and norm(p.annotation) in ("int", "float", "bool", "str") for p in params):
        return False
    names = {p.arg for p in params}
    for nd in walk_local(f.node, include_nested=True):
        if isinstance(nd, ast.Name) and isinstance(nd.ctx, ast.Load) and nd.id not in names \
                and nd.id not in ("round", "abs", "int", "float", "min", "max", "pow", "divmod", "len", "math", "log10", "log2", "log", "sqrt", "floor", "ceil", "isqrt",
                                  "tuple", "frozenset", "str", "bool", "sorted"):
            local = any(isinstance(x, ast.Name) and isinstance(x.ctx, ast.Store) and x.id == nd.id for x in walk_local(f.node))
            if not local:
                return False
        if isinstance(nd, (ast.Attribute,)) and not (isinstance(nd.value, ast.Name) and nd.value.id == "math"):
            # a method of an immutable text parameter (names.split(sep), text.strip().lower()): still a function of the arguments alone
            str_params = {p.arg for p in params if norm(p.annotation) == "str"}
            root = nd
            while isinstance(root, (ast.Attribute, ast.Call)):
                root = root.value if isinstance(root, ast.Attribute) else root.func
            if not (isinstance(root, ast.Name) and root.id in str_params
                    and nd.attr in ("split", "rsplit", "strip", "lstrip", "rstrip", "lower", "upper", "partition", "rpartition", "splitlines", "replace",
                                    "startswith", "endswith", "removeprefix", "removesuffix", "casefold", "title", "join", "find", "count", "isdigit", "isidentifier")):
                return False
        if isinstance(nd, (ast.Global, ast.Nonlocal, ast.Yield, ast.YieldFrom, ast.Subscript)):
            return False
    return True


def _grammar_constant(prog, f: FunctionInfo) -> bool:
    """a zero-argument method whose result depends on nothing but self.grammar (read through its accessors) and other methods / cached properties
    of the same kind: no stores, no draws, no other instance state"""
    if f.cls is None or [p for p in f.params if p != "self"]:
        return False
    from ..astutil import is_self_attr
    seen: set = set()

    def ok(g: FunctionInfo, depth: int) -> bool:
        if g.fullname in seen:
            return True
        seen.add(g.fullname)
        if depth > 3 or not isinstance(g.node, (ast.FunctionDef, ast.AsyncFunctionDef)):
            return False
        for x in walk_local(g.node):
            if isinstance(x, (ast.Assign, ast.AugAssign, ast.AnnAssign)):
                tg = x.targets if isinstance(x, ast.Assign) else [x.target]
                if any(not isinstance(t_, ast.Name) for t_ in tg):
                    return False
            if isinstance(x, (ast.Global, ast.Nonlocal, ast.Yield, ast.YieldFrom, ast.Delete)):
                return False
            if isinstance(x, ast.Call) and call_name(x) in ("randint", "random", "random_float", "random_bool", "choice", "shuffle", "choice_weighted", "normalvariate", "time", "perf_counter"):
                return False
            if is_self_attr(x) and x.attr != "grammar":
                h = prog.lookup_method(f.cls, x.attr)
                if h is None or not ok(h, depth + 1):
                    return False
        return True
    return ok(f, 0)


def process_state_rule(ctx: Ctx, rid: str, module_prefixes: tuple = ()) -> int:
    """No function (optionally: of the given modules) keeps state beyond a call: module-level / class-level writes,
    memoisation decorators, stateful default arguments.  Shared by C01/C02 (declaration readers must not cache),
    C13/C14 (one evaluation counter per search) and C08."""
    prog, res = ctx.prog, ctx.res
    n = 0
    for f in sorted(prog.functions.values(), key=lambda x: x.fullname):
        if module_prefixes and not f.module.name.startswith(module_prefixes):
            continue
        m = f.module
        base = f.fullname.split(".<locals>")[0]
        gl = {nm for st in walk_local(f.node) if isinstance(st, ast.Global) for nm in st.names}
        module_names = set(m.globals_assigned)
        local_binds = {nd.id for nd in walk_local(f.node) if isinstance(nd, ast.Name) and isinstance(nd.ctx, ast.Store)} | set(f.params)
        for nd in walk_local(f.node):
            hit = None
            if isinstance(nd, (ast.Assign, ast.AugAssign, ast.AnnAssign, ast.Delete)):
                tg = nd.targets if isinstance(nd, (ast.Assign, ast.Delete)) else [nd.target]
                for t in tg:
                    if isinstance(t, ast.Name) and t.id in gl:
                        hit = f"global {t.id} rebound"
                    b = t
                    while isinstance(b, (ast.Subscript, ast.Attribute)):
                        b = b.value
                    if isinstance(t, (ast.Subscript, ast.Attribute)) and isinstance(b, ast.Name) and b.id in module_names and b.id not in local_binds:
                        hit = f"module-level object '{b.id}' modified"
                    if isinstance(t, ast.Attribute) and isinstance(b, ast.Name) and b.id not in local_binds and prog.resolve_name(m, b.id) in prog.classes:
                        hit = f"class attribute {norm(t)} assigned"
            elif isinstance(nd, ast.Call):
                nm = call_name(nd)
                if isinstance(nd.func, ast.Attribute) and isinstance(nd.func.value, ast.Name) and nd.func.value.id in module_names \
                        and nd.func.value.id not in local_binds and nm in ("append", "add", "update", "setdefault", "pop", "clear", "extend", "insert", "remove", "__setitem__"):
                    hit = f"module-level object '{nd.func.value.id}'.{nm}()"
                if nm == "setattr" and isinstance(nd.func, ast.Name) and nd.args:
                    a0 = nd.args[0]
                    if not (isinstance(a0, ast.Name) and a0.id == "self"):
                        tt = ctx.types.of(m, a0)
                        # an untyped first argument is usually an instance (labels stored on a node); only a value known to be a class counts
                        if tt.k == "typetype" or (tt.k == "instance" and tt.fn == "builtins.type"):
                            hit = f"setattr on a class object ({norm(a0)})"
            if hit is None:
                continue
            n += 1
            ok = base in GLOBAL_WRITE_ALLOW
            if ok:
                ctx.accept(rid, f.loc(nd), GLOBAL_WRITE_ALLOW[base])
            ctx.ob(rid, f, nd, f"process-global write: {hit}"[:120], ok,
                   "" if ok else f"{hit}: state that survives the call (a cache, counter or registry) makes a later search in the "
                                 f"same process behave differently from the first, and differently from a fresh process")
        # lru_cache / cache decorators keep per-process state as well
        for d in getattr(f.node, "decorator_list", []):
            dn = dotted(d) or dotted(getattr(d, "func", d)) or ""
            if dn.split(".")[-1] in ("lru_cache", "cache", "cached_property"):
                n += 1
                if _pure_numeric(f):
                    # a function of numbers only (all parameters annotated int / float / bool / str, body built from arithmetic and math / builtins):
                    # its cache can never go stale - the key is the complete input and nothing else is read
                    ctx.ob(rid, f, d, f"memoised with {dn}: a pure function of numbers", True, "")
                    continue
                if dn.split(".")[-1] == "cached_property" and _grammar_constant(prog, f):
                    # per-instance, computed once from the object's (read-only, C10) grammar and other such properties: a constant of the object,
                    # not state that a search leaves behind for the next one
                    ctx.ob(rid, f, d, f"memoised with {dn}: a constant of the object derived from its grammar", True, "")
                    continue
                ctx.ob(rid, f, d, f"memoised with {dn}", False,
                       f"@{dn} keeps results for the lifetime of the process: values derived from class declarations go stale when "
                       f"a grammar is re-declared, and a second search does not start from the same state as the first")
        # stateful default arguments (evaluated once at import, shared by every call)
        a = f.node.args
        for dflt in list(a.defaults) + [d for d in a.kw_defaults if d is not None]:
            if isinstance(dflt, ast.Call):
                t = res.resolve(f, dflt)
                if t.kind == "ctor":
                    n += 1
                    ctx.ob(rid, f, dflt, f"default argument {norm(dflt)[:40]} is a shared instance", False,
                           f"the default '{norm(dflt)}' is built once at import and shared by every call: its state (e.g. an "
                           f"evaluation counter) carries over from one search to the next in the same process")
            elif isinstance(dflt, (ast.List, ast.Dict, ast.Set)):
                # a mutable literal default is harmful only if the function mutates it
                pname = None
                pos = a.posonlyargs + a.args
                if dflt in a.defaults:
                    pname = pos[len(pos) - len(a.defaults) + a.defaults.index(dflt)].arg
                if pname:
                    ma = MutationAnalysis(prog, res, depth=2)
                    muts = ma.analyse(f, {pname: 0})
                    n += 1
                    ctx.ob(rid, f, dflt, f"mutable default of '{pname}' is only read", not muts,
                           "" if not muts else f"the shared default of '{pname}' is modified in the function: later calls see the changes")
    # class-level containers: one object shared by every instance; harmless while it is only read (a table of constants), state that
    # outlives the instance as soon as a method modifies it through self (and the constructor does not give each instance its own)
    MUT = ("append", "add", "update", "setdefault", "pop", "popitem", "clear", "extend", "insert", "remove", "discard", "__setitem__", "appendleft", "sort", "reverse")
    for cfn, c in sorted(prog.classes.items()):
        if module_prefixes and not c.module.name.startswith(module_prefixes):
            continue
        for st in c.node.body:
            if isinstance(st, ast.Assign) and len(st.targets) == 1 and isinstance(st.targets[0], ast.Name):
                name, val = st.targets[0].id, st.value
            elif isinstance(st, ast.AnnAssign) and isinstance(st.target, ast.Name) and st.value is not None:
                name, val = st.target.id, st.value
            else:
                continue
            shared = isinstance(val, (ast.List, ast.Dict, ast.Set, ast.ListComp, ast.DictComp, ast.SetComp)) or \
                (isinstance(val, ast.Call) and call_name(val) in ("dict", "list", "set", "defaultdict", "deque", "Counter", "OrderedDict", "bytearray"))
            if not shared:
                continue
            family = [k for k in prog.classes.values() if prog.is_subclass(k, c.fullname)]
            rebound = any(isinstance(a, (ast.Assign, ast.AnnAssign)) and any(is_self_attr(t, name) for t in (a.targets if isinstance(a, ast.Assign) else [a.target]))
                          for k in family + prog.mro(c) for m_ in [k.methods.get("__init__"), k.methods.get("__post_init__")] if m_ is not None
                          for a in walk_local(m_.node))
            writes = []
            for k in family:
                for m_ in k.methods.values():
                    for x in walk_local(m_.node):
                        if isinstance(x, (ast.Assign, ast.AugAssign, ast.Delete)):
                            for t in (x.targets if isinstance(x, (ast.Assign, ast.Delete)) else [x.target]):
                                if isinstance(t, ast.Subscript) and is_self_attr(t.value, name):
                                    writes.append((m_, x))
                                if isinstance(x, ast.AugAssign) and is_self_attr(t, name):
                                    writes.append((m_, x))
                        elif isinstance(x, ast.Call) and isinstance(x.func, ast.Attribute) and x.func.attr in MUT and is_self_attr(x.func.value, name):
                            writes.append((m_, x))
            n += 1
            bad = bool(writes) and not rebound
            wf, wn = writes[0] if writes else (None, None)
            ctx.ob(rid, wf if bad else None, wn if bad else st, f"class-level container {c.name}.{name} is only read, or every instance gets its own"[:120], not bad,
                   "" if not bad else (f"{c.name}.{name} is created once in the class body and '{norm(wn)[:60]}' modifies it through self: every instance shares the "
                                       f"one container, so what one object (one mapping, one search) leaves in it is seen by the next"),
                   module=c.module.relpath)
    return n


def rule_r5(ctx: Ctx) -> None:
    """A population initializer is configuration: searches hand the same object (and the list of programs it was built around) to
    one run after another.  E3 with `self` as the owned root over every method of every PopulationInitializer subclass except the
    constructor: nothing is stored into the initializer, into a container it holds, or into an element of one - so the second
    search of a process starts from what the first one started from."""
    from ..mutation import MutationAnalysis
    from .common import INITIALIZER
    prog, res = ctx.prog, ctx.res
    ctx.rule("C08.R5", "population initializers keep no state between calls: nothing is stored into the initializer or into the containers it was built around")
    ma = MutationAnalysis(prog, res, depth=6 if ctx.tier == "thorough" else 4)
    n = 0
    for c in sorted(prog.subclasses(INITIALIZER, strict=False), key=lambda k: k.fullname):
        for name, m in sorted(c.methods.items()):
            if name in ("__init__", "__post_init__") or not m.params or m.params[0] != "self":
                continue
            n += 1
            muts = ma.analyse(m, {"self": 0})
            if not muts:
                ctx.ob("C08.R5", m, m.node, "no store into the initializer's own state", True, "")
            for mu in muts:
                ctx.ob("C08.R5", m, mu.node, f"{mu.how} on {mu.what}"[:120], False,
                       f"'{norm(mu.node)[:70]}' modifies the initializer ({mu.what}) while a population is being created: the next search that uses the same "
                       f"initializer - or the same list of programs - starts from a different state than the first (programs already wrapped, evaluated, cached)"
                       + (f" [via {' -> '.join(mu.chain)}]" if mu.chain else ""))
    ctx.floor("C08.R5", n, 5, "methods of population initializers")


def run(ctx: Ctx) -> None:
    ctx.rule("C08.R1", "no order-sensitive consumption of a set (address-ordered) in result-affecting code")
    ctx.rule("C08.R2", "the seeded source draws only from a private random.Random(seed)")
    ctx.rule("C08.R3", "no process-global RNG / clock / id() / hash() values outside allow-listed timing and logging sites")
    ctx.rule("C08.R4", "no module-level or class-level state written by library functions; no shared stateful default arguments")
    rule_r1(ctx)
    rule_r2(ctx)
    rule_r3(ctx)
    rule_r4(ctx)
    rule_r5(ctx)
    ctx.assumptions += [
        "mypy's inferred types identify the set-typed expressions (Any-typed sets are not seen)",
        "dict iteration order is insertion order (language guarantee); dicts built from a set inherit its order only if enumerated",
    ]
