"""C12 - the reported best individual really is the best one evaluated (structural clauses)."""
from __future__ import annotations

import ast
from typing import Any, Optional

from ..absint import B3, Env, Lin, evaluate, truth
from ..astutil import call_name, is_self_attr, names_read
from ..frontend import AnalysisError, FunctionInfo, dotted, norm, walk_local
from ..paths import conds_on, paths, stmts_on
from ..report import Ctx
from .common import ALGORITHM, EVALUATOR, PROBLEM, TRACKER, check_yields_all, per_individual_body, receiver_may_be

LEVEL_TEXT = (
    "Static rules: (R1) path enumeration of the single-objective tracker's per-individual code: the stored best "
    "is replaced exactly on the paths 'no best yet' or 'is_better(new, best)' (argument order checked), the flag "
    "given to every recorder is true exactly on those paths, and nothing else stores the best; the multi-objective "
    "tracker replaces its front only under the flag it reports and keeps [new] + {old not beaten by new}. (R2) "
    "Problem.is_better is a strict '>' on the maximising aggregate in the right argument order, and "
    "SingleObjectiveProblem.evaluate yields -v exactly when minimising (evaluated under both flag values). (R3) "
    "every search() returns the tracker's best on every exit. (R4) every call of Evaluator.evaluate/evaluate_async "
    "is made by a ProgressTracker, so no evaluation escapes the comparison. With strict is_better the invariant "
    "'best = first individual attaining the maximum aggregate so far' is inductive; this decides the shape, not "
    "any particular run."
)


def _is_best_attr_none(test: ast.AST, attr: str) -> Optional[bool]:
    """test denotes (self.<attr> is None) -> True, (is not None) -> False, else None."""
    if isinstance(test, ast.Compare) and len(test.ops) == 1 and isinstance(test.comparators[0], ast.Constant) \
            and test.comparators[0].value is None and is_self_attr(test.left, attr):
        if isinstance(test.ops[0], (ast.Is, ast.Eq)):
            return True
        if isinstance(test.ops[0], (ast.IsNot, ast.NotEq)):
            return False
    if isinstance(test, ast.UnaryOp) and isinstance(test.op, ast.Not) and is_self_attr(test.operand, attr):
        return True
    if is_self_attr(test, attr):
        return False
    return None


def _better_call(test: ast.AST, ind: str, attr: str) -> Optional[str]:
    """'new>old' if test is is_better(<ind..>, <self.attr..>), 'old>new' if swapped, None otherwise."""
    if not (isinstance(test, ast.Call) and call_name(test) == "is_better"):
        return None
    args = [a for a in test.args if not (isinstance(a, ast.Name) and a.id in ("problem",))
            and not is_self_attr(a, "problem")]
    if len(args) != 2:
        return None

    def side(a: ast.AST) -> str:
        has_best = any(is_self_attr(n, attr) for n in ast.walk(a))
        has_ind = ind in names_read(a)
        return "old" if has_best and not has_ind else "new" if has_ind and not has_best else "?"

    s = (side(args[0]), side(args[1]))
    if s == ("new", "old"):
        return "new>old"
    if s == ("old", "new"):
        return "old>new"
    return None


class _Undecided(Exception):
    pass


class _Swapped(Exception):
    pass


def rule_r1_single(ctx: Ctx) -> int:
    """Model-check the per-individual code of the single-objective tracker over the atoms
         F = 'no best stored yet'      B = 'the new individual is strictly better than the stored best'
    For each of the three cases (F), (not F, B), (not F, not B) the code is interpreted (boolean expressions with
    short-circuit semantics, if/else, flag variables): the stored best must be replaced and the flag handed to the
    recorders must be true exactly when F or B."""
    prog = ctx.prog
    n = 0
    for c in prog.subclasses(TRACKER):
        gb = c.methods.get("get_best_individual")
        if gb is None:
            continue
        rets = [r for r in walk_local(gb.node) if isinstance(r, ast.Return) and r.value is not None]
        if len(rets) != 1 or not is_self_attr(rets[0].value):
            ctx.ob("C12.R1", gb, gb.node, "get_best_individual returns the stored best", False if rets else None,
                   "get_best_individual does not return the tracker's stored best attribute")
            continue
        attr = rets[0].value.attr
        pib = per_individual_body(ctx, c)
        if pib is None:
            ctx.ob("C12.R1", gb, gb.node, "per-individual body", None, "cannot locate the per-individual code")
            continue
        fn, body, ind = pib
        # aliases of the stored best: locals assigned from self.<attr>; where are they (re)assigned?
        ev = prog.lookup_method(c, "evaluate")
        outer_alias: dict[str, ast.AST] = {}
        inner_alias: set[str] = set()
        body_nodes = {id(x) for st in body for x in ast.walk(st)}
        for owner in {fn, ev} - {None}:
            for a in walk_local(owner.node):
                if isinstance(a, ast.Assign) and len(a.targets) == 1 and isinstance(a.targets[0], ast.Name) and is_self_attr(a.value, attr):
                    if id(a) in body_nodes:
                        inner_alias.add(a.targets[0].id)
                    else:
                        outer_alias[a.targets[0].id] = a
        aliases = set(outer_alias) | inner_alias

        def is_best_ref(e: ast.AST) -> bool:
            return is_self_attr(e, attr) or (isinstance(e, ast.Name) and e.id in aliases)

        reg = [x for st in body for x in ast.walk(st) if isinstance(x, ast.Call) and call_name(x) == "register"]
        flag_expr = None
        for r in reg:
            for k in r.keywords:
                if k.arg == "is_best":
                    flag_expr = k.value
            if flag_expr is None and len(r.args) >= 4:
                flag_expr = r.args[3]
        if not reg or flag_expr is None:
            ctx.ob("C12.R1", fn, fn.node, "recorders are told is_best", False,
                   "no recorder.register(..., is_best=<flag>) in the per-individual code")
            continue

        used_stale: list[ast.AST] = []

        def beval(e: ast.AST, env: dict, F: bool, B: bool):
            if isinstance(e, ast.Constant) and isinstance(e.value, bool):
                return e.value
            if isinstance(e, ast.Name) and e.id in env:
                return env[e.id]
            if isinstance(e, ast.UnaryOp) and isinstance(e.op, ast.Not):
                return not beval(e.operand, env, F, B)
            if isinstance(e, ast.BoolOp):
                if isinstance(e.op, ast.Or):
                    for v in e.values:
                        if beval(v, env, F, B):
                            return True
                    return False
                for v in e.values:
                    if not beval(v, env, F, B):
                        return False
                return True
            if isinstance(e, ast.Compare) and len(e.ops) == 1 and isinstance(e.comparators[0], ast.Constant) and e.comparators[0].value is None \
                    and is_best_ref(e.left):
                if isinstance(e.left, ast.Name) and e.left.id in outer_alias and e.left.id not in env.get("#refreshed", set()):
                    used_stale.append(e)
                return F if isinstance(e.ops[0], (ast.Is, ast.Eq)) else not F
            if isinstance(e, ast.Call) and call_name(e) == "is_better":
                args = [a for a in e.args if not (isinstance(a, ast.Name) and a.id == "problem") and not is_self_attr(a, "problem")]
                if len(args) != 2:
                    raise _Undecided(f"is_better with {len(args)} fitness arguments")

                def side(a: ast.AST) -> str:
                    has_best = any(is_best_ref(x) for x in ast.walk(a))
                    has_ind = ind in names_read(a)
                    return "old" if has_best and not has_ind else "new" if has_ind and not has_best else "?"
                sd = (side(args[0]), side(args[1]))
                for a in args:
                    for x in ast.walk(a):
                        if isinstance(x, ast.Name) and x.id in outer_alias and x.id not in env.get("#refreshed", set()):
                            used_stale.append(e)
                if F:
                    raise _Undecided("is_better evaluated although no best is stored (would dereference None)")
                if sd == ("new", "old"):
                    return B
                if sd == ("old", "new"):
                    raise _Swapped()
                raise _Undecided(f"is_better sides {sd}")
            raise _Undecided(f"unrecognised condition '{norm(e)[:50]}'")

        def run_body(stmts, env, F, B, out):
            for st in stmts:
                if isinstance(st, ast.Assign) and len(st.targets) == 1:
                    t = st.targets[0]
                    if isinstance(t, ast.Name):
                        if isinstance(st.value, ast.Name) and st.value.id == ind and t.id in aliases:
                            env.setdefault("#refreshed", set()).add(t.id)
                            continue
                        if is_self_attr(st.value, attr):
                            env.setdefault("#refreshed", set()).add(t.id)
                            continue
                        if isinstance(st.value, (ast.Attribute, ast.Name)) and not isinstance(st.value, ast.Constant) and t.id not in ("is_best",) \
                                and not isinstance(st.value, (ast.BoolOp, ast.Compare, ast.UnaryOp, ast.Call)):
                            continue  # plain data alias (problem = self.problem)
                        try:
                            env[t.id] = beval(st.value, env, F, B)
                        except _Undecided:
                            if isinstance(st.value, (ast.BoolOp, ast.Compare, ast.UnaryOp, ast.Constant)) or (isinstance(st.value, ast.Call) and call_name(st.value) == "is_better"):
                                raise
                    elif is_self_attr(t, attr):
                        out["assigned"] = "new" if isinstance(st.value, ast.Name) and st.value.id == ind else "other"
                elif isinstance(st, ast.If):
                    branch = st.body if beval(st.test, env, F, B) else st.orelse
                    if run_body(branch, env, F, B, out) == "exit":
                        return "exit"
                elif isinstance(st, (ast.For, ast.AsyncFor)) and any(r in list(ast.walk(st)) for r in reg):
                    out["flag"] = beval(flag_expr, env, F, B)
                elif isinstance(st, ast.Expr) and isinstance(st.value, ast.Call) and st.value in reg:
                    out["flag"] = beval(flag_expr, env, F, B)
                elif isinstance(st, (ast.Return, ast.Continue, ast.Break)):
                    return "exit"
            return "fall"

        for (F, B, label) in ((True, False, "no best yet"), (False, True, "strictly better than the stored best"), (False, False, "not better than the stored best")):
            n += 1
            out = {"assigned": None, "flag": "unset"}
            construct = f"best-update case [{label}]"
            try:
                run_body(body, {}, F, B, out)
            except _Swapped:
                ctx.ob("C12.R1", fn, fn.node, construct, False,
                       "is_better is applied as is_better(best, new): the stored best is replaced when the OLD one is better")
                continue
            except _Undecided as e:
                ctx.ob("C12.R1", fn, fn.node, construct, None, str(e))
                continue
            should = F or B
            ok_assign = (out["assigned"] == "new") == should and out["assigned"] != "other"
            ok_flag = out["flag"] is should
            ctx.ob("C12.R1", fn, fn.node, construct, ok_assign and ok_flag,
                   "" if ok_assign and ok_flag else
                   f"when the new individual is {label}: the stored best {'is' if out['assigned'] else 'is not'} replaced and recorders get "
                   f"is_best={out['flag']}; expected replaced={should}, is_best={should}",
                   witness={"case": label, "assigned": out["assigned"], "flag": str(out["flag"]), "expected": should})
        # the incumbent compared against must be the current one
        n += 1
        stale = sorted({norm(x)[:60] for x in used_stale})
        ctx.ob("C12.R1", fn, used_stale[0] if used_stale else fn.node, "the comparison uses the currently stored best", not stale,
               "" if not stale else f"'{stale[0]}' compares against '{sorted(outer_alias)[0]}', a copy of the stored best taken before the loop "
                                    f"over the evaluated individuals and never refreshed: within one batch every individual is compared with "
                                    f"the best from before the batch, so a later, smaller improvement overwrites an earlier, larger one")
        # nothing else stores the best
        for f in prog.functions.values():
            for nd in walk_local(f.node):
                if isinstance(nd, (ast.Assign, ast.AugAssign, ast.AnnAssign)):
                    tg = nd.targets if isinstance(nd, ast.Assign) else [nd.target]
                    for t in tg:
                        if isinstance(t, ast.Attribute) and t.attr == attr:
                            owner_ok = f.cls is not None and prog.is_subclass(f.cls, c.fullname)
                            if not owner_ok and not receiver_may_be(ctx, f, t.value, c.fullname):
                                continue
                            n += 1
                            ok = owner_ok and (f is fn or f.name == "__init__")
                            ctx.ob("C12.R1", f, nd, f"store to .{attr}", ok,
                                   "" if ok else "the stored best is written outside the tracker's update path")
    return n


def _pdesc(first, better) -> str:
    a = "no best yet" if first is True else "has best" if first is False else "-"
    b = "-" if better is None else f"{better[0]}={better[1]}"
    return f"{a}; is_better {b}"


def _bool_of(e: ast.AST, env: dict[str, Any]) -> Any:
    if isinstance(e, ast.Constant) and isinstance(e.value, bool):
        return e.value
    if isinstance(e, ast.Name) and e.id in env:
        return env[e.id]
    if isinstance(e, ast.UnaryOp) and isinstance(e.op, ast.Not):
        v = _bool_of(e.operand, env)
        return (not v) if isinstance(v, bool) else "?"
    return "?"


def rule_r1_multi(ctx: Ctx) -> int:
    """Multi-objective tracker: front replaced only under the reported flag; new front = [new] + survivors."""
    prog = ctx.prog
    n = 0
    for c in prog.subclasses(TRACKER):
        gb = c.methods.get("get_best_individuals")
        if gb is None:
            continue
        rets = [r for r in walk_local(gb.node) if isinstance(r, ast.Return) and r.value is not None]
        if len(rets) != 1 or not is_self_attr(rets[0].value):
            continue
        attr = rets[0].value.attr
        pib = per_individual_body(ctx, c)
        if pib is None:
            continue
        fn, body, ind = pib
        reg = [x for x in ast.walk(ast.Module(body=body, type_ignores=[])) if isinstance(x, ast.Call)
               and call_name(x) == "register"]
        flag = None
        for r in reg:
            for k in r.keywords:
                if k.arg == "is_best":
                    flag = k.value
        stores = [s for s in ast.walk(ast.Module(body=body, type_ignores=[])) if isinstance(s, ast.Assign)
                  and any(is_self_attr(t, attr) for t in s.targets)]
        n += 1
        if flag is None or not isinstance(flag, ast.Name):
            ctx.ob("C12.R1", fn, fn.node, "multi-objective: flag reported to recorders", flag is not None and None,
                   "is_best flag is not a plain local variable" if flag is not None else "no is_best flag passed")
            continue
        # the flag's definition
        fdef = [s for s in body if isinstance(s, ast.Assign) and any(isinstance(t, ast.Name) and t.id == flag.id
                                                                     for t in s.targets)]
        ok_def = False
        why = "flag is not (front empty or not dominated(new, front))"
        if len(fdef) == 1:
            v = fdef[0].value
            txt = norm(v)
            dom_calls = [x for x in ast.walk(v) if isinstance(x, ast.Call) and call_name(x) == "is_dominated"]
            negated = any(isinstance(u, ast.UnaryOp) and isinstance(u.op, ast.Not) and dom_calls and u.operand is dom_calls[0]
                          for u in ast.walk(v))
            arg_ok = bool(dom_calls) and len(dom_calls[0].args) == 2 and isinstance(dom_calls[0].args[0], ast.Name) \
                and dom_calls[0].args[0].id == ind and is_self_attr(dom_calls[0].args[1], attr)
            ok_def = len(dom_calls) == 1 and negated and arg_ok
        ctx.ob("C12.R1", fn, fdef[0] if fdef else fn.node, "multi-objective: is_best = not dominated by the front",
               ok_def, "" if ok_def else why)
        for s in stores:
            n += 1
            from ..astutil import guards
            gs = guards(s, stop=fn.node)
            under_flag = any(isinstance(t, ast.Name) and t.id == flag.id and pol for t, pol in gs)
            ctx.ob("C12.R1", fn, s, "multi-objective: front replaced only when the new individual is reported best",
                   under_flag, "" if under_flag else "front is replaced on a path where is_best is not established")
        # is_dominated = all(is_better(x, current) for x in others)
        dom = prog.lookup_method(c, "is_dominated")
        if dom is not None:
            n += 1
            r = [x for x in walk_local(dom.node) if isinstance(x, ast.Return)]
            ok = False
            why = "is_dominated is not all(is_better(other, current) for other in others)"
            if len(r) == 1 and isinstance(r[0].value, ast.Call) and call_name(r[0].value) == "all":
                calls = [x for x in ast.walk(r[0].value) if isinstance(x, ast.Call) and call_name(x) == "is_better"]
                if len(calls) == 1 and len(calls[0].args) == 2:
                    cur = dom.params[1]
                    a0, a1 = names_read(calls[0].args[0]), names_read(calls[0].args[1])
                    ok = cur in a1 and cur not in a0
                    if not ok:
                        why = "is_better arguments swapped: 'dominated' would mean the current one beats all others"
            ctx.ob("C12.R1", dom, dom.node, "is_dominated(current, others) = all others beat current", ok, "" if ok else why)
    return n


def rule_r2(ctx: Ctx) -> int:
    prog = ctx.prog
    n = 0
    # is_better implementations
    impls = prog.implementations(PROBLEM, "is_better", include_base=True)
    for f in impls:
        n += 1
        rets = [r for r in walk_local(f.node) if isinstance(r, ast.Return) and r.value is not None]
        a, b = f.params[1], f.params[2]
        ok, why = False, "is_better is not a single strict comparison of the maximising aggregates"
        if len(rets) == 1 and isinstance(rets[0].value, ast.Compare) and len(rets[0].value.ops) == 1:
            cmp_ = rets[0].value
            l, r = cmp_.left, cmp_.comparators[0]

            def agg_of(e):
                if isinstance(e, ast.Attribute) and e.attr == "maximizing_aggregate" and isinstance(e.value, ast.Name):
                    return e.value.id
                if isinstance(e, ast.Subscript) and isinstance(e.value, ast.Name) and isinstance(e.slice, ast.Constant) \
                        and e.slice.value == 0:
                    return e.value.id
                return None
            la, ra = agg_of(l), agg_of(r)
            op = cmp_.ops[0]
            if la and ra:
                if (la, ra) == (a, b) and isinstance(op, ast.Gt) or (la, ra) == (b, a) and isinstance(op, ast.Lt):
                    ok = True
                elif isinstance(op, (ast.GtE, ast.LtE)):
                    why = "is_better is not strict: a tie replaces the stored best and is reported as a new best"
                else:
                    why = "is_better compares in the wrong direction"
        ctx.ob("C12.R2", f, f.node, "is_better(a, b) == a.aggregate > b.aggregate (strict)", ok, "" if ok else why)
    ctx.floor("C12.R2", n, 1, "is_better implementations")

    # single-objective aggregate polarity, under both values of the minimise flag
    for f in prog.implementations(PROBLEM, "evaluate"):
        fit_rets = [r for r in walk_local(f.node) if isinstance(r, ast.Return) and isinstance(r.value, ast.Call)
                    and call_name(r.value) == "Fitness"]
        if not fit_rets or not any(_reads_minimize(nd) for nd in walk_local(f.node)):
            continue
        if "aggregate" in " ".join(norm(x) for x in walk_local(f.node) if isinstance(x, ast.Subscript)):
            continue  # multi-objective forms are C13.R3
        for flagval in (True, False):
            n += 1
            res = _eval_aggregate(f, flagval)
            want = -1 if flagval else 1
            ok = res == want
            ctx.ob("C12.R2", f, f.node, f"aggregate sign when minimise={flagval}", ok if res is not None else None,
                   "" if ok else f"aggregate is {'+' if res == 1 else '-' if res == -1 else '?'}v when minimise={flagval}"
                                 f" (expected {'-' if want < 0 else '+'}v): the best is chosen in the wrong direction",
                   witness={"minimise": flagval, "sign": res})
    return n


def _reads_minimize(nd: ast.AST) -> bool:
    return isinstance(nd, ast.Attribute) and nd.attr == "minimize"


def _eval_aggregate(f: FunctionInfo, flagval: bool) -> Optional[int]:
    """Sign of Fitness(<agg>, [v]) relative to v along the function, with every minimise-derived test = flagval."""
    body = f.node.body
    result: set[Optional[int]] = set()
    for p in paths(body, unroll_loops=False):
        env = Env()
        env.facts = env.facts
        mini: set[str] = set()  # locals that denote the minimise flag

        def is_flag(e: ast.AST) -> bool:
            if isinstance(e, ast.Name):
                return e.id in mini
            if isinstance(e, ast.Attribute):
                return e.attr == "minimize"
            if isinstance(e, ast.Subscript):
                return is_flag(e.value)
            if isinstance(e, ast.IfExp):
                return is_flag(e.body) and is_flag(e.orelse)
            if isinstance(e, ast.Call) and call_name(e) == "bool" and e.args:
                return is_flag(e.args[0])
            return False

        feasible = True
        for ev in p:
            if ev[0] == "cond":
                t = ev[1]
                neg = isinstance(t, ast.UnaryOp) and isinstance(t.op, ast.Not)
                core = t.operand if neg else t
                if is_flag(core):
                    if ((flagval != neg)) != ev[2]:
                        feasible = False
                        break
            elif ev[0] == "stmt":
                st = ev[1]
                if isinstance(st, ast.Assign) and len(st.targets) == 1 and isinstance(st.targets[0], ast.Name):
                    nm = st.targets[0].id
                    if is_flag(st.value):
                        mini.add(nm)
                        continue
                    env.vars[nm] = _sign_eval(env, st.value, is_flag, flagval)
                elif isinstance(st, ast.Return) and isinstance(st.value, ast.Call) and call_name(st.value) == "Fitness" \
                        and len(st.value.args) >= 2:
                    agg = _sign_eval(env, st.value.args[0], is_flag, flagval)
                    comp = st.value.args[1]
                    base = None
                    if isinstance(comp, ast.List) and len(comp.elts) == 1:
                        base = _sign_eval(env, comp.elts[0], is_flag, flagval)
                    if isinstance(agg, Lin) and isinstance(base, Lin) and len(base.coef) == 1 and base.const == 0:
                        if agg == base:
                            result.add(1)
                        elif agg == -base:
                            result.add(-1)
                        else:
                            result.add(None)
                    else:
                        result.add(None)
        if not feasible:
            continue
    if len(result) == 1:
        return next(iter(result))
    return None


def _sign_eval(env: Env, e: ast.AST, is_flag, flagval: bool) -> Any:
    """evaluate() with minimise-derived tests resolved to flagval and float()/opaque calls as fresh symbols."""
    if isinstance(e, ast.IfExp):
        t = e.test
        neg = isinstance(t, ast.UnaryOp) and isinstance(t.op, ast.Not)
        core = t.operand if neg else t
        if is_flag(core):
            return _sign_eval(env, e.body if (flagval != neg) else e.orelse, is_flag, flagval)
    if isinstance(e, ast.Call) and call_name(e) == "float" and e.args:
        return _sign_eval(env, e.args[0], is_flag, flagval)
    if isinstance(e, ast.Call):
        return Lin.sym("call:" + norm(e))
    if isinstance(e, ast.UnaryOp) and isinstance(e.op, ast.USub):
        v = _sign_eval(env, e.operand, is_flag, flagval)
        return -v if isinstance(v, Lin) else v
    if isinstance(e, ast.BinOp) and isinstance(e.op, ast.Mult):
        a, b = _sign_eval(env, e.left, is_flag, flagval), _sign_eval(env, e.right, is_flag, flagval)
        if isinstance(a, Lin) and isinstance(b, Lin):
            if a.is_const():
                return b.scale(a.const)
            if b.is_const():
                return a.scale(b.const)
    if isinstance(e, ast.Name) and e.id in env.vars:
        return env.vars[e.id]
    return evaluate(env, e)


def rule_r3(ctx: Ctx) -> int:
    prog = ctx.prog
    n = 0
    for f in prog.implementations(ALGORITHM, "search"):
        for r in walk_local(f.node):
            if not isinstance(r, ast.Return):
                continue
            n += 1
            v = r.value
            ok = False
            if v is None or (isinstance(v, ast.Constant) and v.value is None):
                ok = True  # 'no result' exit (unknown tracker kind); not a wrong individual
                ctx.accept("C12.R3", f.loc(r), "returns None: no individual is reported")
            else:
                core = v.value if isinstance(v, ast.Subscript) else v
                if isinstance(core, ast.Call) and isinstance(core.func, ast.Attribute) \
                        and core.func.attr in ("get_best_individual", "get_best_individuals") \
                        and is_self_attr(core.func.value, "tracker"):
                    if isinstance(v, ast.Subscript):
                        ok = core.func.attr == "get_best_individuals"
                    else:
                        ok = core.func.attr == "get_best_individual"
            ctx.ob("C12.R3", f, r, f"search returns {norm(v) if v is not None else 'None'}"[:80], ok,
                   "" if ok else "search() returns something other than the tracker's best individual")
    ctx.floor("C12.R3", n, 4, "return statements of search() implementations")
    return n


def rule_r4(ctx: Ctx) -> int:
    prog, res = ctx.prog, ctx.res
    n = 0
    ev_methods = set()
    for c in prog.subclasses(EVALUATOR, strict=False):
        for m in ("evaluate", "evaluate_async"):
            if m in c.methods:
                ev_methods.add(c.methods[m])
    for f in prog.functions.values():
        for call in res.calls_in(f, include_nested=False):
            if not (isinstance(call.func, ast.Attribute) and call.func.attr in ("evaluate", "evaluate_async")):
                continue
            t = res.resolve(f, call)
            if t.kind != "repo" or not any(g in ev_methods for g in t.targets):
                continue
            n += 1
            owner = ctx.res.enclosing_class(f)
            in_tracker = owner is not None and prog.is_subclass(owner, TRACKER)
            in_evaluator = owner is not None and prog.is_subclass(owner, EVALUATOR)
            ok = in_tracker or in_evaluator
            arg = norm(call.args[1]) if len(call.args) > 1 else "?"
            ctx.ob("C12.R4", f, call, f"raw evaluator call on {arg}", ok,
                   "" if ok else "individuals are evaluated through the raw evaluator, bypassing the tracker: an "
                                 "individual evaluated here and dropped by the step is never compared with the best")
    ctx.floor("C12.R4", n, 3, "resolved Evaluator.evaluate call sites")
    return n


def run(ctx: Ctx) -> None:
    ctx.rule("C12.R1", "tracker state machine: best replaced / is_best reported exactly on 'first' or 'strictly better' paths")
    ctx.rule("C12.R2", "is_better strict '>' in argument order; aggregate = -v iff minimising")
    ctx.rule("C12.R3", "every search() exit returns the tracker's best")
    ctx.rule("C12.R4", "Evaluator.evaluate/evaluate_async called only by trackers")
    n1 = rule_r1_single(ctx)
    ctx.floor("C12.R1", n1, 4, "single-objective tracker paths and stores")
    n1m = rule_r1_multi(ctx)
    ctx.floor("C12.R1", n1m, 3, "multi-objective tracker obligations")
    rule_r2(ctx)
    rule_r3(ctx)
    rule_r4(ctx)
    ctx.rule("C12.R5", "every evaluator hands every presented individual (cached or not) back to the tracker")
    impls = ctx.prog.implementations(EVALUATOR, "evaluate_async")
    ctx.floor("C12.R5", len(impls), 2, "evaluate_async implementations")
    for f in impls:
        check_yields_all(ctx, "C12.R5", f)
    ctx.assumptions += [
        "recorders are informed only through ProgressTracker.evaluate (no other caller of SearchRecorder.register)",
        "floating-point NaN fitness values are outside the decided clause (comparisons with NaN are false)",
    ]
