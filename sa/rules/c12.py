"""C12 - the reported best individual really is the best one evaluated (structural clauses)."""
from __future__ import annotations

import ast
from typing import Any, Optional

from ..absint import B3, Env, Lin, evaluate, truth
from ..astutil import call_name, is_self_attr, names_read
from ..frontend import AnalysisError, FunctionInfo, dotted, norm, walk_local
from ..paths import conds_on, paths, stmts_on
from ..report import Ctx
from .common import ALGORITHM, EVALUATOR, PROBLEM, TRACKER, check_yields_all, per_individual_body, receiver_may_be

LEVEL_TEXT = (
    "(R1) finite-model interpretation of every ProgressTracker.evaluate (methods of the tracker inlined through "
    "the class hierarchy, the evaluator replaced by a stand-in that hands back the batch): single-objective - the"
    " tracker's state is what its own interpreted constructor and a first evaluate([rank 5]) leave behind (so "
    "anything cached next to the best is modelled too), then 18 scenarios (no best / a best of rank 5, batches of"
    " two individuals with ranks in {3,5,7}^2) plus batches whose first aggregate is -inf (the worst possible "
    "individual is still the first best) and batches that present the same object again (the incumbent re-"
    "registered, one individual twice: identity with the stored best is not an improvement), is_better(a, b) := "
    "rank(a) > rank(b)): after each batch the stored best and the is_best flags given to the recorders are those "
    "of the reference semantics (replace and report exactly when there is no best yet or the new one is strictly "
    "better than the *current* best); multi-objective - fronts of 0..2 individuals x batches of 1..2: the front "
    "is replaced only under the flag reported, by [new] + {old not dominated by new}. (R2) Problem.is_better is a"
    " strict '>' on the maximising aggregate in the right argument order (the literal comparison, or - for any "
    "other spelling - a truth table over thirteen pairs of aggregates - (3,5), (5,3), (5,5), (-inf,5), (5,-inf) "
    "and pairs closer than any tolerance such as 1e12+147 / 1e12+109 or 1+1e-10 / 1 - obtained by interpreting "
    "it), and single-objective Problem classes (interpreted with a symbolic fitness function) yield -v exactly "
    "when minimising. (R3) every search() returns the tracker's best on every exit (helper chains followed; a "
    "return value that does not come from the tracker at all - a local incumbent, a population member - is a "
    "finding); the trackers' aggregate views of a stored best (get_best_individuals and the like) are interpreted"
    " on the heap the R1 model ends with. (R4) every call of Evaluator.evaluate / evaluate_async is made by a "
    "ProgressTracker, so no evaluation escapes the comparison. (R5) every evaluate_async, interpreted on ten "
    "batches, hands back every presented individual, cached or not. With strict is_better the invariant 'best = "
    "first individual attaining the maximum aggregate so far' is inductive; NaN fitness values are outside the "
    "decided clause."
)


def _is_best_attr_none(test: ast.AST, attr: str) -> Optional[bool]:
    """test denotes (self.<attr> is None) -> True, (is not None) -> False, else None."""
    if isinstance(test, ast.Compare) and len(test.ops) == 1 and isinstance(test.comparators[0], ast.Constant) \
            and test.comparators[0].value is None and is_self_attr(test.left, attr):
        if isinstance(test.ops[0], (ast.Is, ast.Eq)):
            return True
        if isinstance(test.ops[0], (ast.IsNot, ast.NotEq)):
            return False
    if isinstance(test, ast.UnaryOp) and isinstance(test.op, ast.Not) and is_self_attr(test.operand, attr):
        return True
    if is_self_attr(test, attr):
        return False
    return None


def _better_call(test: ast.AST, ind: str, attr: str) -> Optional[str]:
    """'new>old' if test is is_better(<ind..>, <self.attr..>), 'old>new' if swapped, None otherwise."""
    if not (isinstance(test, ast.Call) and call_name(test) == "is_better"):
        return None
    args = [a for a in test.args if not (isinstance(a, ast.Name) and a.id in ("problem",))
            and not is_self_attr(a, "problem")]
    if len(args) != 2:
        return None

    def side(a: ast.AST) -> str:
        has_best = any(is_self_attr(n, attr) for n in ast.walk(a))
        has_ind = ind in names_read(a)
        return "old" if has_best and not has_ind else "new" if has_ind and not has_best else "?"

    s = (side(args[0]), side(args[1]))
    if s == ("new", "old"):
        return "new>old"
    if s == ("old", "new"):
        return "old>new"
    return None


RANKS = (3, 5, 7)


def _tracker_model(ctx: Ctx, c, attr: str, initial, batch_ranks: tuple, rank0: dict, state: Optional[dict] = None, names: Optional[list] = None,
                   method: str = "evaluate"):
    """Interpret <tracker>.evaluate(individuals) on a batch of symbolic individuals with the given aggregate ranks.
    state: the tracker's attributes ('self.x' -> value) as an earlier interpreted call left them (overrides `initial`).
    Returns the list of (trace, env) results, or raises."""
    from ..modelinterp import Interp, Sym, UNKNOWN, Budget
    prog = ctx.prog
    ev = prog.lookup_method(c, method)
    ranks = dict(rank0)
    inds = []
    for i, r in enumerate(batch_ranks):
        t = names[i] if names else f"ind{i + 1}"
        ranks[t] = r
        inds.append(Sym(t))

    def fit_rank(v):
        if isinstance(v, Sym):
            t = v.tag
            if t.startswith("fit:"):
                t = t[4:]
            return ranks.get(t.split(".")[0] if t not in ranks else t)
        return None

    def atom(it, e, env):
        if isinstance(e, ast.Call) and call_name(e) == "is_better" and len(e.args) >= 2:
            a = [x for x in e.args if not (isinstance(x, ast.Name) and x.id == "problem") and not is_self_attr(x, "problem")]
            if len(a) == 2:
                ra, rb = fit_rank(it.ev(a[0], env, 9)), fit_rank(it.ev(a[1], env, 9))
                if ra is not None and rb is not None:
                    return ra > rb
        return None

    def call_model(it, call, env, args, kwargs):
        nm = call_name(call)
        if nm == "evaluate_async":
            return list(inds)
        if nm == "get_fitness" and isinstance(call.func, ast.Attribute):
            recv = it.ev(call.func.value, env, 9)
            if isinstance(recv, Sym):
                return Sym("fit:" + recv.tag)
        if nm == "key_function" and isinstance(call.func, ast.Attribute) and len(args) == 1 and fit_rank(args[0]) is not None:
            return fit_rank(args[0])          # Problem.key_function(fitness): the maximising aggregate
        if nm == "time" or nm == "perf_counter" or nm == "monotonic":
            return Sym("clock")
        return None

    it = Interp(prog, c, atom, call_model, record_calls=("register",), max_depth=5)
    for t_, r_ in ranks.items():
        # a fitness object's maximising aggregate is its rank (what helpers such as best_individual / sort_population read)
        it.heap[("fit:" + t_, "maximizing_aggregate")] = r_
    env = {"self": Sym("self"), f"self.{attr}": initial, "self.recorders": [Sym("rec1")], "individuals": list(inds),
           "self.problem": Sym("problem"), "self.evaluator": Sym("evaluator")}
    if state is not None:
        env.update(state)
    if method == "__init__":
        env = {"self": Sym("self")}
        for q in ev.params[1:]:
            env[q] = {"problem": Sym("problem"), "evaluator": Sym("evaluator"), "recorders": [Sym("rec1")]}.get(q, UNKNOWN)
    else:
        for q in ev.params[1:]:
            env[q] = list(inds)
    res_ = it.run(ev, env)
    _tracker_model.last_envs = list(it.envs)
    return res_, inds, ranks


def rule_r1_single(ctx: Ctx) -> int:
    """Model check of the single-objective tracker: its evaluate() is *interpreted* on batches of two symbolic individuals
    for every combination of aggregate ranks {3,5,7}^2 and initial state (no best / a best of rank 5), with
    is_better(a, b) := rank(a) > rank(b) (its own obligation is R2) and methods of the tracker inlined through the class
    hierarchy.  After each batch the stored best and the is_best flags handed to the recorders must be those of the
    reference semantics: replace / report exactly when there is no best yet or the new one is strictly better than the
    current best."""
    from ..modelinterp import Sym, UNKNOWN, Budget
    prog = ctx.prog
    n = 0
    for c in prog.subclasses(TRACKER):
        gb = prog.lookup_method(c, "get_best_individual")
        if gb is None or gb.cls is None or gb.cls.fullname == TRACKER:
            continue
        rets = [r for r in walk_local(gb.node) if isinstance(r, ast.Return) and r.value is not None]
        if len(rets) != 1 or not is_self_attr(rets[0].value):
            ctx.ob("C12.R1", gb, gb.node, "get_best_individual returns the stored best", None,
                   "get_best_individual does not return a plain attribute: cannot identify the stored best")
            continue
        attr = rets[0].value.attr
        ev = prog.lookup_method(c, "evaluate")
        if ev is None:
            continue
        bad, undecided, scenarios = [], [], 0
        # the tracker's state is whatever its own code sets up: a fresh tracker from the interpreted constructor, and - for the
        # scenarios with an incumbent - the state a first evaluate([old]) leaves behind (so that anything cached next to the best,
        # such as its key, is there too)
        fresh = warm = None
        NEG = float("-inf")
        try:
            r0, _, _ = _tracker_model(ctx, c, attr, None, (), {}, method="__init__")
            if len(r0) == 1 and not r0[0][2] and not any(e.kind == "raise" for e in r0[0][0]):
                fresh = {k: v for k, v in _tracker_model.last_envs[0].items() if k.startswith("self.")}
                fresh["self.recorders"] = [Sym("rec1")]
                fresh["self.problem"], fresh["self.evaluator"] = Sym("problem"), Sym("evaluator")
                r1, _, _ = _tracker_model(ctx, c, attr, None, (5,), {}, state=fresh, names=["old"])
                if len(r1) == 1 and not r1[0][2] and not any(e.kind == "raise" for e in r1[0][0]):
                    warm = {k: v for k, v in _tracker_model.last_envs[0].items() if k.startswith("self.")}
                    if warm.get(f"self.{attr}") != Sym("old"):
                        bad.append({"initial_best_rank": None, "batch_ranks": (5,), "stored_best": str(warm.get(f"self.{attr}")), "expected_best": "old",
                                    "reported": [], "expected_flags": [("old", True)]})
                        warm = None
        except Budget:
            fresh = warm = None
        two = [(a, b) for a in RANKS for b in RANKS]
        extreme = [(NEG,), (NEG, 3), (NEG, NEG), (3, NEG)]           # the worst possible aggregate is still a first individual
        for initial_rank in (None, 5):
            for batch in (two + (extreme if initial_rank is None else [(NEG, 7)]) if ctx.tier != "thorough" else
                          two + extreme + [(a, b, c_) for a in RANKS for b in RANKS for c_ in RANKS]):
                scenarios += 1
                init = None if initial_rank is None else Sym("old")
                state = fresh if initial_rank is None else warm
                try:
                    results, inds, ranks = _tracker_model(ctx, c, attr, init, batch, {"old": 5}, state=state)
                except Budget:
                    undecided.append("too many unknown branches")
                    continue
                # reference semantics
                best, flags = (None if init is None else "old"), []
                for i, r in enumerate(batch):
                    t = f"ind{i + 1}"
                    if best is None or r > ranks[best]:
                        best, f = t, True
                    else:
                        f = False
                    flags.append((t, f))
                for trace, rv, notes in results:
                    stores = [e for e in trace if e.kind == "store" and e.name == f"self.{attr}"]
                    final = stores[-1].args[0] if stores else init
                    final_tag = final.tag if isinstance(final, Sym) else None if final is None else "?"
                    regs = [e for e in trace if e.kind == "call" and e.name == "register"]
                    got = []
                    for e in regs:
                        ind = e.kwargs.get("individual", e.args[1] if len(e.args) > 1 else None)
                        fl = e.kwargs.get("is_best", e.args[3] if len(e.args) > 3 else None)
                        got.append((ind.tag if isinstance(ind, Sym) else "?", fl))
                    if any(fl is UNKNOWN or not isinstance(fl, bool) for _, fl in got) or final_tag == "?":
                        undecided.append(f"initial={initial_rank} batch={batch}: flag/best not determined ({got}, {final_tag})")
                        continue
                    if final_tag != best or got != flags:
                        bad.append({"initial_best_rank": initial_rank, "batch_ranks": batch, "stored_best": final_tag, "expected_best": best,
                                    "reported": got, "expected_flags": flags})
        # the same *object* presented again (the incumbent re-registered by elitism or an un-mutated survivor, one individual twice in a batch):
        # it improves on nothing the second time - identity with the stored best is not "a new best"
        for initial_rank, names_, batch in ((5, ["old"], (5,)), (5, ["ind1", "old"], (3, 5)), (5, ["old", "old"], (5, 5)),
                                            (5, ["ind1", "ind1"], (7, 7)), (None, ["ind1", "ind1"], (5, 5)), (None, ["ind1", "ind2", "ind1"], (5, 3, 5))):
            scenarios += 1
            init = None if initial_rank is None else Sym("old")
            state = fresh if initial_rank is None else warm
            try:
                results, inds, ranks = _tracker_model(ctx, c, attr, init, batch, {"old": 5}, state=state, names=names_)
            except Budget:
                undecided.append("too many unknown branches")
                continue
            best, flags = (None if init is None else "old"), []
            for t, r in zip(names_, batch):
                if best is None or r > ranks[best]:
                    best, f = t, True
                else:
                    f = False
                flags.append((t, f))
            for trace, rv, notes in results:
                stores = [e for e in trace if e.kind == "store" and e.name == f"self.{attr}"]
                final = stores[-1].args[0] if stores else init
                final_tag = final.tag if isinstance(final, Sym) else None if final is None else "?"
                got = []
                for e in [e for e in trace if e.kind == "call" and e.name == "register"]:
                    ind = e.kwargs.get("individual", e.args[1] if len(e.args) > 1 else None)
                    fl = e.kwargs.get("is_best", e.args[3] if len(e.args) > 3 else None)
                    got.append((ind.tag if isinstance(ind, Sym) else "?", fl))
                if any(fl is UNKNOWN or not isinstance(fl, bool) for _, fl in got) or final_tag == "?":
                    undecided.append(f"initial={initial_rank} batch={list(zip(names_, batch))}: flag/best not determined ({got}, {final_tag})")
                    continue
                if final_tag != best or got != flags:
                    bad.append({"initial_best_rank": initial_rank, "batch_ranks": tuple(zip(names_, batch)), "stored_best": final_tag, "expected_best": best,
                                "reported": got, "expected_flags": flags})
        n += 1
        if bad:
            w = bad[0]
            ctx.ob("C12.R1", ev, ev.node, f"{c.name}: best and is_best flags match the reference semantics on every modelled batch", False,
                   f"with initial best of rank {w['initial_best_rank']} and a batch of ranks {w['batch_ranks']} the tracker stores "
                   f"'{w['stored_best']}' (expected '{w['expected_best']}') and reports {w['reported']} (expected {w['expected_flags']}): the "
                   f"reported best is not the best evaluated / recorders are misinformed ({len(bad)} of {scenarios} scenarios differ)", witness=bad[:3])
        elif undecided:
            ctx.ob("C12.R1", ev, ev.node, f"{c.name}: best and is_best flags match the reference semantics on every modelled batch", None, undecided[0])
        else:
            ctx.ob("C12.R1", ev, ev.node, f"{c.name}: best and is_best flags match the reference semantics on every modelled batch", True,
                   f"{scenarios} scenarios interpreted")
        # nothing else stores the best
        allowed = {m.fullname for k in prog.mro(c) for m in k.methods.values()}
        for f in prog.functions.values():
            for nd in walk_local(f.node):
                if isinstance(nd, (ast.Assign, ast.AugAssign, ast.AnnAssign)):
                    tg = nd.targets if isinstance(nd, ast.Assign) else [nd.target]
                    for t in tg:
                        if isinstance(t, ast.Attribute) and t.attr == attr:
                            owner_ok = f.cls is not None and (prog.is_subclass(f.cls, c.fullname) or f.fullname in allowed)
                            if not owner_ok and not receiver_may_be(ctx, f, t.value, c.fullname):
                                continue
                            n += 1
                            ctx.ob("C12.R1", f, nd, f"store to .{attr}", owner_ok,
                                   "" if owner_ok else "the stored best is written outside the tracker")
    return n


def rule_r1_multi(ctx: Ctx) -> int:
    """Same model check for the multi-objective tracker: front in {[], [a5], [a5, b5]}, batch of one or two individuals with
    ranks in {3,5,7}; reference: not_dominated = front empty or not all(rank(x) > rank(new)); then front = [new] + {old :
    not rank(new) > rank(old)}; is_best = not_dominated."""
    from ..modelinterp import Sym, UNKNOWN, Budget
    prog = ctx.prog
    n = 0
    for c in prog.subclasses(TRACKER):
        gb = prog.lookup_method(c, "get_best_individuals")
        if gb is None:
            continue
        rets = [r for r in walk_local(gb.node) if isinstance(r, ast.Return) and r.value is not None]
        if len(rets) != 1 or not is_self_attr(rets[0].value):
            continue
        attr = rets[0].value.attr
        ev = prog.lookup_method(c, "evaluate")
        bad, undecided, scenarios = [], [], 0
        for front0 in ([], ["a"], ["a", "b"]):
            for batch in [(a,) for a in RANKS] + [(a, b) for a in RANKS for b in RANKS]:
                scenarios += 1
                try:
                    results, inds, ranks = _tracker_model(ctx, c, attr, [Sym(t) for t in front0], batch, {"a": 5, "b": 5})
                except Budget:
                    undecided.append("too many unknown branches")
                    continue
                front, flags = list(front0), []
                for i, r in enumerate(batch):
                    t = f"ind{i + 1}"
                    nd_ = (not front) or not all(ranks[x] > r for x in front)
                    if nd_:
                        front = [t] + [o for o in front if not (r > ranks[o])]
                    flags.append((t, nd_))
                for trace, rv, notes in results:
                    stores = [e for e in trace if e.kind == "store" and e.name == f"self.{attr}"]
                    final = stores[-1].args[0] if stores else [Sym(t) for t in front0]
                    if not isinstance(final, list) or any(not isinstance(x, Sym) for x in final):
                        undecided.append(f"front0={front0} batch={batch}: front not determined")
                        continue
                    regs = [e for e in trace if e.kind == "call" and e.name == "register"]
                    got = []
                    for e in regs:
                        ind = e.kwargs.get("individual", e.args[1] if len(e.args) > 1 else None)
                        fl = e.kwargs.get("is_best", e.args[3] if len(e.args) > 3 else None)
                        got.append((ind.tag if isinstance(ind, Sym) else "?", fl))
                    if any(not isinstance(fl, bool) for _, fl in got):
                        undecided.append(f"front0={front0} batch={batch}: flag not determined ({got})")
                        continue
                    if sorted(x.tag for x in final) != sorted(front) or got != flags:
                        bad.append({"front": front0, "batch_ranks": batch, "final_front": [x.tag for x in final], "expected_front": front,
                                    "reported": got, "expected_flags": flags})
        n += 1
        if bad:
            w = bad[0]
            ctx.ob("C12.R1", ev, ev.node, f"{c.name}: front and is_best flags match the reference semantics on every modelled batch", False,
                   f"with front {w['front']} (all rank 5) and a batch of ranks {w['batch_ranks']} the front becomes {w['final_front']} (expected "
                   f"{w['expected_front']}) and recorders get {w['reported']} (expected {w['expected_flags']}): a reported best does not attain "
                   f"the best aggregate seen so far ({len(bad)} of {scenarios} scenarios differ)", witness=bad[:3])
        elif undecided:
            ctx.ob("C12.R1", ev, ev.node, f"{c.name}: front and is_best flags match the reference semantics on every modelled batch", None, undecided[0])
        else:
            ctx.ob("C12.R1", ev, ev.node, f"{c.name}: front and is_best flags match the reference semantics on every modelled batch", True,
                   f"{scenarios} scenarios interpreted")
    return n


def rule_r2(ctx: Ctx) -> int:
    prog = ctx.prog
    n = 0
    # is_better implementations
    impls = prog.implementations(PROBLEM, "is_better", include_base=True)
    for f in impls:
        n += 1
        rets = [r for r in walk_local(f.node) if isinstance(r, ast.Return) and r.value is not None]
        a, b = f.params[1], f.params[2]
        ok, why = False, "is_better is not a single strict comparison of the maximising aggregates"
        if len(rets) == 1 and isinstance(rets[0].value, ast.Compare) and len(rets[0].value.ops) == 1:
            cmp_ = rets[0].value
            l, r = cmp_.left, cmp_.comparators[0]

            def agg_of(e):
                if isinstance(e, ast.Attribute) and e.attr == "maximizing_aggregate" and isinstance(e.value, ast.Name):
                    return e.value.id
                if isinstance(e, ast.Subscript) and isinstance(e.value, ast.Name) and isinstance(e.slice, ast.Constant) \
                        and e.slice.value == 0:
                    return e.value.id
                return None
            la, ra = agg_of(l), agg_of(r)
            op = cmp_.ops[0]
            if la and ra:
                if (la, ra) == (a, b) and isinstance(op, ast.Gt) or (la, ra) == (b, a) and isinstance(op, ast.Lt):
                    ok = True
                elif isinstance(op, (ast.GtE, ast.LtE)):
                    why = "is_better is not strict: a tie replaces the stored best and is reported as a new best"
                else:
                    why = "is_better compares in the wrong direction"
        if not ok:
            # another spelling (a key helper, a mirrored comparison, attrgetter): decided by interpreting is_better on fitness objects whose
            # maximising aggregates are (3, 5), (5, 3), (5, 5), (-inf, 5), (5, -inf)
            from ..modelinterp import Budget as _B, Interp as _I, Obj as _O, Sym as _S, UNKNOWN as _U
            # ... and pairs that differ by less than any tolerance a "noise" guard would use: a strictly better aggregate is better however close
            table = [((3, 5), False), ((5, 3), True), ((5, 5), False), ((float("-inf"), 5), False), ((5, float("-inf")), True),
                     ((1000000000147.0, 1000000000109.0), True), ((1000000000109.0, 1000000000147.0), False),
                     ((1.0000000001, 1.0), True), ((1.0, 1.0000000001), False), ((5e-324, 0.0), True), ((0.0, 5e-324), False),
                     ((-3.0, -3.0000000000000004), True), ((2 ** 60 + 1, 2 ** 60), True)]
            got, und_ = [], None
            for (x, y), want in table:
                itp = _I(prog, f.cls, lambda *_: None, lambda *a_, **k_: None, max_depth=5, max_traces=4)
                fa = _O("Fitness", {"maximizing_aggregate": x, "fitness_components": [x]})
                fb = _O("Fitness", {"maximizing_aggregate": y, "fitness_components": [y]})
                try:
                    runs = itp.run(f, {"self": _S("self"), a: fa, b: fb})
                except _B:
                    und_ = "too many interpretations"
                    break
                vals = {rv for tr, rv, nts in runs if not nts and not any(e.kind == "raise" for e in tr)}
                if len(runs) != 1 or len(vals) != 1 or not isinstance(next(iter(vals)), bool):
                    und_ = f"is_better on aggregates {x}, {y} is not followed"
                    break
                got.append((x, y, next(iter(vals)), want))
            if und_ is None:
                wrong = [(x, y, g_, w_) for x, y, g_, w_ in got if g_ != w_]
                ok = not wrong
                if wrong:
                    x, y, g_, w_ = wrong[0]
                    why = (f"is_better(a, b) with aggregates a={x}, b={y} is {g_}, expected {w_}: " +
                           ("a tie replaces the stored best and is reported as a new best" if x == y else
                            "a strictly better fitness within some tolerance of the incumbent is not an improvement: the reported best is worse than an "
                            "individual that was evaluated" if (w_ and not g_ and abs(x - y) <= 1e-6 * max(abs(x), abs(y), 1)) else
                            "the comparison runs in the wrong direction"))
            elif "not a single strict comparison" in why:
                ok = None
                why = und_
        ctx.ob("C12.R2", f, f.node, "is_better(a, b) == a.aggregate > b.aggregate (strict)", ok, "" if ok else why)
    ctx.floor("C12.R2", n, 1, "is_better implementations")

    # single-objective aggregate polarity, under both values of the minimise flag: the Problem class is interpreted
    # (__init__ then evaluate, helpers inlined) with a symbolic fitness function (same model as C13.R3 / R5)
    from ..modelinterp import Budget, SVal, UNKNOWN
    from .c13 import _problem_model
    for cls in prog.subclasses(PROBLEM):
        ev = prog.lookup_method(cls, "evaluate")
        init = prog.lookup_method(cls, "__init__")
        if ev is None or init is None or ev.cls is None or ev.cls.fullname == PROBLEM:
            continue
        if not any(p_ in ("fitness_function", "ff") for p_ in init.params):
            continue
        if "aggregate_fitness" in init.params or "minimize: list" in norm(init.node)[:1500]:
            continue   # multi-objective forms are C13.R3
        for flagval in (True, False):
            n += 1
            res: Optional[int] = None
            und = ""
            try:
                runs = _problem_model(ctx, cls, init, ev, flagval, None, {})
            except Budget:
                runs, und = [], "too many interpretations"
            signs = set()
            for trace, rv, notes in runs:
                if any(e.kind == "raise" for e in trace):
                    continue
                fits = [e for e in trace if e.kind == "call" and e.name == "Fitness"]
                agg = (fits[0].args[0] if fits[0].args else fits[0].kwargs.get("maximizing_aggregate", UNKNOWN)) if len(fits) == 1 else UNKNOWN
                signs.add(agg.sign if isinstance(agg, SVal) and agg.tag == "f" else None)
            res = next(iter(signs)) if len(signs) == 1 else None
            want = -1 if flagval else 1
            ok = res == want
            ctx.ob("C12.R2", ev, ev.node, f"aggregate sign when minimise={flagval}", ok if res is not None else None,
                   "" if ok else (und or f"aggregate is {'+' if res == 1 else '-' if res == -1 else '?'}v when minimise={flagval}"
                                         f" (expected {'-' if want < 0 else '+'}v): the best is chosen in the wrong direction"),
                   witness={"minimise": flagval, "sign": res})
    return n


def _reads_minimize(nd: ast.AST) -> bool:
    return isinstance(nd, ast.Attribute) and nd.attr == "minimize"


def _eval_aggregate(f: FunctionInfo, flagval: bool) -> Optional[int]:
    """Sign of Fitness(<agg>, [v]) relative to v along the function, with every minimise-derived test = flagval."""
    body = f.node.body
    result: set[Optional[int]] = set()
    for p in paths(body, unroll_loops=False):
        env = Env()
        env.facts = env.facts
        mini: set[str] = set()  # locals that denote the minimise flag

        def is_flag(e: ast.AST) -> bool:
            if isinstance(e, ast.Name):
                return e.id in mini
            if isinstance(e, ast.Attribute):
                return e.attr == "minimize"
            if isinstance(e, ast.Subscript):
                return is_flag(e.value)
            if isinstance(e, ast.IfExp):
                return is_flag(e.body) and is_flag(e.orelse)
            if isinstance(e, ast.Call) and call_name(e) == "bool" and e.args:
                return is_flag(e.args[0])
            return False

        feasible = True
        for ev in p:
            if ev[0] == "cond":
                t = ev[1]
                neg = isinstance(t, ast.UnaryOp) and isinstance(t.op, ast.Not)
                core = t.operand if neg else t
                if is_flag(core):
                    if ((flagval != neg)) != ev[2]:
                        feasible = False
                        break
            elif ev[0] == "stmt":
                st = ev[1]
                if isinstance(st, ast.Assign) and len(st.targets) == 1 and isinstance(st.targets[0], ast.Name):
                    nm = st.targets[0].id
                    if is_flag(st.value):
                        mini.add(nm)
                        continue
                    env.vars[nm] = _sign_eval(env, st.value, is_flag, flagval)
                elif isinstance(st, ast.Return) and isinstance(st.value, ast.Call) and call_name(st.value) == "Fitness" \
                        and len(st.value.args) >= 2:
                    agg = _sign_eval(env, st.value.args[0], is_flag, flagval)
                    comp = st.value.args[1]
                    base = None
                    if isinstance(comp, ast.List) and len(comp.elts) == 1:
                        base = _sign_eval(env, comp.elts[0], is_flag, flagval)
                    if isinstance(agg, Lin) and isinstance(base, Lin) and len(base.coef) == 1 and base.const == 0:
                        if agg == base:
                            result.add(1)
                        elif agg == -base:
                            result.add(-1)
                        else:
                            result.add(None)
                    else:
                        result.add(None)
        if not feasible:
            continue
    if len(result) == 1:
        return next(iter(result))
    return None


def _sign_eval(env: Env, e: ast.AST, is_flag, flagval: bool) -> Any:
    """evaluate() with minimise-derived tests resolved to flagval and float()/opaque calls as fresh symbols."""
    if isinstance(e, ast.IfExp):
        t = e.test
        neg = isinstance(t, ast.UnaryOp) and isinstance(t.op, ast.Not)
        core = t.operand if neg else t
        if is_flag(core):
            return _sign_eval(env, e.body if (flagval != neg) else e.orelse, is_flag, flagval)
    if isinstance(e, ast.Call) and call_name(e) == "float" and e.args:
        return _sign_eval(env, e.args[0], is_flag, flagval)
    if isinstance(e, ast.Call):
        return Lin.sym("call:" + norm(e))
    if isinstance(e, ast.UnaryOp) and isinstance(e.op, ast.USub):
        v = _sign_eval(env, e.operand, is_flag, flagval)
        return -v if isinstance(v, Lin) else v
    if isinstance(e, ast.BinOp) and isinstance(e.op, ast.Mult):
        a, b = _sign_eval(env, e.left, is_flag, flagval), _sign_eval(env, e.right, is_flag, flagval)
        if isinstance(a, Lin) and isinstance(b, Lin):
            if a.is_const():
                return b.scale(a.const)
            if b.is_const():
                return a.scale(b.const)
    if isinstance(e, ast.Name) and e.id in env.vars:
        return env.vars[e.id]
    return evaluate(env, e)


def _returns_tracker_best(ctx: Ctx, f: FunctionInfo, v: Optional[ast.AST], depth: int = 0) -> Optional[bool]:
    """True: the tracker's best; False: definitely something else; None: cannot tell."""
    if v is None or (isinstance(v, ast.Constant) and v.value is None):
        return True
    core = v.value if isinstance(v, ast.Subscript) else v
    if isinstance(core, ast.Call) and isinstance(core.func, ast.Attribute) and core.func.attr in ("get_best_individual", "get_best_individuals") \
            and (is_self_attr(core.func.value, "tracker") or (isinstance(core.func.value, ast.Name) and core.func.value.id == "tracker")):
        if isinstance(v, ast.Subscript):
            return core.func.attr == "get_best_individuals" and isinstance(v.slice, ast.Constant) and v.slice.value == 0
        return core.func.attr == "get_best_individual"
    if isinstance(v, ast.Call) and isinstance(v.func, ast.Attribute) and is_self_attr(v.func) and depth < 3:
        owner = ctx.res.enclosing_class(f)
        g = ctx.prog.lookup_method(owner, v.func.attr) if owner else None
        if g is not None:
            rs = [r for r in walk_local(g.node) if isinstance(r, ast.Return)]
            vals = [_returns_tracker_best(ctx, g, r.value, depth + 1) for r in rs]
            if vals and all(x is True for x in vals):
                return True
            if any(x is False for x in vals):
                return False
            return None
    if isinstance(v, ast.Name):
        defs = [a for a in walk_local(f.node) if isinstance(a, ast.Assign) and any(isinstance(t, ast.Name) and t.id == v.id for t in a.targets)]
        vals = [_returns_tracker_best(ctx, f, a.value, depth + 1) for a in defs]
        if vals and all(x is True for x in vals):
            return True
        # a local that is never the tracker's best (an individual built in the loop)
        if defs and all(isinstance(a.value, ast.Call) and call_name(a.value) in ("Individual", "create_genotype", "mutate") for a in defs):
            return False
        return None
    if isinstance(v, ast.Subscript) and isinstance(v.value, ast.Name):
        return None
    if isinstance(v, ast.Call) and not _mentions_tracker(v):
        # a value computed by a function from arguments that do not involve the tracker (the current population, a local list):
        # unless the function itself consults a tracker, it cannot be the best of everything evaluated so far
        callee = None
        if isinstance(v.func, ast.Name):
            full = ctx.prog.resolve_name(f.module, v.func.id)
            callee = ctx.prog.functions.get(full) if full else None
        if callee is not None and not any(_mentions_tracker(x) for x in ast.walk(callee.node)):
            return False
    return None


def _mentions_tracker(e: ast.AST) -> bool:
    return any((isinstance(x, ast.Name) and "tracker" in x.id.lower()) or (isinstance(x, ast.Attribute) and "tracker" in x.attr.lower()) for x in ast.walk(e))


def rule_r3(ctx: Ctx) -> int:
    prog = ctx.prog
    n = 0
    for f in prog.implementations(ALGORITHM, "search"):
        for r in walk_local(f.node):
            if not isinstance(r, ast.Return):
                continue
            n += 1
            ok = _returns_tracker_best(ctx, f, r.value)
            ctx.ob("C12.R3", f, r, f"search returns {norm(r.value) if r.value is not None else 'None'}"[:80], ok,
                   "" if ok else ("search() returns something other than the tracker's best individual (e.g. the best of the current population: an "
                                  "individual evaluated earlier that has dropped out of the population can be strictly better)" if ok is False else
                                  "cannot establish that the returned value is the tracker's best"))
    ctx.floor("C12.R3", n, 4, "return statements of search() implementations")
    return n


def rule_r4(ctx: Ctx) -> int:
    prog, res = ctx.prog, ctx.res
    n = 0
    ev_methods = set()
    for c in prog.subclasses(EVALUATOR, strict=False):
        for m in ("evaluate", "evaluate_async"):
            if m in c.methods:
                ev_methods.add(c.methods[m])
    kth: dict[str, int] = {}
    for f in prog.functions.values():
        for call in res.calls_in(f, include_nested=False):
            if not (isinstance(call.func, ast.Attribute) and call.func.attr in ("evaluate", "evaluate_async")):
                continue
            t = res.resolve(f, call)
            if t.kind != "repo" or not any(g in ev_methods for g in t.targets):
                continue
            n += 1
            owner = ctx.res.enclosing_class(f)
            in_tracker = owner is not None and prog.is_subclass(owner, TRACKER)
            in_evaluator = owner is not None and prog.is_subclass(owner, EVALUATOR)
            ok = in_tracker or in_evaluator
            kth[f.fullname] = kth.get(f.fullname, 0) + 1
            who = (owner.name + "." if owner is not None else "") + f.name
            ctx.ob("C12.R4", f, call, f"{who}: call #{kth[f.fullname]} of the raw evaluator (outside a tracker)", ok,
                   "" if ok else "individuals are evaluated through the raw evaluator, bypassing the tracker: an "
                                 "individual evaluated here and dropped by the step is never compared with the best")
    ctx.floor("C12.R4", n, 3, "resolved Evaluator.evaluate call sites")
    return n


def run(ctx: Ctx) -> None:
    ctx.rule("C12.R1", "tracker state machine: best replaced / is_best reported exactly on 'first' or 'strictly better' paths")
    ctx.rule("C12.R2", "is_better strict '>' in argument order; aggregate = -v iff minimising")
    ctx.rule("C12.R3", "every search() exit returns the tracker's best")
    ctx.rule("C12.R4", "Evaluator.evaluate/evaluate_async called only by trackers")
    n1 = rule_r1_single(ctx)
    ctx.floor("C12.R1", n1, 2, "single-objective tracker model check and stores")
    n1m = rule_r1_multi(ctx)
    ctx.floor("C12.R1", n1m, 1, "multi-objective tracker model check")
    rule_r2(ctx)
    rule_r3(ctx)
    rule_r4(ctx)
    ctx.rule("C12.R5", "every evaluator hands every presented individual (cached or not) back to the tracker")
    impls = ctx.prog.implementations(EVALUATOR, "evaluate_async")
    ctx.floor("C12.R5", len(impls), 2, "evaluate_async implementations")
    from .c13 import yields_verdict
    for f in impls:
        ok5, why5 = yields_verdict(ctx, f.cls, f)
        ctx.ob("C12.R5", f, f.node, "evaluate_async yields every input individual (interpreted on ten batches)", ok5, why5)
    ctx.assumptions += [
        "recorders are informed only through ProgressTracker.evaluate (no other caller of SearchRecorder.register)",
        "floating-point NaN fitness values are outside the decided clause (comparisons with NaN are false)",
    ]
