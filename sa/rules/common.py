"""Helpers shared by several rule modules (anchors found through interfaces)."""
from __future__ import annotations

import ast
from typing import Optional

from ..astutil import call_name, is_self_attr
from ..frontend import AnalysisError, ClassInfo, FunctionInfo, walk_local
from ..report import Ctx

TRACKER = "geneticengine.evaluation.tracker.ProgressTracker"
EVALUATOR = "geneticengine.evaluation.api.Evaluator"
PROBLEM = "geneticengine.problems.Problem"
STEP = "geneticengine.algorithms.gp.structure.GeneticStep"
INITIALIZER = "geneticengine.algorithms.gp.structure.PopulationInitializer"
RANDOM_SOURCE = "geneticengine.random.sources.RandomSource"
DECIDER = "geneticengine.representations.tree.initializations.SynthesisDecider"
REPRESENTATION = "geneticengine.representations.api.Representation"
REPR_MUT = "geneticengine.representations.api.RepresentationWithMutation"
REPR_XO = "geneticengine.representations.api.RepresentationWithCrossover"
METAHANDLER = "geneticengine.grammar.metahandlers.base.MetaHandlerGenerator"
ALGORITHM = "geneticengine.algorithms.api.SynthesisAlgorithm"
BUDGET = "geneticengine.evaluation.budget.SearchBudget"
GRAMMAR = "geneticengine.grammar.grammar.Grammar"
INDIVIDUAL = "geneticengine.solutions.individual.Individual"
RECORDER = "geneticengine.evaluation.recorder.SearchRecorder"


def per_individual_body(ctx: Ctx, c: ClassInfo) -> Optional[tuple[FunctionInfo, list[ast.stmt], str]]:
    """For a tracker class: (function, statements, name of the individual variable) of the code run for each
    individual yielded by evaluate_async; follows one ``self.helper(ind)`` indirection."""
    ev = ctx.prog.lookup_method(c, "evaluate")
    if ev is None:
        return None
    loops = [l for l in walk_local(ev.node) if isinstance(l, ast.For) and isinstance(l.iter, ast.Call)
             and call_name(l.iter) == "evaluate_async"]
    if len(loops) != 1 or not isinstance(loops[0].target, ast.Name):
        return None
    loop = loops[0]
    ind = loop.target.id
    body = loop.body
    if len(body) == 1 and isinstance(body[0], ast.Expr) and isinstance(body[0].value, ast.Call) \
            and is_self_attr(body[0].value.func) and body[0].value.args \
            and isinstance(body[0].value.args[0], ast.Name) and body[0].value.args[0].id == ind:
        h = ctx.prog.lookup_method(c, body[0].value.func.attr)
        if h is not None and len(h.params) >= 2:
            return h, h.node.body, h.params[1]
    return ev, body, ind


def concrete_subclasses(ctx: Ctx, base: str) -> list[ClassInfo]:
    return ctx.prog.subclasses(base)


def receiver_is(ctx: Ctx, fn: FunctionInfo, expr: ast.AST, base: str) -> bool:
    cs = ctx.res.receiver_classes(fn, expr)
    return bool(cs) and all(ctx.prog.is_subclass(c, base) for c in cs)


def receiver_may_be(ctx: Ctx, fn: FunctionInfo, expr: ast.AST, base: str) -> bool:
    cs = ctx.res.receiver_classes(fn, expr)
    return any(ctx.prog.is_subclass(c, base) for c in cs)
