"""Helpers shared by several rule modules (anchors found through interfaces)."""
from __future__ import annotations

import ast
from typing import Optional

from ..astutil import call_name, is_self_attr
from ..frontend import AnalysisError, ClassInfo, FunctionInfo, norm, walk_local
from ..report import Ctx

TRACKER = "geneticengine.evaluation.tracker.ProgressTracker"
EVALUATOR = "geneticengine.evaluation.api.Evaluator"
PROBLEM = "geneticengine.problems.Problem"
STEP = "geneticengine.algorithms.gp.structure.GeneticStep"
INITIALIZER = "geneticengine.algorithms.gp.structure.PopulationInitializer"
RANDOM_SOURCE = "geneticengine.random.sources.RandomSource"
DECIDER = "geneticengine.representations.tree.initializations.SynthesisDecider"
REPRESENTATION = "geneticengine.representations.api.Representation"
REPR_MUT = "geneticengine.representations.api.RepresentationWithMutation"
REPR_XO = "geneticengine.representations.api.RepresentationWithCrossover"
METAHANDLER = "geneticengine.grammar.metahandlers.base.MetaHandlerGenerator"
ALGORITHM = "geneticengine.algorithms.api.SynthesisAlgorithm"
BUDGET = "geneticengine.evaluation.budget.SearchBudget"
GRAMMAR = "geneticengine.grammar.grammar.Grammar"
INDIVIDUAL = "geneticengine.solutions.individual.Individual"
RECORDER = "geneticengine.evaluation.recorder.SearchRecorder"


def per_individual_body(ctx: Ctx, c: ClassInfo) -> Optional[tuple[FunctionInfo, list[ast.stmt], str]]:
    """For a tracker class: (function, statements, name of the individual variable) of the code run for each
    individual yielded by evaluate_async; follows one ``self.helper(ind)`` indirection."""
    ev = ctx.prog.lookup_method(c, "evaluate")
    if ev is None:
        return None
    loops = [l for l in walk_local(ev.node) if isinstance(l, ast.For) and isinstance(l.iter, ast.Call)
             and call_name(l.iter) == "evaluate_async"]
    if len(loops) != 1 or not isinstance(loops[0].target, ast.Name):
        return None
    loop = loops[0]
    ind = loop.target.id
    body = loop.body
    if len(body) == 1 and isinstance(body[0], ast.Expr) and isinstance(body[0].value, ast.Call) \
            and is_self_attr(body[0].value.func) and body[0].value.args \
            and isinstance(body[0].value.args[0], ast.Name) and body[0].value.args[0].id == ind:
        h = ctx.prog.lookup_method(c, body[0].value.func.attr)
        if h is not None and len(h.params) >= 2:
            return h, h.node.body, h.params[1]
    return ev, body, ind


def concrete_subclasses(ctx: Ctx, base: str) -> list[ClassInfo]:
    return ctx.prog.subclasses(base)


def receiver_is(ctx: Ctx, fn: FunctionInfo, expr: ast.AST, base: str) -> bool:
    cs = ctx.res.receiver_classes(fn, expr)
    return bool(cs) and all(ctx.prog.is_subclass(c, base) for c in cs)


def receiver_may_be(ctx: Ctx, fn: FunctionInfo, expr: ast.AST, base: str) -> bool:
    cs = ctx.res.receiver_classes(fn, expr)
    return any(ctx.prog.is_subclass(c, base) for c in cs)


def check_yields_all(ctx: Ctx, rule: str, f: FunctionInfo) -> None:
    """evaluate_async must yield every individual of its input exactly once, cached or not: trackers compare,
    count rows and report 'best' only for what is yielded."""
    from ..paths import paths, stmts_on
    from ..frontend import ancestors
    inp = f.params[2]
    # names holding the complete input
    whole = {inp}
    for a in walk_local(f.node):
        if isinstance(a, ast.Assign) and len(a.targets) == 1 and isinstance(a.targets[0], ast.Name):
            v = a.value
            if isinstance(v, ast.Call) and call_name(v) in ("list", "tuple") and v.args and isinstance(v.args[0], ast.Name) \
                    and v.args[0].id in whole:
                whole.add(a.targets[0].id)
            elif isinstance(v, ast.ListComp) and len(v.generators) == 1 and not v.generators[0].ifs \
                    and isinstance(v.generators[0].iter, ast.Name) and v.generators[0].iter.id in whole \
                    and isinstance(v.elt, ast.Name):
                whole.add(a.targets[0].id)
    ys = [y for y in walk_local(f.node) if isinstance(y, (ast.Yield, ast.YieldFrom))]
    if not ys:
        ctx.ob(rule, f, f.node, "evaluate_async yields every input individual", False,
               "nothing is yielded: trackers never see the evaluated individuals")
        return
    for y in ys:
        if isinstance(y, ast.YieldFrom):
            ok = isinstance(y.value, ast.Name) and y.value.id in whole and not any(
                isinstance(a, (ast.For, ast.While, ast.If)) for a in ancestors(y) if a is not f.node and not isinstance(a, (ast.FunctionDef,)))
            ctx.ob(rule, f, y, "evaluate_async yields every input individual", ok,
                   "" if ok else f"'yield from {norm(y.value)}' does not hand back the complete input unconditionally")
            continue
        loop = next((a for a in ancestors(y) if isinstance(a, (ast.For, ast.AsyncFor))), None)
        if loop is None or not (isinstance(loop.iter, ast.Name) and loop.iter.id in whole and isinstance(loop.target, ast.Name)):
            ctx.ob(rule, f, y, "evaluate_async yields every input individual", False,
                   "the yield is not inside a loop over the complete input")
            continue
        var = loop.target.id
        bad = []
        for pth in paths(loop.body, unroll_loops=False):
            n = sum(1 for st in stmts_on(pth) for z in ast.walk(st) if isinstance(z, ast.Yield)
                    and isinstance(z.value, ast.Name) and z.value.id == var)
            if n != 1 and pth[-1][1] != "raise":
                bad.append((n, [norm(t)[:40] + "=" + str(pol) for (k_, t, pol) in [e for e in pth if e[0] == "cond"]]))
        ctx.ob(rule, f, y, "evaluate_async yields every input individual exactly once (cached or not)", not bad,
               "" if not bad else f"on the path {bad[0][1]} the individual is yielded {bad[0][0]} times: a tracker never "
                                  f"sees (compares, records) an individual that already had a fitness",
               witness=bad)
        break


def weight_writers(prog) -> set:
    """functions that may store production weights: the weight decorator, Grammar.update_weights, and private helpers (methods or
    module-level functions of the grammar package whose name starts with '_') all of whose callers are such functions"""
    import ast as _ast
    from ..astutil import call_name as _cn
    from ..frontend import walk_local as _wl
    allowed = {f.fullname for f in prog.functions.values() if f.fullname == "geneticengine.grammar.grammar:Grammar.update_weights"
               or f.fullname.startswith("geneticengine.grammar.decorators:weight")}
    changed = True
    while changed:
        changed = False
        for g in prog.functions.values():
            if g.fullname in allowed or g.name.startswith("__") or not g.module.name.startswith("geneticengine.grammar"):
                continue
            if not any(isinstance(x, _ast.Constant) and x.value == "weight" for x in _ast.walk(g.node)):
                continue      # only helpers that touch the weight entry are candidates
            callers = [f for f in prog.functions.values() if f is not g and f.module.name.startswith("geneticengine")
                       for c in _wl(f.node, include_nested=True) if isinstance(c, _ast.Call) and _cn(c) == g.name]
            if callers and all(f.fullname in allowed for f in callers):
                allowed.add(g.fullname)
                changed = True
    return allowed


def memo_rule(ctx: Ctx, rid: str, fns) -> int:
    """Memo-key completeness (sa/memo.py) over the given functions: one obligation per memo site - the key must determine every
    parameter the stored value depends on.  Returns the number of sites."""
    from ..memo import describe, memo_sites, selfcheck
    selfcheck()          # the expected number of findings is zero: the built-in examples must be classified on every run
    n = 0
    for f in sorted(fns, key=lambda x: x.fullname):
        for s in memo_sites(f):
            n += 1
            key = f"keyed by '{norm(s.key)}'" if s.key is not None else "filled once"
            ctx.ob(rid, f, s.node, f"memo {s.table} ({key}): the key determines the stored value", not s.missing, describe(s) if s.missing else "")
    return n


def weight_store_sites(f: FunctionInfo) -> list:
    """statements / calls of f that write the 'weight' entry of a metadata dict: d["weight"] = v, d["weight"] += v, d.setdefault("weight", v),
    d.update(weight=v) / d.update({"weight": v}), d.__setitem__("weight", v), d.pop("weight") / del d["weight"]"""
    out = []
    for nd in walk_local(f.node):
        if isinstance(nd, (ast.Assign, ast.AugAssign, ast.Delete)):
            tg = nd.targets if isinstance(nd, (ast.Assign, ast.Delete)) else [nd.target]
            if any(isinstance(t, ast.Subscript) and isinstance(t.slice, ast.Constant) and t.slice.value == "weight" for t in tg):
                out.append(nd)
        elif isinstance(nd, ast.Call) and isinstance(nd.func, ast.Attribute):
            a0 = nd.args[0] if nd.args else None
            if nd.func.attr in ("setdefault", "__setitem__", "pop") and isinstance(a0, ast.Constant) and a0.value == "weight" \
                    and not (nd.func.attr == "pop" and isinstance(nd.func.value, ast.Name) and nd.func.value.id == "kwargs"):
                out.append(nd)
            elif nd.func.attr == "update" and (any(k.arg == "weight" for k in nd.keywords) or
                                               (isinstance(a0, ast.Dict) and any(isinstance(k, ast.Constant) and k.value == "weight" for k in a0.keys))):
                out.append(nd)
    return out


def operator_instances(prog, iface: str, meth: str) -> list[FunctionInfo]:
    """Every implementation of *meth* below *iface* as it runs in a concrete class: the definitions in classes that leave no hook abstract, plus -
    for a concrete class that inherits the method from a base with abstract hooks (template method) - the inherited definition with the concrete
    class as receiver (a copy of the FunctionInfo whose .cls is that class, so that self.hook(...) resolves from there)."""
    import dataclasses
    from ..frontend import is_stub
    out: list[FunctionInfo] = []
    seen: set = set()
    for c in prog.subclasses(iface):
        f = prog.lookup_method(c, meth)
        if f is None or f.cls is None or is_stub(f.node) or f.cls.fullname == iface:
            continue
        hooks = {x.func.attr for x in walk_local(f.node) if isinstance(x, ast.Call) and is_self_attr(x.func)}
        targets = {h: prog.lookup_method(c, h) for h in hooks}
        if any(t is not None and is_stub(t.node) for t in targets.values()):
            continue            # this class leaves a hook abstract: it is analysed through its concrete subclasses
        if f.cls is c:
            key = (f.fullname, None)
            g = f
        else:
            base_targets = {h: prog.lookup_method(f.cls, h) for h in hooks}
            if all(base_targets[h] is targets[h] for h in hooks):
                key = (f.fullname, None)          # inherited unchanged, nothing overridden: the definition itself
                g = f
            else:
                key = (f.fullname, c.fullname)
                g = dataclasses.replace(f, cls=c)
        if key not in seen:
            seen.add(key)
            out.append(g)
    return out
