"""Whole-program model of the metadata fold.

Every program that depth-limited creation can produce on the creation model grammars (sa/rules/creationmodel.py, limit 3) is
handed - as a tree of model node objects - to the repository's own `relabel_nodes_of_trees(program, grammar)`, interpreted
recursively by sa/modelinterp with the grammar tables taken from the interpreted grammar analysis (sa/rules/grammodel.py).
Afterwards every node of the program carries gengy_nodes / gengy_distance_to_term / gengy_weighted_nodes / gengy_types_this_way;
they are compared with an independent traversal of the same tree:

    leaves      = base values and productions without fields ("terminals"): height 0, not counted, weight 0
    height(n)   = 1 + max(height(c)) over the fields c                       ("distance to the deepest terminal", in edges)
    nodes(n)    = 1 + sum of nodes(c)                                        (number of non-terminal nodes)
    weighted(n) = height(n) + sum of weighted(c)
    index(n)    = for every type, the values of that type in the subtree (the node itself included, base values too)

The leaf convention is the repository's own: tests/representations/tree_based/relabel_test.py pins gengy_distance_to_term == 0
for a production without fields, and the default depth mode counts base values as 0.  Default depth mode only (in expansion-depthing mode the metadata adds abstract-expansion counts; that table is C11.R6).
"""
from __future__ import annotations

import ast
from typing import Any, Optional

from ..astutil import call_name
from ..frontend import AnalysisError
from ..modelinterp import BUILTIN_TYPES, Budget, DDict, Interp, Obj, Sym, TypeV, UNKNOWN, _NONE
from .creationmodel import CREATION_FAMILY, enumerate_creation
from .grammodel import C, INT, ModelGrammar, interpret, reference

RELABEL = "geneticengine.representations.tree.utils:relabel_nodes_of_trees"


def to_node(v: Any) -> Any:
    """creation-model value -> node object with the attributes the library sets at construction"""
    if isinstance(v, Obj) and v.cls.startswith("node:"):
        return Obj(v.cls, {"gengy_init_values": [to_node(x) for x in v.fields.get("args", [])]})
    return v


def ref_meta(v: Any, g: Optional[ModelGrammar] = None, e: int = 0, hops: Optional[dict] = None) -> Optional[dict]:
    """traversal values; e = 1: expansion-depthing convention (leaves count 1, every abstract expansion is a node and a level)"""
    if not (isinstance(v, Obj) and v.cls.startswith("node:")):
        return None
    name = v.cls[5:]
    kids = [c for c in v.fields["gengy_init_values"]]
    metas = [ref_meta(c, g, e, hops) for c in kids]
    index: dict = {name: [id(v)]}
    for c, m in zip(kids, metas):
        if m:
            for k, xs in m["index"].items():
                index.setdefault(k, []).extend(xs)
        else:
            index.setdefault("int", []).append(id(c))
    if not kids:
        return {"nodes": e, "depth": e, "weighted": e, "index": index}      # a terminal production: a leaf
    adj = [0] * len(kids)
    if e and g is not None and hops is not None:
        for i, ((_, ft), c) in enumerate(zip(g.classes[name][2], kids)):
            if ft.kind == "class" and ft.name in g.classes and g.is_abstract(ft.name) and isinstance(c, Obj):
                adj[i] = hops.get(ft.name, {}).get(c.cls[5:], 0)
    cm = [m if m else {"nodes": e, "depth": e, "weighted": e} for m in metas]
    nodes = 1 + sum(a + m["nodes"] for a, m in zip(adj, cm))
    depth = max([1] + [m["depth"] + a + 1 for a, m in zip(adj, cm)])
    weighted = depth + sum(m["weighted"] for m in cm)
    return {"nodes": nodes, "depth": depth, "weighted": weighted, "index": index}


def all_nodes(v: Any):
    if isinstance(v, Obj) and v.cls.startswith("node:"):
        yield v
        for c in v.fields["gengy_init_values"]:
            yield from all_nodes(c)


def text(v: Any) -> str:
    if isinstance(v, Obj) and v.cls.startswith("node:"):
        return f"{v.cls[5:]}({', '.join(text(x) for x in v.fields['gengy_init_values'])})"
    return "int" if isinstance(v, Sym) else repr(v)


def label_program(ctx, g: ModelGrammar, tables: dict, program: Any, e: int = 0):
    """interpret relabel_nodes_of_trees(program, grammar); (ok, why-not)"""
    prog = ctx.prog
    fn = prog.functions.get(RELABEL)
    if fn is None:
        raise AnalysisError(f"anchor function missing: {RELABEL}")

    def tname(v: Any) -> Any:
        if isinstance(v, Obj) and v.cls.startswith("node:"):
            return C(v.cls[5:])
        if isinstance(v, Sym):
            return INT
        if isinstance(v, list):
            return BUILTIN_TYPES["list"]
        return UNKNOWN

    def call_model(it, call, env, args, kwargs):
        nm = call_name(call)
        if nm == "type" and len(args) == 1:
            return tname(args[0])
        if nm == "getattr" and len(args) >= 2 and isinstance(args[1], str):
            if isinstance(args[0], Obj):
                return args[0].fields.get(args[1], args[2] if len(args) > 2 else UNKNOWN)
            return args[2] if len(args) > 2 else UNKNOWN
        if nm == "hasattr" and len(args) == 2 and isinstance(args[1], str):
            return isinstance(args[0], Obj) and args[1] in args[0].fields
        if nm == "isinstance" and len(args) == 2 and isinstance(args[0], (Obj, Sym)):
            tys = args[1] if isinstance(args[1], list) else [args[1]]
            if all(isinstance(t, TypeV) for t in tys):
                if isinstance(args[0], Sym):
                    return any(t == INT for t in tys)        # base values of the model are ints
                return False                                   # a node object is not a list / tuple / base value
            return None
        if nm == "is_builtin" and len(args) == 1 and isinstance(args[0], TypeV):
            return args[0].kind == "builtin"
        if nm == "is_abstract" and len(args) == 1 and isinstance(args[0], TypeV):
            return args[0].name in g.classes and g.is_abstract(args[0].name)
        if nm == "get_arguments" and len(args) == 1:
            t = tname(args[0]) if not isinstance(args[0], TypeV) else args[0]
            return [[a, ft] for a, ft in g.classes.get(getattr(t, "name", ""), (None, None, []))[2]]
        return None

    it = Interp(prog, None, lambda *_: None, call_model, max_depth=60, max_traces=2)
    it.allow_recursion = True
    it.strict_iter = True
    p = fn.params
    # the grammar is an object of the Grammar class holding the tables its constructor / preprocess left: methods called on it
    # (a helper that looks a distance up, a memo kept on the grammar) are followed with that state
    from .grammodel import GRAMMAR
    gfields = {k[5:]: v for k, v in tables.items() if k.startswith("self.") and "." not in k[5:]}
    gfields["expansion_depthing"] = bool(e)
    gfields.setdefault("abstract_dist_to_t", {})
    gobj = Obj("Grammar", gfields, GRAMMAR) if GRAMMAR in prog.classes else Sym("grammar")
    env = {p[0]: program, p[1]: gobj, f"{p[1]}.non_terminals": tables["self.non_terminals"],
           f"{p[1]}.expansion_depthing": bool(e), f"{p[1]}.abstract_dist_to_t": tables.get("self.abstract_dist_to_t", {})}
    try:
        runs = it.run(fn, env)
    except Budget:
        return None, f"a branch depends on something the model does not determine ({it.fork_sites[:1]})"
    trace, rv, notes = runs[0]
    if notes:
        return None, notes[0]
    raised = [e for e in trace if e.kind == "raise"]
    if raised:
        return False, f"labelling the program fails with {raised[-1].name}"
    labelled = it.envs[0].get(p[0])
    return labelled, ""


def label_rule(ctx, rid: str) -> int:
    """one obligation per creation model grammar: every node of every program of depth <= 3 carries the traversal's values"""
    fn = ctx.prog.functions.get(RELABEL)
    n = 0
    for g, e in [(g_, e_) for g_ in CREATION_FAMILY for e_ in (0, 1)]:
        n += 1
        construct = (f"model grammar '{g.name}'" + (" [expansion_depthing=True]" if e else "")
                     + ": metadata of every node of every program of depth <= 3 equals an independent traversal")
        tables, why = interpret(ctx, g, e)
        hops = reference(g, e)["hops"]
        if tables is None:
            ctx.ob(rid, fn, fn.node if fn else None, construct, None, f"grammar tables not followed: {why}")
            continue
        programs, failures, notes, runs = enumerate_creation(ctx, g, "MaxDepthDecider", 3)
        if notes or not programs:
            ctx.ob(rid, fn, fn.node if fn else None, construct, None, (notes or ["no model programs"])[0])
            continue
        verdict: Optional[bool] = True
        detail = ""
        checked = 0
        for txt, v in sorted(programs.items()):
            tree = to_node(v)
            labelled, why = label_program(ctx, g, tables, tree, e)
            if labelled is None:
                verdict, detail = None, f"{txt}: {why}"
                break
            if labelled is False:
                verdict, detail = False, f"{txt}: {why}"
                break
            # the interpreter works on a copy of the environment: compare the labelled copy node by node
            for node in reversed(list(all_nodes(labelled))):      # innermost nodes first: the report names the smallest wrong subtree
                checked += 1
                want = ref_meta(node, g, e, hops)
                f = node.fields
                got = {"nodes": f.get("gengy_nodes"), "depth": f.get("gengy_distance_to_term"), "weighted": f.get("gengy_weighted_nodes")}
                for k, label in (("nodes", "node count"), ("depth", "distance to the deepest terminal"), ("weighted", "weighted size")):
                    if not isinstance(got[k], int) or isinstance(got[k], bool):
                        verdict, detail = None, f"{txt}: {label} of {text(node)} is not a number in the model ({got[k]!r})"
                        break
                    if got[k] != want[k]:
                        verdict = False
                        detail = f"in {txt} the node {text(node)} carries {label} {got[k]}; an independent traversal of that subtree gives {want[k]}"
                        break
                if verdict is not True:
                    break
                idx = f.get("gengy_types_this_way")
                if not isinstance(idx, dict):
                    verdict, detail = None, f"{txt}: the type index of {text(node)} is not followed"
                    break
                gotidx = {(k.name if isinstance(k, TypeV) else str(k)): [id(x) for x in xs] for k, xs in idx.items() if isinstance(xs, list) and xs}
                wantidx = {k: xs for k, xs in want["index"].items()}
                if {k: sorted(v_) for k, v_ in gotidx.items()} != {k: sorted(v_) for k, v_ in wantidx.items()}:
                    k_ = next(k for k in sorted(set(gotidx) | set(wantidx)) if sorted(gotidx.get(k, [])) != sorted(wantidx.get(k, [])))
                    verdict = False
                    detail = (f"in {txt} the type index of {text(node)} lists {len(gotidx.get(k_, []))} value(s) of type {k_}; "
                              f"the subtree holds {len(wantidx.get(k_, []))}")
                    break
            if verdict is not True:
                break
        ctx.ob(rid, fn, fn.node if fn else None, construct, verdict, detail, witness={"programs": len(programs), "nodes_checked": checked})
    return n
