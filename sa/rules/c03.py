"""C03 - depth limits are respected and every feasible depth limit is usable (structural clauses)."""
from __future__ import annotations

import ast
from typing import Optional

from ..astutil import call_name, guards
from ..frontend import norm, walk_local
from ..report import Ctx
from .depthrules import filter_rule, polarity_rule, table_rule, validate_rule

LEVEL_TEXT = (
    "Static rules: (R1) for every type form (tuple, list, annotated, refined list, union, abstract, concrete) the"
    " increment that the tree creator applies to the depth of the children - obtained by interpreting create_node"
    " (sa/treemodel.py) with a context at depth 2 and reading the depth of the context handed to every recursive "
    "creation, including the one made by the callback given to a refinement - is compared with the increment the "
    "grammar's distance table charges for that form - get_distance_to_terminal interpreted on a symbolic type of "
    "each form with symbolic table entries in both depth modes, and, for abstract symbols and productions, the "
    "tables the interpreted grammar analysis ends with on a probe grammar: true contribution <= creation "
    "increment <= distance increment; (R2) every depth-limited chooser is abstractly interpreted path by path "
    "(affine domain, helpers inlined): the list handed to random.choice is a chain of comprehension filters over "
    "the offered alternatives whose every disjunct entails distance <= max_depth - ctx.depth, and unless the path"
    " conditions say the list is non-empty every alternative that fits passes the filters; (R3) each depth-"
    "limited decider validates at construction (constructors interpreted: the limit is stored, forwarded "
    "unchanged through super().__init__ chains, validate is called after it is stored), every raising path of "
    "validate (found through the hierarchy, mixins included) entails max_depth < grammar minimum and every "
    "returning path the converse, the error is the library's; the rejection is also executed in the model (limit "
    "1, minimum 3 or the 'unreachable' sentinel; a grammar whose start symbol has productions and one whose start"
    " symbol is a concrete class, table lookups strict): every run ends in the library's error, never in a "
    "KeyError of the message-building code; (R4) mutate is interpreted on a node with a stored context: it is re-"
    "created under that very context; (R5) AND forms aggregate minimum depths with max; (R7) the synthesis "
    "context stored on a created value is the context it was created under (create_node interpreted per form with"
    " a context at depth 2: every context stored on the returned value holds depth 2), so that re-creation under "
    "the stored context (R4) does not drift deeper with every mutation; (R6) creation model "
    "(sa/rules/creationmodel.py): random_node interpreted with each real decider object - MaxDepth, position-"
    "independent grow, Full, dynamic-SGE - over ALL decision scripts (an attribute a decider reads but no "
    "constructor sets is a failure, not a guess) on four model grammars and every limit from the grammar minimum "
    "to 3 (thorough: 4): no produced program is deeper than the limit and no decision sequence fails. Small "
    "scope: the listed grammars and limits. A crossover donor's depth is not compared with the remaining budget "
    "anywhere in the code; that path is dormant (see C06) and no rule is armed on it."
)
MUTATE = "geneticengine.representations.tree.treebased:mutate"


def rule_r7(ctx: Ctx) -> None:
    """The context stored on a created value is the context it was created under: variation (R4) re-creates a node under its
    stored context, so a stored context that is one level down makes every mutation of that node drift one level deeper.
    create_node is interpreted (sa/treemodel.py) per type form with a context (depth 2, nodes 1, expansions 1); every store of
    a synthesis context on the value being returned must hold depth 2."""
    from ..modelinterp import Budget, Obj
    from ..treemodel import (A, ABSTRACT, ANN_INT, ANN_LIST, CREATE_NODE, LIST_A, PROD, TUPLE_AB, TreeModel, UNION_AB, create_node_runs)
    fn = ctx.fn(CREATE_NODE)
    model = TreeModel(ctx, fields={PROD: [("f1", A), ("f2", A)]})
    n = 0
    for form, sym in (("tuple", TUPLE_AB), ("list", LIST_A), ("annotated", ANN_INT), ("refined list", ANN_LIST), ("union", UNION_AB),
                      ("abstract", ABSTRACT), ("concrete", PROD)):
        try:
            runs = create_node_runs(ctx, model, sym, depth=2)
        except Budget:
            ctx.ob("C03.R7", fn, fn.node, f"{form}: the stored synthesis context is the one the value was created under", None, "too many interpretations")
            continue
        stores = []
        for trace, rv, notes in runs:
            if any(e.kind == "raise" for e in trace):
                continue
            for e in trace:
                if e.kind == "store" and e.name.endswith(".gengy_synthesis_context") and e.args:
                    c_ = e.args[0]
                    stores.append((c_.fields.get("depth") if isinstance(c_, Obj) else None, e.node))
        if not stores:
            continue
        n += 1
        bad = [(d_, nd) for d_, nd in stores if d_ != 2]
        und = [x for x in bad if not isinstance(x[0], int)]
        ctx.ob("C03.R7", fn, (bad[0][1] if bad else stores[0][1]) or fn.node, f"{form}: the stored synthesis context is the one the value was created under",
               (None if und else False) if bad else True,
               "" if not bad else (f"a {form} value created under a context at depth 2 stores a context at depth {bad[0][0]}: mutation re-creates the node under its "
                                   f"stored context, so every mutation of such a node moves it one level down and the limit is exceeded after a few"
                                   if not und else "the stored context is not followed"))
    ctx.floor("C03.R7", n, 4, "type forms that store a context")


def rule_r4(ctx: Ctx) -> None:
    """Tree variation re-creates subtrees under the stored context of the node it replaces: mutate is interpreted
    (sa/treemodel.py) on a node selected for replacement that carries a stored synthesis context at depth 5 - every
    create_node call must receive that very context; a node without a stored context may be re-created under a fresh one."""
    from ..modelinterp import Budget, Obj, Sym, TypeV, UNKNOWN
    from ..treemodel import TreeModel
    mu = ctx.fn(MUTATE)
    NODE = TypeV("class", "N")
    n = 0
    for has_ctx in (True, False):
        model = TreeModel(ctx, fields={NODE: [("f1", TypeV("class", "T1"))]}, ints={"mutate:random_int": 0},
                          hasattrs={"node": {"gengy_synthesis_context": has_ctx, "synthesis_context": False}, "__typeof__": {"node": NODE}},
                          extra_calls={"has_annotated_mutation": lambda *a, **k: False})
        it = model.interp()
        p = mu.params
        stored = Obj("LocalSynthesisContext", {"depth": 5, "nodes": 7, "expansions": 3, "dependent_values": {}})
        env = {p[0]: Obj("GlobalSynthesisContext", {"random": Sym("random"), "grammar": Sym("grammar"), "decider": Sym("decider")}),
               p[1]: Sym("node"), p[2]: NODE, f"{p[1]}.gengy_weighted_nodes": 3, f"{p[1]}.gengy_init_values": [Sym("v1")]}
        if has_ctx:
            env[f"{p[1]}.gengy_synthesis_context"] = stored
        for extra in p[3:]:
            env[extra] = None
        try:
            runs = it.run(mu, env)
        except Budget:
            ctx.ob("C03.R4", mu, mu.node, f"re-creation context (node {'with' if has_ctx else 'without'} a stored context)", None, "too many interpretations")
            continue
        verdict: Optional[bool] = True
        why = ""
        node = mu.node
        seen = 0
        for trace, rv, notes in runs:
            if any(e.kind == "raise" for e in trace):
                continue
            for e in [e for e in trace if e.kind == "call" and e.name == "create_node"]:
                seen += 1
                n += 1
                c_ = e.kwargs.get("context")
                if has_ctx:
                    same = isinstance(c_, Obj) and c_.fields.get("depth") == 5 and c_.fields.get("nodes") == 7
                    if not same:
                        verdict = False if isinstance(c_, Obj) else None
                        node = e.node
                        why = (f"a node that has a stored context (depth 5) is re-created under {c_!r} instead of its stored context: the "
                               f"new subtree is budgeted as if it started at another depth and can exceed the limit")
                elif not isinstance(c_, Obj):
                    verdict, node, why = None, e.node, f"re-creation context {c_!r} not followed"
        if seen == 0:
            verdict, why = None, "no re-creation (create_node) call is reached in the model"
        ctx.ob("C03.R4", mu, node, f"re-creation of a node {'with a stored context uses that context' if has_ctx else 'without a stored context uses a fresh context'}",
               verdict, why)
    ctx.floor("C03.R4", n, 2, "create_node calls reached in interpreted tree variation")


def run(ctx: Ctx) -> None:
    from .creationmodel import creation_rule
    ctx.rule("C03.R6", "over ALL decision sequences on the creation model grammars: no program deeper than the limit, no failing sequence at a feasible limit")
    ctx.floor("C03.R6", creation_rule(ctx, "C03.R6", "bounded"), 20, "model grammar x decider x limit")
    ctx.rule("C03.R1", "per type form: true contribution <= creation's depth increment <= distance table's increment (both modes)")
    ctx.rule("C03.R2", "depth filters keep only alternatives that fit; the last-resort filter keeps all that fit")
    ctx.rule("C03.R3", "limits validated at construction; the library error is raised exactly for max_depth < grammar minimum")
    ctx.rule("C03.R4", "variation re-creates subtrees under the stored context of the replaced node")
    table_rule(ctx, "C03.R1", equality=False)
    ctx.rule("C03.R5", "forms whose parts are all built (tuple, concrete production) aggregate minimum depths with max")
    polarity_rule(ctx, "C03.R5", sides=("and",))
    filter_rule(ctx, "C03.R2")
    validate_rule(ctx, "C03.R3")
    rule_r4(ctx)
    ctx.rule("C03.R7", "the synthesis context stored on a created value is the context it was created under (variation re-creates under it)")
    rule_r7(ctx)
    ctx.assumptions += ["the distance table itself is exact for the forms it covers (its value is a fixpoint: C05)"]
