"""C03 - depth limits are respected and every feasible depth limit is usable (structural clauses)."""
from __future__ import annotations

import ast

from ..astutil import call_name, guards
from ..frontend import norm, walk_local
from ..report import Ctx
from .depthrules import filter_rule, polarity_rule, table_rule, validate_rule

LEVEL_TEXT = (
    "Static rules: (R1) for every type form (tuple, list, annotated, union, abstract, concrete) the increment that the "
    "tree creator applies to the depth of the children (extracted from the child context it builds, including helper "
    "methods on the context) is compared with the increment the grammar's distance table charges for that form "
    "(extracted from get_distance_to_terminal and the two equations of preprocess), in both depth-counting modes: "
    "true contribution <= creation increment <= distance increment - the left inequality keeps programs within the "
    "limit, the right one guarantees that a node admitted by the filter always has an admissible child, so creation "
    "cannot fail midway at a feasible limit; (R2) every list a depth-limited chooser can select from keeps only "
    "alternatives with distance <= max_depth - ctx.depth (affine entailment per disjunct), and the last-resort list "
    "keeps all of them; (R3) each depth-limited decider validates at construction and raises the library error exactly "
    "for max_depth < grammar minimum; (R4) tree variation re-creates subtrees under the stored context of the replaced "
    "node. A crossover donor's depth is not compared with the remaining budget anywhere in the code; that path is "
    "dormant (see C06) and no rule is armed on it."
)
MUTATE = "geneticengine.representations.tree.treebased:mutate"


def rule_r4(ctx: Ctx) -> None:
    mu = ctx.fn(MUTATE)
    n = 0
    for c in walk_local(mu.node):
        if isinstance(c, ast.Call) and isinstance(c.func, ast.Name) and c.func.id == "create_node" and len(c.args) >= 3:
            n += 1
            cexpr = c.args[2]
            gs = guards(c, stop=mu.node)
            has_ctx = None
            for t, pol in gs:
                neg = False
                core = t
                while isinstance(core, ast.UnaryOp) and isinstance(core.op, ast.Not):
                    neg, core = not neg, core.operand
                if isinstance(core, ast.Call) and call_name(core) == "hasattr" and len(core.args) == 2 \
                        and isinstance(core.args[1], ast.Constant) and core.args[1].value == "gengy_synthesis_context":
                    has_ctx = (pol != neg)
            stored = isinstance(cexpr, ast.Attribute) and cexpr.attr == "gengy_synthesis_context"
            fresh = isinstance(cexpr, ast.Call) and call_name(cexpr) == "LocalSynthesisContext"
            if has_ctx is False:
                ok = fresh or stored
                why = ""
            else:
                ok = stored
                why = "" if ok else (f"a node that has a stored context is re-created under '{norm(cexpr)[:50]}' instead of its stored "
                                     f"context: the new subtree is budgeted as if it started at depth 0 and can exceed the limit")
            ctx.ob("C03.R4", mu, c, f"re-creation uses {'the stored context' if stored else norm(cexpr)[:40]}", ok, why)
    ctx.floor("C03.R4", n, 2, "create_node calls in tree variation")


def run(ctx: Ctx) -> None:
    ctx.rule("C03.R1", "per type form: true contribution <= creation's depth increment <= distance table's increment (both modes)")
    ctx.rule("C03.R2", "depth filters keep only alternatives that fit; the last-resort filter keeps all that fit")
    ctx.rule("C03.R3", "limits validated at construction; the library error is raised exactly for max_depth < grammar minimum")
    ctx.rule("C03.R4", "variation re-creates subtrees under the stored context of the replaced node")
    table_rule(ctx, "C03.R1", equality=False)
    ctx.rule("C03.R5", "forms whose parts are all built (tuple, concrete production) aggregate minimum depths with max")
    polarity_rule(ctx, "C03.R5", sides=("and",))
    filter_rule(ctx, "C03.R2")
    validate_rule(ctx, "C03.R3")
    rule_r4(ctx)
    ctx.assumptions += ["the distance table itself is exact for the forms it covers (its value is a fixpoint: C05)"]
