"""C09 - operators and steps never modify their inputs (structural clauses)."""
from __future__ import annotations

import ast
from typing import Optional

from ..astutil import call_name, guards, is_self_attr
from ..frontend import AnalysisError, FunctionInfo, ancestors, dotted, is_stub, norm, parent, walk_local
from ..mutation import MutationAnalysis
from ..report import Ctx
from .common import INITIALIZER, METAHANDLER, REPR_MUT, REPR_XO, STEP

LEVEL_TEXT = (
    "Static rules: (R1) may-mutate effect analysis with a freshness lattice from every variation entry point "
    "(mutate / crossover of the representations and of the list / string refinements, iterate / pre_iterate / "
    "post_iterate / apply of every step) with the genotype / parent / population parameters as owned roots: no "
    "store, del, in-place operation or mutating method reaches them directly or through a resolved callee (allow-"
    "list with reasons: fitness and phenotype memoisation, Genotype.get, evaluators); (R2) relabel_nodes is "
    "interpreted (finite model): an already labelled node and its subtree are left untouched, and the labelled "
    "flag is set whenever metadata is written; (R3) for a genotype class with an in-place growing method, "
    "offspring gene containers are copied to full depth, and no variation operator hands back the parent object "
    "itself as the offspring on any path (the next in-place growth or cached phenotype would then be shared); "
    "(R4) no unguarded subscript read on an attribute that holds an auto-vivifying defaultdict (guards include "
    "guard clauses and short-circuit operands; no subscript read at all - lookups through .get / membership - is "
    "the safe case). (R5) the components recorded in a Fitness are a list of the library's own, not the object "
    "the user's fitness function returned (Problem model shared with C13: a function that reuses its result list "
    "would rewrite the fitness cached on other input individuals). Decides these for all parents and populations;"
    " aliasing through dynamic attribute names is not decided."
)

ALLOW = {
    "geneticengine.solutions.individual:Individual.set_fitness": "memoisation of the computed fitness (guarded by has_fitness)",
    "geneticengine.solutions.individual:Individual.get_phenotype": "memoisation of the mapped phenotype (guarded by 'is None')",
    "geneticengine.solutions.individual:Individual.ensure_fitness": "memoisation fallback",
    "geneticengine.representations.grammatical_evolution.dynamic_structured_ge:Genotype.get": "permitted on-demand extension of the genotype itself (C07 statement)",
    "geneticengine.evaluation.api:Evaluator.evaluate": "evaluation only memoises fitness on individuals",
    "geneticengine.evaluation.api:Evaluator.evaluate_async": "evaluation only memoises fitness on individuals",
    "geneticengine.evaluation.sequential:SequentialEvaluator.evaluate_async": "evaluation only memoises fitness on individuals",
    "geneticengine.evaluation.parallel:ParallelEvaluator.evaluate_async": "evaluation only memoises fitness on individuals",
}
RELABEL = "geneticengine.representations.tree.utils:relabel_nodes"


def run(ctx: Ctx) -> None:
    prog, res = ctx.prog, ctx.res
    ctx.rule("C09.R1", "no store / in-place operation reaches an input genotype, individual or population (interprocedural)")
    ctx.rule("C09.R2", "relabelling is write-once: metadata stores only behind the 'already labelled' early return")
    ctx.rule("C09.R3", "offspring do not share gene containers that the library grows in place")
    ctx.rule("C09.R4", "no unguarded subscript read on an auto-vivifying (defaultdict) node attribute")

    ma = MutationAnalysis(prog, res, depth=6 if ctx.tier == "thorough" else 5)
    ma.allow_calls = dict(ALLOW)
    for k, v in ALLOW.items():
        if k not in prog.functions:
            raise AnalysisError(f"C09: allow-listed function {k} no longer exists")

    entries: list[tuple[FunctionInfo, list[str]]] = []
    for f in prog.implementations(REPR_MUT, "mutate"):
        entries.append((f, [p for p in f.params if p in ("genotype",)]))
    for f in prog.implementations(REPR_XO, "crossover"):
        entries.append((f, [p for p in f.params if p.startswith("parent")]))
    for c in prog.subclasses(METAHANDLER):
        for m in ("mutate", "crossover"):
            f = c.methods.get(m)
            if f is not None:
                entries.append((f, [p for p in f.params if p in ("current_node", "options")]))
    for c in prog.subclasses(STEP, strict=False):
        for m in ("iterate", "pre_iterate", "post_iterate", "apply"):
            f = c.methods.get(m)
            if f is not None and not is_stub(f.node) and "population" in f.params:
                entries.append((f, ["population"]))
    n = 0
    for f, roots in sorted(entries, key=lambda x: x[0].fullname):
        if not roots:
            continue
        n += 1
        muts = ma.analyse(f, {r: "input" for r in roots})
        if not muts:
            ctx.ob("C09.R1", f, f.node, f"inputs {roots} are not modified", True, "")
        for m in muts:
            ctx.ob("C09.R1", f, m.node, f"{m.how} on {m.what}"[:120], False,
                   f"'{norm(m.node)[:80]}' modifies (part of) the input '{m.what}': the parent / input population is "
                   f"no longer identical after the operation" + (f" [via {' -> '.join(m.chain)}]" if m.chain else ""))
    ctx.floor("C09.R1", n, 30, "operator / step entry points with input parameters")
    ctx.extra["unresolved_calls_with_owned_args"] = sorted({f"{f.loc(c)} {norm(c)[:60]}" for f, c in ma.unresolved})[:30]
    for k, v in ALLOW.items():
        ctx.accept("C09.R1", k, v)

    # ---- R2 relabel write-once: relabel_nodes is interpreted (sa/modelinterp, helpers inlined) on a symbolic node
    from ..modelinterp import Budget, Effect, Interp, Sym, UNKNOWN, _NONE
    rl = prog.get_function(RELABEL)
    node_p = rl.params[0]

    def relabel_runs(labelled: bool, terminal: bool):
        def call_model(it, call, env, args, kwargs):
            nm = call_name(call)
            if nm == "getattr" and len(args) >= 2 and isinstance(args[0], Sym) and args[0].tag == "node" and args[1] == "gengy_labeled":
                return labelled
            if nm == "hasattr" and len(args) == 2 and isinstance(args[0], Sym) and args[0].tag == "node":
                return labelled if args[1] == "gengy_labeled" else (not terminal if args[1] == "gengy_init_values" else UNKNOWN)
            if nm == "is_terminal":
                return terminal
            if nm == "is_builtin":
                return False
            if nm == "is_abstract":
                return False
            if nm == "type" and len(args) == 1 and isinstance(args[0], Sym):
                return Sym("type:" + args[0].tag)
            if nm == "get_arguments":
                return [["f1", Sym("T1")]]
            if nm == rl.name and isinstance(call.func, ast.Name):
                it.trace.append(Effect("call", "relabel_child", tuple(args[:1]), {}, node=call))
                return [1, 1, {}, 1]
            if nm == "defaultdict":
                return {}
            if nm == "isinstance" and len(args) == 2 and isinstance(args[0], Sym):
                return False
            return None

        it = Interp(prog, None, lambda *_: None, call_model, max_depth=4, max_traces=32)
        env = {node_p: Sym("node"), rl.params[1]: Sym("grammar"), f"{node_p}.gengy_labeled": labelled, f"{node_p}.gengy_init_values": [Sym("child")],
               f"{rl.params[1]}.expansion_depthing": False}
        for p_ in rl.params[2:]:
            env[p_] = False
        return it.run(rl, env)

    def node_stores(trace):
        return [e for e in trace if e.kind == "store" and e.name.startswith("node.")]

    try:
        runs_l = relabel_runs(True, False)
        bad = [norm(node_stores(tr)[0].node)[:60] for tr, rv, _ in runs_l if node_stores(tr)]
        kids = any(e.kind == "call" and e.name == "relabel_child" for tr, _, _ in runs_l for e in tr)
        ok_l = not bad and not kids
        ctx.ob("C09.R2", rl, rl.node, "relabel_nodes leaves an already labelled node (and its subtree) untouched", ok_l,
               "" if ok_l else (f"node metadata is written although the node is already labelled ('{bad[0]}'): a subtree shared with a parent is modified"
                                if bad else "an already labelled node's children are visited again: shared subtrees are relabelled"))
        verdicts = []
        for terminal in (True, False):
            runs_u = relabel_runs(False, terminal)
            live = [(tr, rv) for tr, rv, _ in runs_u if not any(e.kind == "raise" for e in tr)]
            setf = [any(e.name == "node.gengy_labeled" and e.args and e.args[0] is True for e in node_stores(tr)) for tr, rv in live]
            wrote = [bool(node_stores(tr)) for tr, rv in live]
            if not live:
                verdicts.append((None, f"no path of relabel_nodes completes for an unlabelled {'terminal' if terminal else 'inner'} node in the model"))
            elif all(s_ for s_, w_ in zip(setf, wrote) if w_) and any(wrote):
                verdicts.append((True, ""))
            elif not any(wrote):
                verdicts.append((None, "no metadata store reached in the model"))
            else:
                verdicts.append((False, f"metadata of an unlabelled {'terminal' if terminal else 'inner'} node is written without setting gengy_labeled: "
                                        f"the node is relabelled (rewritten) on every visit"))
        ok_u = False if any(v is False for v, _ in verdicts) else (None if any(v is None for v, _ in verdicts) else True)
        ctx.ob("C09.R2", rl, rl.node, "labelled flag is set whenever metadata is written", ok_u, next((w for v, w in verdicts if v is not True), ""))
    except Budget:
        ctx.ob("C09.R2", rl, rl.node, "relabel_nodes write-once", None, "too many interpretations")

    # ---- R3 offspring gene containers
    n3 = 0
    from .common import operator_instances
    from ..astutil import is_self_attr as _isa3

    def _dna_ctor_sites(f):
        """(call in f, expression in f that becomes the offspring's dna, genotype class): constructor calls in the operator itself, and - one level
        down - in a hook of the receiving class (self.make_genotype(parent, dna)) that hands one of its parameters to the constructor"""
        for c in walk_local(f.node):
            if not isinstance(c, ast.Call):
                continue
            t = res.resolve(f, c)
            if t.kind == "ctor" and t.cls is not None and "dna" in {k for k in t.cls.class_attrs}:
                fields = [k for k, v in t.cls.class_attrs.items() if isinstance(v, ast.AnnAssign)]
                idx = fields.index("dna")
                arg = next((k.value for k in c.keywords if k.arg == "dna"), None) or (c.args[idx] if len(c.args) > idx else None)
                if arg is not None:
                    yield c, arg, t.cls
            elif _isa3(c.func) and f.cls is not None:
                g = prog.lookup_method(f.cls, c.func.attr)
                if g is None or g is f or not isinstance(g.node, (ast.FunctionDef, ast.AsyncFunctionDef)):
                    continue
                gps = [p_ for p_ in g.params if p_ != "self"]
                for c2 in walk_local(g.node):
                    if not isinstance(c2, ast.Call):
                        continue
                    t2 = res.resolve(g, c2)
                    if t2.kind != "ctor" or t2.cls is None or "dna" not in {k for k in t2.cls.class_attrs}:
                        continue
                    fields = [k for k, v in t2.cls.class_attrs.items() if isinstance(v, ast.AnnAssign)]
                    idx = fields.index("dna")
                    a2 = next((k.value for k in c2.keywords if k.arg == "dna"), None) or (c2.args[idx] if len(c2.args) > idx else None)
                    if isinstance(a2, ast.Name) and a2.id in gps:
                        pos = gps.index(a2.id)
                        arg = next((k.value for k in c.keywords if k.arg == a2.id), None) or (c.args[pos] if len(c.args) > pos else None)
                        if arg is not None:
                            yield c, arg, t2.cls

    for f in operator_instances(prog, REPR_MUT, "mutate") + operator_instances(prog, REPR_XO, "crossover"):
        for c, arg, gcls in _dna_ctor_sites(f):
            grows = any(ma.param_mutations(m, 0, 3) for m in gcls.methods.values() if m.params and m.params[0] == "self" and m.name != "__init__")
            n3 += 1
            roots = [p_ for p_ in f.params if p_ == "genotype" or p_.startswith("parent")]
            ma.analyse(f, {r_: 0 for r_ in roots}, probes=[arg])
            depth = ma.probes.get(id(arg), 9)
            need = 2 if grows and _is_nested(gcls) else 1
            ok = depth >= need
            ctx.ob("C09.R3", f, c, f"offspring {gcls.name} gets gene containers copied to depth {need}", ok,
                   "" if ok else f"the offspring's dna shares its inner gene lists with the parent (copy depth {depth}) and "
                                 f"{gcls.name} grows those lists in place when a genotype is mapped: evaluating the child appends "
                                 f"genes to the parent", witness={"copy_depth": depth, "needed": need})
    # ... and what an operator returns is never the parent genotype object itself
    for f in prog.implementations(REPR_MUT, "mutate") + prog.implementations(REPR_XO, "crossover"):
        roots = [p_ for p_ in f.params if p_ == "genotype" or p_.startswith("parent")]
        for r_ in walk_local(f.node):
            if not (isinstance(r_, ast.Return) and r_.value is not None):
                continue
            vals = list(r_.value.elts) if isinstance(r_.value, ast.Tuple) else [r_.value]
            for v_ in vals:
                if isinstance(v_, ast.Name) and v_.id in roots:
                    # re-bound before the return? (genotype = Genotype(...))
                    rebinds = [a for a in walk_local(f.node) if isinstance(a, ast.Assign) and any(isinstance(t_, ast.Name) and t_.id == v_.id for t_ in a.targets)]
                    if rebinds:
                        continue
                    n3 += 1
                    ctx.ob("C09.R3", f, r_, f"{f.cls.name if f.cls else f.name}.{f.name}: the offspring is a new genotype object", False,
                           f"'{norm(r_)[:50]}' hands the parent's own genotype back as the offspring: whatever later edits or grows the offspring's genes "
                           f"in place changes the parent")
    ctx.floor("C09.R3", n3, 8, "offspring genotype constructions")

    # ---- R4 auto-vivifying attributes
    auto_attrs: dict[str, str] = {}
    for f in prog.functions.values():
        dd = {a.targets[0].id for a in walk_local(f.node) if isinstance(a, ast.Assign) and isinstance(a.targets[0], ast.Name)
              and isinstance(a.value, ast.Call) and call_name(a.value) == "defaultdict"}
        for a in walk_local(f.node):
            if isinstance(a, ast.Assign) and isinstance(a.targets[0], ast.Attribute) and isinstance(a.value, ast.Name) and a.value.id in dd \
                    and a.targets[0].attr.startswith("gengy_"):
                auto_attrs[a.targets[0].attr] = f.fullname
    n4 = 0
    for f in prog.functions.values():
        for s in walk_local(f.node, include_nested=True):
            if isinstance(s, ast.Subscript) and isinstance(s.ctx, ast.Load) and isinstance(s.value, ast.Attribute) and s.value.attr in auto_attrs:
                n4 += 1
                key, cont = norm(s.slice), norm(s.value)
                ok = False
                from ..astutil import atomic_guards
                for cj, pol in atomic_guards(s, stop=None):
                    if pol and isinstance(cj, ast.Compare) and isinstance(cj.ops[0], ast.In) and norm(cj.left) == key and norm(cj.comparators[0]) == cont:
                        ok = True
                ctx.ob("C09.R4", f, s, f"read of auto-vivifying {cont}[{key}] is membership-guarded", ok,
                       "" if ok else f"'{norm(s)}' reads a defaultdict: a missing key is inserted into the node's metadata "
                                     f"(the other parent's tree is modified by a lookup)")
    ctx.extra["auto_vivifying_attributes"] = auto_attrs
    if auto_attrs and n4 == 0:
        # no subscript read of an auto-vivifying attribute at all (lookups go through .get / membership tests): nothing can insert a key
        ctx.ob("C09.R4", None, None, "no subscript read of an auto-vivifying node attribute anywhere", True, f"auto-vivifying attributes: {sorted(auto_attrs)}",
               module="geneticengine/representations/tree")
    # R5: a cached fitness cannot be rewritten from outside the library - the components recorded for an individual are a list of the
    # library's own (the Problem model of C13, interpreted here for this clause: steps evaluate part of their input on demand, and a
    # fitness function that reuses its result list would rewrite the fitness cached on every other input individual)
    ctx.rule("C09.R5", "the fitness cached on an individual does not alias an object the user's fitness function keeps")
    from .c13 import rule_r5 as _problem_rule
    _problem_rule(ctx, alias_rid="C09.R5")


def _is_nested(gcls) -> bool:
    a = gcls.class_attrs.get("dna")
    return isinstance(a, ast.AnnAssign) and "dict" in norm(a.annotation) and "list" in norm(a.annotation)


