"""C05 - grammar analysis is exact: productions, minimum depths, recursion, reachability (structural clauses)."""
from __future__ import annotations

import ast
from typing import Optional

from ..astutil import call_name, guards
from ..dispatch import chain, classify, dispatch_chains
from ..frontend import AnalysisError, FunctionInfo, ancestors, dotted, norm, parent, walk_local
from ..report import Ctx
from .depthrules import polarity_rule

LEVEL_TEXT = (
    "The four claims are about the result of a fixpoint on arbitrary class hierarchies (values).  Decided are three "
    "structural parts: (R1) every walker over field types (register_type, collect_types, get_distance_to_terminal, "
    "preprocess.explode_generics, usable_grammar, strip_annotations / is_terminal) handles the wrapper forms list, "
    "annotated and union/generic (tuple included), and what it takes out of a wrapper flows back into code that again "
    "handles every wrapper form (a recursive call, or a worklist whose consumer does) - otherwise nested wrappers or "
    "tuples are skipped; (R2) AND/OR polarity of the distance equations: union and abstract symbols aggregate with "
    "min, tuples and concrete productions with max, and the fixpoint only decreases values; (R3) the places that "
    "enumerate base types agree: every base type a creator produces without consuming a level has distance 0 in the "
    "default mode. Exact minimum depths, the exact recursive set and language equality of the usable sub-grammar are "
    "not claimed."
)

GRAMMAR_MOD = "geneticengine.grammar.grammar"
WALKERS = {
    "register_type": f"{GRAMMAR_MOD}:Grammar.register_type",
    "collect_types": f"{GRAMMAR_MOD}:Grammar.collect_types",
    "get_distance_to_terminal": f"{GRAMMAR_MOD}:Grammar.get_distance_to_terminal",
    "explode_generics": f"{GRAMMAR_MOD}:Grammar.preprocess.<locals>.explode_generics",
    "usable_grammar": f"{GRAMMAR_MOD}:Grammar.usable_grammar",
    "strip_annotations": "geneticengine.grammar.utils:strip_annotations",
}
WRAPPERS = ("list", "annotated", "union", "tuple")


def _covers(forms: set[str]) -> dict[str, bool]:
    return {
        "list": "list" in forms,
        "annotated": "annotated" in forms,
        "union": "union" in forms or "generic" in forms,
        "tuple": "tuple" in forms or "generic" in forms,
    }


def walker_rule(ctx: Ctx, rid: str, only: tuple = ()) -> None:
    prog = ctx.prog
    n = 0
    for wname, full in WALKERS.items():
        if only and wname not in only:
            continue
        f = prog.functions.get(full)
        if f is None:
            raise AnalysisError(f"C05: walker {full} missing")
        chains = dispatch_chains(f, min_forms=1)
        # usable_grammar's wrapper chain lives inside a loop over fields
        if not chains:
            ctx.ob(rid, f, f.node, f"{wname}: wrapper dispatch", None, "no dispatch chain over type forms found")
            continue
        var, br = max(chains, key=lambda x: sum(1 for b in x[1] if b.form in ("list", "annotated", "union", "generic", "tuple") or b.form.startswith("multi:")))
        forms = set()
        for b in br:
            if not b.negated:
                forms |= set(b.form.split(":", 1)[1].split("+")) if b.form.startswith("multi:") else {b.form}
        cov = _covers(forms)
        required = ("list", "annotated") if wname == "strip_annotations" else WRAPPERS
        for w in required:
            n += 1
            ok = cov[w]
            ctx.ob(rid, f, br[0].test or f.node, f"{wname} unwraps {w} types", ok,
                   "" if ok else f"{wname} has no branch for {w} types: a {w} is passed on (or stored) as it is, so the symbols inside it are "
                                 + ("not seen by the reachability / recursion analysis (a production that is recursive only through a tuple "
                                    "field is not in recursive_prods)" if wname == "explode_generics" else "not analysed"))
        # closure: the unwrapped type flows back into a handler of all wrapper forms
        for b in br:
            if b.negated or not (b.form in ("list", "annotated", "union", "generic", "tuple") or b.form.startswith("multi:")):
                continue
            n += 1
            how, ok, why = _flows_back(ctx, f, b, wname)
            ctx.ob(rid, f, b.test, f"{wname}: inner type of a {b.form} is analysed again ({how})", ok, "" if ok else why)
    ctx.floor(rid, n, 4 if only else 24, "walker coverage / closure obligations")


def _flows_back(ctx: Ctx, f: FunctionInfo, b, wname: str) -> tuple[str, bool, str]:
    body_calls = [c for s in b.body for c in ast.walk(s) if isinstance(c, ast.Call)]
    self_name = f.qualname.split(".")[-1]
    rec = [c for c in body_calls if call_name(c) == self_name]
    if rec:
        # the recursive call must receive the *immediate* parameter(s) of the wrapper, not a type stripped of several
        # wrapper levels by another walker (which would bypass the branches of the levels it removes)
        strippers = {"strip_annotations", "strip_dependencies"}
        for c in rec:
            for a in c.args:
                for x in ast.walk(a):
                    if isinstance(x, ast.Call) and call_name(x) in strippers:
                        return "recursive call on a multi-level strip", False, (
                            f"the {b.form} branch recurses on '{norm(a)[:50]}': {call_name(x)} removes list and annotated wrappers at once, so "
                            f"the branch that accounts for the removed level (a list costs int(expansion_depthing)) is skipped and "
                            f"Annotated[list[T], ..] fields are reported one level too shallow in expansion-depthing mode")
        return "recursive call", True, ""
    # worklist: add(k) / append -> consumer loop elsewhere in the function
    adds = [c for c in body_calls if call_name(c) in ("add", "append") and c.args]
    if adds:
        # the consumer: the loop that pops from the worklist; it must itself handle wrapper forms
        loops = [l for l in walk_local(f.node) if isinstance(l, ast.While)]
        consumer_forms: set[str] = set()
        for l in loops:
            for st in l.body:
                if isinstance(st, ast.If):
                    for nb in chain(st):
                        consumer_forms.add(nb.form)
        cov = _covers(consumer_forms)
        ok = all(cov.values())
        missing = [k for k, v in cov.items() if not v]
        return "worklist", ok, (f"the unwrapped type is pushed on a worklist whose consumer handles only abstract symbols, dataclasses and bare "
                                f"builtins, not {missing}: a nested wrapper such as Annotated[list[int], ListSizeBetween(..)] reaches the "
                                f"consumer's 'assert False' (usable_grammar() raises AssertionError)")
    ys = [y for s in b.body for y in ast.walk(s) if isinstance(y, (ast.Yield, ast.Return)) and y.value is not None]
    if ys:
        direct = [y for y in ys if not any(isinstance(c, ast.Call) and call_name(c) == self_name for c in ast.walk(y.value))]
        if direct:
            return "returned as is", False, (f"the inner type of a {b.form} is handed back without being analysed again ('{norm(direct[0])[:60]}'): "
                                             f"a wrapper nested inside it (Annotated[list[T], ..]) is not unwrapped, so its symbols are lost")
    return "no use", True, ""


def unfiltered_rule(ctx: Ctx, rid: str) -> None:
    """Field types reach the wrapper-aware expansion unfiltered: a filter applied to the raw field types (before wrappers
    are unwrapped) can only see the wrapper, not the symbols inside it."""
    pre = ctx.prog.get_function(f"{GRAMMAR_MOD}:Grammar.preprocess")
    n = 0
    for c in walk_local(pre.node, include_nested=True):
        if isinstance(c, ast.Call) and call_name(c) == "process_reachability" and len(c.args) == 2:
            n += 1
            a = c.args[1]
            filt = isinstance(a, (ast.ListComp, ast.GeneratorExp)) and any(g.ifs for g in a.generators)
            ctx.ob(rid, pre, c, f"reachability receives {norm(a)[:50]} unfiltered", not filt,
                   "" if not filt else f"'{norm(a)[:80]}' filters the raw field types before wrappers are unwrapped: list[X], Annotated[list[X], ..] "
                                       f"and Union[..] fields are not in non_terminals themselves and are dropped, so a symbol whose only cycle "
                                       f"passes through such a field is missing from recursive_prods")
    ctx.floor(rid, n, 2, "reachability propagation calls")


def rule_r3(ctx: Ctx) -> None:
    prog = ctx.prog
    init = prog.get_function(f"{GRAMMAR_MOD}:Grammar.__init__")
    pre = prog.get_function(f"{GRAMMAR_MOD}:Grammar.preprocess")
    # (a) initial table
    table: set[str] = set()
    for a in walk_local(init.node):
        if isinstance(a, ast.Assign) and isinstance(a.targets[0], ast.Attribute) and a.targets[0].attr == "distanceToTerminal" and isinstance(a.value, ast.Dict):
            for k, v in zip(a.value.keys, a.value.values):
                if isinstance(k, ast.Name) and isinstance(v, ast.Constant) and v.value == 0:
                    table.add(k.id)
    # (b) the terminal constant in preprocess: the (sym is int or ...) group that yields 0
    zero_group: set[str] = set()
    for n in walk_local(pre.node):
        if isinstance(n, ast.If):
            names = {c.comparators[0].id for c in ast.walk(n.test) if isinstance(c, ast.Compare) and isinstance(c.ops[0], ast.Is)
                     and isinstance(c.comparators[0], ast.Name) and c.comparators[0].id in ("int", "float", "str", "bool")}
            sets0 = any(isinstance(a, ast.Assign) and isinstance(a.value, ast.Constant) and a.value.value == 0 for a in n.body)
            if names and sets0:
                zero_group = names
    # (c) base types the tree creator produces without consuming a level
    cn = prog.get_function("geneticengine.representations.tree.initializations:create_node")
    produced: set[str] = set()
    for var, br in dispatch_chains(cn):
        for b in br:
            if b.form in ("int", "float", "bool", "str") and not b.negated:
                produced.add(b.form)
    ctx.extra["base_type_tables"] = {"initial_distance_table": sorted(table), "preprocess_zero_group": sorted(zero_group),
                                     "creator_base_branches": sorted(produced)}
    if not table or not zero_group:
        ctx.ob("C05.R3", pre, pre.node, "base-type tables", None, "could not extract the base-type tables")
        return
    for t in sorted(produced | table | zero_group):
        ok = (t in zero_group) if t in produced or t in table else True
        ctx.ob("C05.R3", pre, pre.node, f"base type '{t}' has distance 0 in the default mode", ok,
               "" if ok else f"the creator produces a bare {t} without consuming a depth level, but preprocess gives {t} distance 1 (it is "
                             f"missing from the 'sym is int or ...' test): S(s: str, b: {t}) is reported at minimum depth 2 while its only "
                             f"programs have depth 1")
    ok2 = table <= zero_group
    ctx.ob("C05.R3", init, init.node, "initial distance table and the preprocess constant agree", ok2,
           "" if ok2 else f"initial table lists {sorted(table)} at 0 but preprocess resets only {sorted(zero_group)} to 0")


def run(ctx: Ctx) -> None:
    ctx.rule("C05.R1", "type-form walkers handle list / annotated / union / tuple and re-analyse what they unwrap")
    ctx.rule("C05.R2", "distance equations: OR forms (union, abstract) use min, AND forms (tuple, concrete) use max; monotone descent")
    ctx.rule("C05.R3", "base-type tables agree: every base type produced without consuming a level has distance 0")
    walker_rule(ctx, "C05.R1")
    unfiltered_rule(ctx, "C05.R1")
    polarity_rule(ctx, "C05.R2")
    rule_r3(ctx)
    ctx.assumptions += ["is_abstract / get_type_hints read the class declarations as the walkers assume (reflection is not analysed)"]
