"""C05 - grammar analysis is exact: productions, minimum depths, recursion, reachability (structural clauses)."""
from __future__ import annotations

import ast
from typing import Optional

from ..astutil import call_name, guards
from ..dispatch import chain, classify, dispatch_chains
from ..frontend import AnalysisError, FunctionInfo, ancestors, dotted, norm, parent, walk_local
from ..report import Ctx
from .depthrules import polarity_rule

LEVEL_TEXT = (
    "The four claims are about the result of a fixpoint on arbitrary class hierarchies (values).  Decided are "
    "structural parts for all grammars (R1-R5) and the tables themselves on a family of model grammars (R6): (R1)"
    " leaf coverage of every walker over field types (register_type, collect_types, usable_grammar, "
    "strip_annotations - found by name anywhere in the grammar package): each is interpreted (sa/modelinterp: the"
    " repository's own type-form predicates inlined over a model of what the typing runtime exposes, recursive "
    "calls followed, worklists and generators modelled) on nine nested wrapper types built from list / Annotated "
    "/ Union / tuple over two classes and must reach exactly the classes inside, never stopping at or failing on "
    "a wrapper; get_distance_to_terminal is interpreted on nested wrappers with symbolic table entries and must "
    "charge every level; usable_grammar also on an abstract symbol that is itself a dataclass; the reachability "
    "relation is checked end to end - on fourteen model grammars whose only cycle passes through one nested "
    "wrapper type (list[Union[..]], Annotated[list[Union[..]], ..], list[list[..]] included) the interpreted "
    "preprocess must report the cycle, whatever closures, helpers or helper classes it is made of; (R2) AND/OR "
    "polarity of the distance equations: union and abstract symbols aggregate with min, tuples and concrete "
    "productions with max, and the fixpoint only decreases values; (R3) the places that enumerate base types "
    "agree: every base type a creator produces without consuming a level has distance 0 in the default mode; (R4)"
    " a grammar that redoes its analysis in place (update_weights -> self.__init__, or a fresh Grammar(..) whose "
    "state is adopted wholesale or table by table) keeps its start symbol, supplied classes and depth-counting "
    "mode (interpreted on a symbolic configuration); (R5) update_weights completes on a grammar one of whose "
    "supplied classes the start symbol does not reach (interpreted with strict dict lookups); (R6) "
    "sa/rules/grammodel.py: Grammar.__init__, register_type(start), preprocess() and usable_grammar() are "
    "interpreted end to end on model grammars (class hierarchies written as data; only reflection - is_abstract, "
    "get_arguments, mro, issubclass - is replaced by the data) and the tables they end with are compared with a "
    "reference computed independently from the specification: productions = direct subtypes among the supplied "
    "classes, minimum depth = least fixpoint of the depth equations in the library's convention, recursive = "
    "self-reachable in the derivation graph, usable = reachable from the start symbol; both depth modes; quick "
    "tier 8 grammars, thorough tier 160 more from a reproducible generator (1-3 abstract types, 2-5 productions, "
    "int / symbol / list / Annotated / nested / Union fields, unreachable classes, shuffled supply order). The "
    "family avoids tuple fields, unions of unequal depth and bool fields (known findings R1-R3). Beyond the "
    "family the exact tables are not claimed; language equality of the usable sub-grammar is not claimed (only "
    "its symbol set)."
)

GRAMMAR_MOD = "geneticengine.grammar.grammar"
WALKER_NAMES = ("register_type", "collect_types", "usable_grammar", "strip_annotations")


def _reach_table_name(f: FunctionInfo) -> Optional[str]:
    """the local table of a reachability propagator: a parameter-free name that is subscripted by a parameter / loop variable
    and whose entries receive .add / .update"""
    names: dict[str, int] = {}
    for x in walk_local(f.node):
        if isinstance(x, ast.Subscript) and isinstance(x.value, ast.Name) and "reach" in x.value.id.lower():
            names[x.value.id] = names.get(x.value.id, 0) + 1
    return max(names, key=names.get) if names else None


def _find_walker(ctx: Ctx, name: str) -> FunctionInfo:
    """the function called <name> (or _<name>) in the grammar package: method, nested or module-level.  'reachability' is
    the function that adds a source symbol to the reachability sets of the symbols found inside a list of field types."""
    if name == "reachability":
        cands = [f for f in ctx.prog.functions.values() if f.module.name.startswith("geneticengine.grammar")
                 and isinstance(f.node, (ast.FunctionDef, ast.AsyncFunctionDef)) and _reach_table_name(f)
                 and len([p_ for p_ in f.params if p_ not in ("self", _reach_table_name(f))]) >= 2
                 and any(isinstance(c, ast.Call) and isinstance(c.func, ast.Attribute) and c.func.attr in ("add", "update") for c in walk_local(f.node))]
        if len(cands) != 1:
            raise AnalysisError(f"C05: reachability propagator: {len(cands)} candidates in geneticengine.grammar (anchor changed)")
        return cands[0]
    cands = [f for f in ctx.prog.functions.values() if f.module.name.startswith("geneticengine.grammar")
             and f.name in (name, "_" + name) and isinstance(f.node, (ast.FunctionDef, ast.AsyncFunctionDef))]
    if len(cands) != 1:
        raise AnalysisError(f"C05: walker {name}: {len(cands)} candidates in geneticengine.grammar (anchor changed)")
    return cands[0]


def _all_types(ty):
    out = [ty]
    for a in getattr(ty, "args", ()) or ():
        if hasattr(a, "kind"):
            out += _all_types(a)
    return out


def _nested_types():
    from ..treemodel import A, B, MH, MHL, TypeV
    ann = lambda t, m: TypeV("annotated", f"Annotated[{t.name}, {m.tag}]", (t,), m)   # noqa: E731
    lst = lambda t: TypeV("list", f"list[{t.name}]", (t,))                             # noqa: E731
    tup = lambda *ts: TypeV("tuple", f"tuple[{', '.join(t.name for t in ts)}]", ts)    # noqa: E731
    uni = lambda *ts: TypeV("union", f"Union[{', '.join(t.name for t in ts)}]", ts)    # noqa: E731
    return [
        (lst(A), {A}), (ann(A, MH), {A}), (uni(A, B), {A, B}), (tup(A, B), {A, B}),
        (ann(lst(A), MHL), {A}), (lst(ann(A, MH)), {A}), (uni(lst(A), B), {A, B}), (tup(lst(A), B), {A, B}), (lst(tup(A, B)), {A, B}),
    ]


def walker_rule(ctx: Ctx, rid: str, only: tuple = ()) -> None:
    """Leaf coverage by interpretation: every walker over field types is interpreted (sa/modelinterp, the repository's own
    type-form predicates inlined over a model of the typing runtime, recursive calls followed) on nine nested wrapper types
    built from list / Annotated / Union / tuple over the classes A and B.  It must reach exactly the classes inside: yield /
    register / return / hand on every one of them and never stop at (or fail on) a wrapper."""
    from ..modelinterp import BUILTIN_TYPES, Budget, Interp, LocalFn, Sym, TypeV, UNKNOWN, Effect, Obj
    from ..treemodel import A, B, PROD
    prog = ctx.prog
    n = 0
    for wname in WALKER_NAMES:
        if only and wname not in only:
            continue
        f = _find_walker(ctx, wname)
        from ..treemodel import ABSTRACT
        scenarios = list(_nested_types())
        if wname == "usable_grammar":
            # an abstract symbol that is itself a dataclass (@dataclass class X(ABC)): its productions are what is reachable
            scenarios.append((ABSTRACT, {A, B}))
        for ty, leaves in scenarios:
            if wname == "strip_annotations" and any(k in ty.name for k in ("Union", "tuple")):
                continue   # strip_annotations is specified for list / annotated chains only
            fields = {PROD: [("f1", ty)]}

            def call_model(it, call, env, args, kwargs, fields=fields):
                nm = call_name(call)
                if nm == "is_abstract":
                    return False
                if nm == "is_dataclass" and len(args) == 1:
                    return isinstance(args[0], TypeV) and args[0].kind == "class"
                if nm == "get_arguments" and len(args) == 1:
                    return [[a, t] for a, t in fields.get(args[0], [])] if isinstance(args[0], TypeV) else UNKNOWN
                if nm == "mro":
                    recv = it.ev(call.func.value, env, 9) if isinstance(call.func, ast.Attribute) else None
                    return [recv, BUILTIN_TYPES["object"]]
                if nm == "extract_grammar":
                    it.trace.append(Effect("call", nm, tuple(list(a) if isinstance(a, list) else a for a in args), {}, node=call, fn=it.fn_stack[-1]))
                    return Sym("grammar")
                if nm == "add" and isinstance(call.func, ast.Attribute) and (dotted(call.func.value) or "").endswith("all_nodes") and args:
                    it.trace.append(Effect("call", "all_nodes.add", (args[0],), {}, node=call, fn=it.fn_stack[-1]))
                    return None
                if nm == "register_alternative":
                    from ..modelinterp import _NONE
                    return _NONE
                return None

            def atom(it, e_, env_):
                # class reflection spelled as attributes: the model classes sit directly below object
                if isinstance(e_, ast.Attribute) and e_.attr in ("__bases__", "__mro__"):
                    v_ = it.ev(e_.value, env_, 9)
                    if isinstance(v_, TypeV) and v_.kind in ("class", "builtin"):
                        return [BUILTIN_TYPES["object"]] if e_.attr == "__bases__" else [v_, BUILTIN_TYPES["object"]]
                return None

            it = Interp(prog, f.cls, atom, call_model, max_depth=8, max_traces=64)
            it.allow_recursion = True
            env: dict = {"self": Sym("self"), "self.all_nodes": set(), "self.considered_subtypes": [],
                         "self.alternatives": {}, "self.terminals": set(), "self.non_terminals": set(), "self.starting_symbol": PROD}
            params = [p_ for p_ in f.params if p_ != "self"]
            if wname == "reachability":
                from ..modelinterp import DDict
                table = DDict()
                table.factory = set
                rest = [p_ for p_ in params if p_ != _reach_table_name(f)]
                env[rest[0]] = PROD
                env[rest[1]] = [ty]
                env[_reach_table_name(f)] = table
            elif wname == "usable_grammar":
                if ty is ABSTRACT:
                    env["self.alternatives"] = {ABSTRACT: [A, B]}
            else:
                env[params[0]] = ty
            n += 1
            desc = f"{'the reachability relation' if wname == 'reachability' else wname} reaches the symbols inside {ty.name}"
            if ty is ABSTRACT:
                desc = f"{wname} reaches the productions of an abstract symbol declared as a dataclass"
            try:
                runs = it.run(f, env)
            except Budget:
                ctx.ob(rid, f, f.node, desc, None, "too many interpretations")
                continue
            verdict: Optional[bool] = True
            why = ""
            merged = None
            if wname == "reachability":
                # tests on names of the enclosing function that the model leaves open (e.g. 'prod in all_sym') are explored both
                # ways: a symbol counts as reached when some resolution of them reaches it
                byrepr = {t: t for t in _all_types(ty)}
                merged = set()
                for i_, (trace, rv, notes) in enumerate(runs):
                    if any(e.kind == "raise" for e in trace):
                        continue
                    tb = it.envs[i_].get(_reach_table_name(f), {})
                    for k_, v_ in tb.items():
                        if PROD in v_ or repr(PROD) in v_ or "P" in v_:
                            if k_ not in byrepr:
                                merged = None      # a destination the model does not know: the iteration was not followed
                                break
                            merged.add(byrepr[k_])
                    if merged is None:
                        break
                runs = [r for r in runs if not any(e.kind == "raise" for e in r[0])][:1] or runs[:1]
            for trace, rv, notes in runs:
                raised = [e for e in trace if e.kind == "raise"]
                got: Optional[set] = None
                if wname == "reachability":
                    got = merged
                elif wname in ("explode_generics", "collect_types"):
                    vals = []
                    okv = True
                    for e in trace:
                        if e.kind == "yield":
                            if e.name == "from":
                                if isinstance(e.args[0], list):
                                    vals += e.args[0]
                                else:
                                    okv = False
                            else:
                                vals.append(e.args[0])
                    got = set(v for v in vals if isinstance(v, TypeV)) if okv else None
                elif wname == "strip_annotations":
                    got = {rv} if isinstance(rv, TypeV) else None
                elif wname == "register_type":
                    got = {e.args[0] for e in trace if e.kind == "call" and e.name == "all_nodes.add" and isinstance(e.args[0], TypeV)}
                elif wname == "usable_grammar":
                    eg = [e for e in trace if e.kind == "call" and e.name == "extract_grammar"]
                    got = set(x for x in eg[0].args[0] if isinstance(x, TypeV)) if len(eg) == 1 and isinstance(eg[0].args[0], list) else None
                    if raised:
                        verdict, why = False, (f"usable_grammar fails ({raised[0].name}) on a grammar with a field of type {ty.name}: what it takes out "
                                               f"of a wrapper is pushed on a worklist whose consumer does not handle wrapper forms")
                        break
                if raised and wname != "usable_grammar":
                    continue
                if got is None:
                    verdict, why = (None if verdict is True else verdict), (why or "the values produced by the walker are not followed")
                    continue
                classes = {t for t in got if t.kind == "class" and t != PROD and t is not ABSTRACT and t != ABSTRACT}
                wrappers = {t for t in got if t.kind in ("list", "tuple", "annotated", "union")}
                missing = leaves - classes
                if missing:
                    verdict = False
                    why = (f"{wname} does not reach {sorted(t.name for t in missing)} inside {ty.name}" +
                           (f" (it stops at {sorted(t.name for t in wrappers)})" if wrappers else "") +
                           ": the symbols inside that wrapper are not seen by the analysis built on it")
                    break
                if wrappers and wname in ("reachability", "strip_annotations", "register_type", "usable_grammar"):
                    verdict = False
                    why = f"{wname} hands on the wrapper {sorted(t.name for t in wrappers)} itself as if it were a symbol"
                    break
            ctx.ob(rid, f, f.node, desc, verdict, why, witness={"type": ty.name})
    # get_distance_to_terminal on nested wrappers: every wrapper level is charged (or not) like the single level
    if not only:
        from .depthrules import _gdt_model
        from ..absint import Lin
        from ..modelinterp import MaxV
        g = ctx.fn(f"{GRAMMAR_MOD}:Grammar.get_distance_to_terminal")
        types = {t.name: t for t, _ in _nested_types()}
        for name, want_e in (("Annotated[list[A], MHL]", 1), ("list[Annotated[A, MH]]", 1)):
            for e_flag in (False, True):
                n += 1
                try:
                    runs = _gdt_model(ctx, types[name], e_flag)
                except Budget:
                    ctx.ob(rid, g, g.node, f"get_distance_to_terminal({name}) charges each wrapper level [expansion_depthing={e_flag}]", None, "too many interpretations")
                    continue
                vals = [rv for tr, rv, _ in runs if not any(x.kind == "raise" for x in tr)]
                want = Lin.sym("D(A)") + Lin.c(want_e if e_flag else 0)
                ok = len(vals) == 1 and vals[0] == want
                und = len(vals) != 1 or not isinstance(vals[0], (Lin, MaxV))
                ctx.ob(rid, g, g.node, f"get_distance_to_terminal({name}) charges each wrapper level [expansion_depthing={e_flag}]",
                       True if ok else (None if und else False),
                       "" if ok else f"distance of {name} is {vals[0] if vals else '?'!r}, expected {want!r}: a wrapper level is skipped "
                                     f"(Annotated[list[T], ..] fields are reported one level too shallow in expansion-depthing mode)")
    ctx.floor(rid, n, 9 if only else 36, "walker x nested-type interpretations")


def unfiltered_rule(ctx: Ctx, rid: str) -> None:
    """Field types reach the wrapper-aware expansion unfiltered: a filter applied to the raw field types (before wrappers
    are unwrapped) can only see the wrapper, not the symbols inside it.  The propagators are the functions that iterate
    explode_generics(<parameter>); every call of a propagator is checked at the argument bound to that parameter (a local
    name is followed to its single assignment)."""
    prog = ctx.prog
    scope = [f for f in prog.functions.values() if f.module.name.startswith("geneticengine.grammar")
             and isinstance(f.node, (ast.FunctionDef, ast.AsyncFunctionDef))]
    rp = _find_walker(ctx, "reachability")
    # the propagator's parameter that holds the field types: the one its loop over destinations is rooted in
    ps = [p_ for p_ in rp.params if p_ != "self"]
    idx = None
    for lp in walk_local(rp.node):
        if isinstance(lp, (ast.For, ast.comprehension)):
            for nm_ in ast.walk(lp.iter):
                if isinstance(nm_, ast.Name) and nm_.id in ps:
                    idx = ps.index(nm_.id)
    if idx is None:
        raise AnalysisError("C05: the reachability propagator does not iterate over one of its parameters (anchor changed)")
    props: dict[str, tuple[FunctionInfo, int]] = {rp.name: (rp, idx)}
    n = 0
    for f in scope:
        for c in walk_local(f.node, include_nested=False):
            if not (isinstance(c, ast.Call) and call_name(c) in props):
                continue
            g, idx = props[call_name(c)]
            a = c.args[idx] if len(c.args) > idx else next((k.value for k in c.keywords if k.arg == [p_ for p_ in g.params if p_ != "self"][idx]), None)
            if a is None:
                continue
            n += 1
            src = a
            if isinstance(a, ast.Name):
                defs = [d for d in walk_local(f.node) if isinstance(d, ast.Assign) and len(d.targets) == 1
                        and isinstance(d.targets[0], ast.Name) and d.targets[0].id == a.id]
                if len(defs) == 1:
                    src = defs[0].value
            filt = (isinstance(src, (ast.ListComp, ast.GeneratorExp, ast.SetComp)) and any(gen.ifs for gen in src.generators)) \
                or (isinstance(src, ast.Call) and call_name(src) == "filter") \
                or any(isinstance(x, ast.Call) and call_name(x) == "filter" for x in ast.walk(src))
            ctx.ob(rid, f, c, f"reachability receives {norm(a)[:50]} unfiltered", not filt,
                   "" if not filt else f"'{norm(src)[:80]}' filters the raw field types before wrappers are unwrapped: list[X], Annotated[list[X], ..] "
                                       f"and Union[..] fields are not in non_terminals themselves and are dropped, so a symbol whose only cycle "
                                       f"passes through such a field is missing from recursive_prods")
    ctx.floor(rid, n, 2, "reachability propagation calls")


def copy_with_test(n: ast.AST, test: ast.AST) -> ast.AST:
    if isinstance(n, ast.If):
        return ast.If(test=test, body=n.body, orelse=n.orelse)
    return ast.IfExp(test=test, body=n.body, orelse=n.orelse)


def rule_r3(ctx: Ctx) -> None:
    prog = ctx.prog
    init = prog.get_function(f"{GRAMMAR_MOD}:Grammar.__init__")
    pre = prog.get_function(f"{GRAMMAR_MOD}:Grammar.preprocess")
    # (a) initial table
    table: set[str] = set()
    for a in walk_local(init.node):
        if isinstance(a, ast.Assign) and isinstance(a.targets[0], ast.Attribute) and a.targets[0].attr == "distanceToTerminal" and isinstance(a.value, ast.Dict):
            for k, v in zip(a.value.keys, a.value.values):
                if isinstance(k, ast.Name) and isinstance(v, ast.Constant) and v.value == 0:
                    table.add(k.id)
    # (b) the terminal constant in preprocess: the (sym is int or ...) group that yields 0
    zero_group: set[str] = set()
    # preprocess and the helpers it calls (methods of Grammar, module-level functions)
    fns = [pre]
    for c in walk_local(pre.node, include_nested=True):
        if isinstance(c, ast.Call):
            t = ctx.res.resolve(pre, c)
            if t.kind == "repo":
                fns += [g for g in t.targets if g.module.name.startswith("geneticengine.grammar") and g not in fns]

    def base_names(test: ast.AST) -> set[str]:
        out = {c.comparators[0].id for c in ast.walk(test) if isinstance(c, ast.Compare) and isinstance(c.ops[0], (ast.Is, ast.Eq))
               and isinstance(c.comparators[0], ast.Name) and c.comparators[0].id in ("int", "float", "str", "bool")}
        for c in ast.walk(test):
            if isinstance(c, ast.Compare) and isinstance(c.ops[0], ast.In) and isinstance(c.comparators[0], (ast.List, ast.Tuple, ast.Set)):
                out |= {e.id for e in c.comparators[0].elts if isinstance(e, ast.Name) and e.id in ("int", "float", "str", "bool")}
        return out

    def is_zero(e: Optional[ast.AST]) -> bool:
        return isinstance(e, ast.Constant) and e.value == 0 and not isinstance(e.value, bool)

    def expand(g: FunctionInfo, test: ast.AST) -> ast.AST:
        """replace local names in a test by the (single) expression they are assigned"""
        class R(ast.NodeTransformer):
            def visit_Name(self, node):
                ds = [a for a in walk_local(g.node, include_nested=True) if isinstance(a, ast.Assign) and len(a.targets) == 1
                      and isinstance(a.targets[0], ast.Name) and a.targets[0].id == node.id]
                if len(ds) == 1 and isinstance(node.ctx, ast.Load) and any(isinstance(x, ast.Compare) for x in ast.walk(ds[0].value)):
                    return ds[0].value
                return node
        import copy
        return R().visit(copy.deepcopy(test))

    for g in fns:
        for n in walk_local(g.node, include_nested=True):
            if isinstance(n, (ast.If, ast.IfExp)):
                n = copy_with_test(n, expand(g, n.test))
            if isinstance(n, ast.If):
                names = base_names(n.test)
                sets0 = any((isinstance(a, ast.Assign) and is_zero(a.value)) or (isinstance(a, ast.Return) and is_zero(a.value)) for a in n.body)
                if names and sets0:
                    zero_group = names
            elif isinstance(n, ast.IfExp):
                names = base_names(n.test)
                if names and is_zero(n.body):
                    zero_group = names
    # (c) base types the tree creator produces without consuming a level
    cn = prog.get_function("geneticengine.representations.tree.initializations:create_node")
    produced: set[str] = set()
    for var, br in dispatch_chains(cn):
        for b in br:
            if b.form in ("int", "float", "bool", "str") and not b.negated:
                produced.add(b.form)
    ctx.extra["base_type_tables"] = {"initial_distance_table": sorted(table), "preprocess_zero_group": sorted(zero_group),
                                     "creator_base_branches": sorted(produced)}
    if not table or not zero_group:
        ctx.ob("C05.R3", pre, pre.node, "base-type tables", None, "could not extract the base-type tables")
        return
    for t in sorted(produced | table | zero_group):
        ok = (t in zero_group) if t in produced or t in table else True
        ctx.ob("C05.R3", pre, pre.node, f"base type '{t}' has distance 0 in the default mode", ok,
               "" if ok else f"the creator produces a bare {t} without consuming a depth level, but preprocess gives {t} distance 1 (it is "
                             f"missing from the 'sym is int or ...' test): S(s: str, b: {t}) is reported at minimum depth 2 while its only "
                             f"programs have depth 1")
    ok2 = table <= zero_group
    ctx.ob("C05.R3", init, init.node, "initial distance table and the preprocess constant agree", ok2,
           "" if ok2 else f"initial table lists {sorted(table)} at 0 but preprocess resets only {sorted(zero_group)} to 0")


def rule_r4(ctx: Ctx) -> None:
    """A grammar that redoes its own analysis keeps its configuration.  Every method of Grammar from which self.__init__(..) is
    reached through self-calls is interpreted on a grammar whose configuration (start symbol, supplied classes, depth-counting
    mode) is symbolic, with the analysis passes (register_type, preprocess) stubbed: after the call the three configuration
    attributes still hold the values they had.  A dropped argument silently re-analyses the grammar in the default mode, so
    the minimum depths it reports are those of the other depth-counting mode."""
    from ..modelinterp import Budget, Interp, Sym, UNKNOWN, _NONE, TypeV
    prog = ctx.prog
    gcls = prog.classes.get(f"{GRAMMAR_MOD}.Grammar")
    if gcls is None:
        raise AnalysisError("anchor class missing: Grammar")
    init = gcls.methods.get("__init__")
    if init is None:
        raise AnalysisError("anchor function missing: Grammar.__init__")
    # configuration = the constructor parameters stored on the object
    config = []
    for a in walk_local(init.node):
        if isinstance(a, (ast.Assign, ast.AnnAssign)) and a.value is not None:
            tg = a.targets[0] if isinstance(a, ast.Assign) else a.target
            if isinstance(tg, ast.Attribute) and isinstance(tg.value, ast.Name) and tg.value.id == "self":
                used = [x.id for x in ast.walk(a.value) if isinstance(x, ast.Name) and x.id in init.params[1:]]
                if used:
                    config.append((tg.attr, used[0]))
    ctx.floor("C05.R4", len(config), 3, "configuration attributes stored by Grammar.__init__")

    def reinit_reach(m, seen):
        if m.fullname in seen:
            return False
        seen.add(m.fullname)
        def builds_grammar(c) -> bool:
            return isinstance(c, ast.Call) and (isinstance(c.func, ast.Name) and c.func.id == gcls.name
                                                or isinstance(c.func, ast.Call) and call_name(c.func) == "type"
                                                or isinstance(c.func, ast.Attribute) and c.func.attr == "__class__")
        fresh_names = {a.targets[0].id for a in walk_local(m.node) if isinstance(a, ast.Assign) and len(a.targets) == 1 and isinstance(a.targets[0], ast.Name)
                       and builds_grammar(a.value)}
        adopts = any(isinstance(x, ast.Attribute) and x.attr == "__dict__" and isinstance(x.value, ast.Name) and x.value.id == "self"
                     for x in walk_local(m.node)) or any(isinstance(x, ast.Call) and call_name(x) in ("setattr", "vars") for x in walk_local(m.node)) \
            or any(isinstance(a, ast.Assign) and any(isinstance(t, ast.Attribute) and isinstance(t.value, ast.Name) and t.value.id == "self" for t in a.targets)
                   and isinstance(a.value, ast.Attribute) and isinstance(a.value.value, ast.Name) and a.value.value.id in fresh_names
                   for a in walk_local(m.node))      # table by table: self.alternatives = rebuilt.alternatives, ...
        for c in walk_local(m.node):
            if adopts and isinstance(c, ast.Call) and (isinstance(c.func, ast.Name) and c.func.id == gcls.name
                                                       or isinstance(c.func, ast.Call) and call_name(c.func) == "type"
                                                       or isinstance(c.func, ast.Attribute) and c.func.attr == "__class__"):
                return True     # builds a fresh grammar and adopts its state: the same obligation as re-running __init__
            if isinstance(c, ast.Call) and isinstance(c.func, ast.Attribute) and isinstance(c.func.value, ast.Name) and c.func.value.id == "self":
                if c.func.attr == "__init__":
                    return True
                g = prog.lookup_method(gcls, c.func.attr)
                if g is not None and reinit_reach(g, seen):
                    return True
        return False

    n = 0
    for name, m in sorted(gcls.methods.items()):
        if name == "__init__" or not reinit_reach(m, set()):
            continue
        # only entry points: methods not themselves reached from another re-initialising method are reported
        n += 1
        vals = {"starting_symbol": Sym("START"), "considered_subtypes": [Sym("sub1"), Sym("sub2")], "expansion_depthing": Sym("MODE")}
        env = {"self": Sym("self"), "self.alternatives": {}, "self.all_nodes": [], "self.distanceToTerminal": {},
               "self.recursive_prods": set(), "self.terminals": set(), "self.non_terminals": set()}
        for attr, param in config:
            env[f"self.{attr}"] = vals.get(attr, Sym(attr.upper()))
        for p_ in m.params[1:]:
            env[p_] = Sym(p_)

        fresh_args: list = []

        def call_model(it, call, env_, args, kwargs, fresh_args=fresh_args):
            nm = call_name(call)
            if nm in ("register_type", "preprocess", "warn"):
                return _NONE
            if nm == "is_abstract":
                return True
            if nm == "get_gengy":
                return {}
            if isinstance(call.func, ast.Name) and call.func.id == gcls.name or isinstance(call.func, ast.Call) and call_name(call.func) == "type" \
                    or isinstance(call.func, ast.Attribute) and call.func.attr == "__class__":
                bound = dict(zip(init.params[1:], args))
                bound.update(kwargs)
                a_ = init.node.args
                for p_, d_ in zip([x.arg for x in a_.args][len(a_.args) - len(a_.defaults):], a_.defaults):
                    if p_ not in bound and isinstance(d_, ast.Constant):
                        bound[p_] = d_.value
                fresh_args.append(bound)
                for attr_, param_ in config:         # the fresh grammar stores what it was built with
                    if param_ in bound:
                        it.heap[("fresh-grammar", attr_)] = bound[param_]
                return Sym("fresh-grammar")
            return None

        it = Interp(prog, gcls, lambda *_: None, call_model, max_depth=5, max_traces=32)
        construct = f"Grammar.{name}: the re-analysed grammar keeps its configuration"
        try:
            runs = it.run(m, env)
        except Budget:
            ctx.ob("C05.R4", m, m.node, construct, None, "too many interpretations")
            continue
        verdict, why = True, ""
        if all(any(e.kind == "raise" for e in trace) for trace, _, _ in runs):
            verdict, why = None, "no interpretation of the method completes"
        for (trace, rv, notes), env_after in zip(runs, it.envs):
            if any(e.kind == "raise" for e in trace):
                continue
            reinit = [e for e in trace if e.kind == "store" and e.name == f"self.{config[0][0]}"]
            for attr, param in config:
                before, after = env.get(f"self.{attr}"), env_after.get(f"self.{attr}")
                if after == before:
                    continue
                if after is UNKNOWN or after is None and before is not None and not reinit:
                    verdict, why = (None if verdict is True else verdict), f"self.{attr} after the call is not followed"
                    continue
                verdict = False
                why = (f"after {name}() the grammar's {attr} is {after!r}, it was {before!r}: the re-initialisation does not hand on "
                       f"'{param}', so the analysis is redone with another configuration (e.g. minimum depths of the other "
                       f"depth-counting mode)")
                break
            if verdict is False:
                break
        # a fresh grammar whose state is adopted must be built with the current configuration
        for bound in fresh_args:
            for attr, param in config:
                before = env.get(f"self.{attr}")
                got = bound.get(param, UNKNOWN)
                same = got == before or (isinstance(got, list) and isinstance(before, list) and got == before)
                if not same and verdict is not False:
                    if got is UNKNOWN:
                        verdict, why = None, f"the '{param}' handed to the fresh grammar is not followed"
                    else:
                        verdict = False
                        why = (f"{name}() adopts the state of a fresh grammar built with {param} = {got!r}; the grammar's {attr} was {before!r}: "
                               f"the analysis is redone with another configuration (e.g. minimum depths of the other depth-counting mode)")
        ctx.ob("C05.R4", m, m.node, construct, verdict, why)
    ctx.floor("C05.R4", n, 1, "Grammar methods that re-initialise the grammar in place")


def rule_r5(ctx: Ctx) -> None:
    """The weight normalisation accepts every grammar extract_grammar accepts.  Grammar.update_weights is interpreted (dict
    lookups strict: a missing key raises) on a model grammar START -> P1 | P2 whose supplied classes also contain a class the
    start symbol does not reach - the case usable_grammar exists for - with the weights extract_grammar hands in (the
    grammar's own get_weights()).  No interpretation may end in a KeyError."""
    from ..modelinterp import Budget, Interp, Sym, UNKNOWN, _NONE
    prog = ctx.prog
    gcls = prog.classes.get(f"{GRAMMAR_MOD}.Grammar")
    m = gcls.methods.get("update_weights") if gcls is not None else None
    if m is None or len(m.params) < 3:
        raise AnalysisError("anchor function missing: Grammar.update_weights(learning_rate, extra_weights)")
    S, P1, P2, U, INT_ = Sym("START"), Sym("P1"), Sym("P2"), Sym("UNREACHED"), Sym("int")
    n5 = 0
    for label, supplied in (("every supplied class reachable", [P1, P2]), ("a supplied class the start symbol does not reach", [P1, P2, U]),
                            ("a supplied symbol is a base type (usable_grammar hands over every symbol it reached, int included)", [S, P1, INT_, P2])):
        n5 += 1
        base = INT_ in supplied
        env = {"self": Sym("self"), "self.alternatives": {"START": [P1, P2]}, "self.all_nodes": [S, P1, P2] + ([INT_] if base else []), "self.distanceToTerminal": {},
               "self.recursive_prods": set(), "self.terminals": set(), "self.non_terminals": set(), "self.starting_symbol": S,
               "self.considered_subtypes": list(supplied), "self.expansion_depthing": False,
               m.params[1]: 1, m.params[2]: {"START": 1.0, "P1": 1.0, "P2": 1.0, "int": 1.0}}

        def call_model(it, call, env_, args, kwargs):
            nm = call_name(call)
            if nm in ("register_type", "preprocess", "warn", "validate"):
                return _NONE
            if nm == "is_abstract":
                return True
            if nm == "get_gengy":
                return {}
            return None

        it = Interp(prog, gcls, lambda *_: None, call_model, max_depth=5, max_traces=32)
        it.strict_keys = True
        # the namespace of a grammar class holds its metadata dict; the namespace of a built-in type does not (and cannot be given one)
        for k_ in (S, P1, P2, U):
            it.heap[(k_.tag, "__dict__")] = {"__gengy__": {}}
        it.heap[(INT_.tag, "__dict__")] = {}
        construct = f"Grammar.update_weights completes: {label}"
        try:
            runs = it.run(m, env)
        except Budget:
            ctx.ob("C05.R5", m, m.node, construct, None, "too many interpretations")
            continue
        bad = [e for tr, _, _ in runs for e in tr if e.kind == "raise" and e.name.startswith("KeyError")]
        other = [e for tr, _, _ in runs for e in tr if e.kind == "raise" and not e.name.startswith("KeyError")]
        if bad:
            ctx.ob("C05.R5", m, bad[0].node or m.node, construct, False,
                   (f"'{norm(bad[0].node)[:60]}' raises {bad[0].name}: the metadata dict is looked up in the namespace of every supplied symbol, and a "
                    f"built-in type has none - usable_grammar() of a weighted grammar with an int / str / float field fails instead of returning the "
                    f"reachable sub-grammar") if base else
                   f"'{norm(bad[0].node)[:60]}' raises {bad[0].name}: the table of weights has one entry per registered (reachable) "
                   f"symbol but is indexed with every supplied class, so extract_grammar fails on a weighted grammar that is given "
                   f"a class the start symbol does not reach (the same classes are accepted without weights)")
        elif other:
            ctx.ob("C05.R5", m, m.node, construct, None, f"the model run ends in {other[0].name}")
        else:
            ctx.ob("C05.R5", m, m.node, construct, True, "")
    ctx.floor("C05.R5", n5, 3, "update_weights scenarios")


def run(ctx: Ctx) -> None:
    from .grammodel import ASPECTS, analysis_rule
    ctx.rule("C05.R6", "end to end on model grammars (Grammar.__init__, register_type, preprocess interpreted): productions, minimum "
                       "depths and the recursive set equal the reference computed from the specification, both depth modes")
    n6 = analysis_rule(ctx, "C05.R6", ("productions", "distance", "recursive", "usable"))
    ctx.floor("C05.R6", n6, 60, "model grammar x mode x aspect")
    ctx.rule("C05.R5", "weight normalisation completes on every grammar extract_grammar accepts (supplied classes need not be reachable)")
    rule_r5(ctx)
    ctx.rule("C05.R4", "a grammar that redoes its analysis in place keeps its start symbol, supplied classes and depth-counting mode")
    rule_r4(ctx)
    ctx.rule("C05.R1", "type-form walkers handle list / annotated / union / tuple and re-analyse what they unwrap")
    ctx.rule("C05.R2", "distance equations: OR forms (union, abstract) use min, AND forms (tuple, concrete) use max; monotone descent")
    ctx.rule("C05.R3", "base-type tables agree: every base type produced without consuming a level has distance 0")
    walker_rule(ctx, "C05.R1")
    from .grammodel import wrapper_rule
    ctx.floor("C05.R1", wrapper_rule(ctx, "C05.R1"), 9, "nested wrapper forms (recursion)")
    polarity_rule(ctx, "C05.R2")
    rule_r3(ctx)
    ctx.assumptions += ["is_abstract / get_type_hints read the class declarations as the walkers assume (reflection is not analysed)"]
