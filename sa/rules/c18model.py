"""Exhaustive small-scope models of the derived random primitives (choice, shuffle, pop_random, choice_weighted), interpreted
by sa/modelinterp: the primitive's source is interpreted on short lists of distinct symbols while the underlying
self.randint(lo, hi) takes *every* value of its (concrete) range - for wide ranges (weighted choice) every value that a
comparison can distinguish: the ends of the range and each threshold, one below and one above.  Nothing is executed."""
from __future__ import annotations

import ast
from typing import Any, Optional

from ..astutil import call_name
from ..frontend import FunctionInfo
from ..modelinterp import Budget, Effect, Interp, Sym, UNKNOWN, _Return, _is_num


def explore(ctx, cls, f: FunctionInfo, env: dict, marks: tuple = (), max_runs: int = 600):
    """all (draws, trace, rv, env_after) over every value of every randint(lo, hi) the code makes"""
    out = []
    pending: list[list[int]] = [[]]
    while pending:
        if len(out) > max_runs:
            raise Budget()
        prefix = pending.pop()
        draws: list[tuple] = []

        def call_model(it: Interp, call: ast.Call, env_: dict, args: list, kwargs: dict) -> Any:
            nm = call_name(call)
            if nm == "randint" and isinstance(call.func, ast.Attribute) and len(args) == 2:
                lo, hi = args
                if not (isinstance(lo, int) and isinstance(hi, int)) or isinstance(lo, bool) or isinstance(hi, bool):
                    it.undecided.append(f"randint bounds not followed ({lo!r}, {hi!r})")
                    return UNKNOWN
                if lo > hi:
                    it.throw(f"ValueError: randint({lo}, {hi}) has an empty range", call)
                k = len(draws)
                v = prefix[k] if k < len(prefix) else lo
                draws.append((lo, hi, v))
                return v
            if nm == "accumulate" and len(args) == 1 and isinstance(args[0], list) and all(_is_num(x) for x in args[0]):
                acc, res = 0, []
                for x in args[0]:
                    acc = acc + x
                    res.append(acc)
                return res
            if nm in ("bisect", "bisect_right", "bisect_left") and len(args) == 2 and isinstance(args[0], list) and _is_num(args[1]) \
                    and all(_is_num(x) for x in args[0]):
                import bisect as _b
                return getattr(_b, nm)(args[0], args[1])
            return None

        it = Interp(ctx.prog, cls, lambda *_: None, call_model, max_depth=4, max_traces=4)
        it.strict_index = True
        results = it.run(f, env)
        if len(results) != 1:
            raise Budget()
        trace, rv, notes = results[0]
        out.append(([d[2] for d in draws], trace, rv, it.envs[0], notes))
        for k in range(len(prefix), len(draws)):
            lo, hi, _ = draws[k]
            if hi - lo <= 24:
                vals = range(lo + 1, hi + 1)
            else:
                cand = {lo + 1, hi - 1, hi}
                for m in marks:
                    cand |= {m - 1, m, m + 1}
                vals = sorted(v for v in cand if lo < v <= hi)
            for v in vals:
                pending.append([d[2] for d in draws[:k]] + [v])
    return out


def syms(prefix: str, n: int) -> list:
    return [Sym(f"{prefix}{i + 1}") for i in range(n)]
