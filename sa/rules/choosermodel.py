"""Exhaustive small-scope model of the depth-limited choosers.

choose_production_alternatives of a decider is interpreted (sa/modelinterp) on three symbolic alternatives for every
combination of: their minimum depths (four tables over 1..3), which of them are recursive (three tables), ctx.depth 0..3,
max_depth 1..3, ctx.expansions 0 / 1 and - where the decider keeps such a flag - expanding True / False.  The list handed to
random.choice (or choice_weighted) is captured.  Used where the affine engine cannot follow the chooser's spelling (explicit
loops with append / continue, aliases), and to read off the full decider's frontier offset."""
from __future__ import annotations

import ast
from typing import Any, Optional

from ..astutil import call_name
from ..frontend import FunctionInfo
from ..modelinterp import Budget, Effect, Interp, Obj, Sym, UNKNOWN, _NONE

DIST_TABLES = ((1, 2, 3), (1, 1, 2), (2, 2, 2), (3, 2, 1))
REC_TABLES = ((), (1, 2), (0, 1, 2))


def _ctor_fields(prog, cls, call_model) -> dict:
    """attributes the decider's constructor creates that are empty containers / constants (copied fresh for every run)"""
    import copy
    if cls is None:
        return {}
    cache = _ctor_fields.__dict__.setdefault("cache", {})
    if cls.fullname not in cache:
        out = {}
        try:
            from .creationmodel import DSGE_MOD, build_decider

            def cm_(it, call, env, args, kwargs):
                nm = call_name(call)
                if nm == "get_min_tree_depth":
                    return 1
                return call_model(it, call, env, args, kwargs)
            obj, why = build_decider(prog, cls, cls.module.name == DSGE_MOD, 3, cm_, {})
            if obj is not None:
                for k_, v_ in obj.fields.items():
                    if isinstance(v_, (dict, list, set)) and not v_ or isinstance(v_, (int, float, str, bool)) or v_ is None:
                        out[k_] = v_
        except Exception:
            out = {}
        cache[cls.fullname] = out
    return {k_: copy.copy(v_) for k_, v_ in cache[cls.fullname].items()}


def _cursor_table():
    from ..modelinterp import DDict
    d = DDict()
    d.factory = int
    return d


def chooser_runs(ctx, f: FunctionInfo):
    """yield (scenario dict, offered list, fitting list, list handed to choice | None, returned value, raised, notes)"""
    prog = ctx.prog
    cls = f.cls
    alts = [Sym("x1"), Sym("x2"), Sym("x3")]
    ps = [p_ for p_ in f.params if p_ != "self"]
    alts_p = "alternatives" if "alternatives" in ps else (ps[-2] if len(ps) >= 2 else ps[0])
    ctx_p = "ctx" if "ctx" in ps else ps[-1]
    bodies = [f.node] + [g.node for g in (prog.lookup_method(cls, x.func.attr) for x in ast.walk(f.node)
                                           if isinstance(x, ast.Call) and isinstance(x.func, ast.Attribute)
                                           and isinstance(x.func.value, ast.Name) and x.func.value.id == "self") if g is not None]
    keeps_flag = any(isinstance(x, ast.Attribute) and x.attr == "expanding" for b in bodies for x in ast.walk(b))
    for dists in DIST_TABLES:
        dist = {a.tag: d_ for a, d_ in zip(alts, dists)}
        for rec in REC_TABLES:
            recset = {alts[i].tag for i in rec}
            for M in (1, 2, 3):
                for c in (0, 1, 2, 3):
                    for exp in (0, 1):
                        for flag in ((True, False) if keeps_flag else (None,)):
                            def one(gene):
                                captured: list = []

                                def call_model(it, call, env, args, kwargs, dist=dist, captured=captured, gene=gene):
                                    nm = call_name(call)
                                    if nm == "get_distance_to_terminal" and len(args) == 1 and isinstance(args[0], Sym):
                                        return dist.get(args[0].tag, UNKNOWN)
                                    if nm in ("choice", "choice_weighted") and args and isinstance(args[0], list) and isinstance(call.func, ast.Attribute):
                                        captured.append(list(args[0]))
                                        if not args[0]:
                                            it.throw("IndexError: choice from an empty list", call)
                                        return args[0][0]
                                    if nm == "get" and isinstance(call.func, ast.Attribute) and len(args) == 2:
                                        recv_ = it.ev(call.func.value, env, 9)
                                        if isinstance(recv_, Sym) and recv_.tag == "genotype":
                                            return gene          # a gene of the genotype-backed deciders: any integer (varied over the scenarios)
                                    if nm == "get_weights":
                                        return {a.tag: 1.0 for a in alts}
                                    if nm == "get_max_node_depth":
                                        return max(dist.values())
                                    if nm == "get_min_tree_depth":
                                        return min(dist.values())
                                    return None

                                it = Interp(prog, cls, lambda *_: None, call_model, max_depth=6, max_traces=4)
                                it.strict_index = True
                                it.heap[("grammar", "recursive_prods")] = set(recset)
                                # the grammar knows more symbols than the ones offered: a chooser that draws from the grammar's tables can return one of those
                                it.heap[("grammar", "all_nodes")] = [Sym("other0")] + list(alts) + [Sym("other9")]
                                it.heap[("grammar", "alternatives")] = {p_: [Sym("other0")] + list(alts) + [Sym("other9")] for p_ in ps if p_ not in (alts_p, ctx_p)}
                                env = {"self": Sym("self"), "self.max_depth": M, "self.grammar": Sym("grammar"), "self.random": Sym("random"),
                                       "self.genotype": Sym("genotype"), "self.positions": _cursor_table(),
                                       alts_p: list(alts),
                                       ctx_p: Obj("LocalSynthesisContext", {"depth": c, "nodes": 1, "expansions": exp, "dependent_values": {}})}
                                # whatever else the decider's own constructor sets up (tables, caches) is part of the object: taken from the
                                # interpreted constructor, attributes scripted above win
                                for k_, v_ in _ctor_fields(prog, cls, call_model).items():
                                    env.setdefault("self." + k_, v_)
                                if flag is not None:
                                    env["self.expanding"] = flag
                                for p_ in ps:
                                    env.setdefault(p_, Sym(p_))
                                scen = {"distances": dict(dist), "recursive": sorted(recset), "max_depth": M, "depth": c, "expansions": exp, "expanding": flag}
                                try:
                                    runs = it.run(f, env)
                                except Budget:
                                    return scen, alts, None, None, UNKNOWN, False, ["too many interpretations"]
                                fits = [a for a in alts if dist[a.tag] <= M - c]
                                if len(runs) != 1:
                                    return scen, alts, fits, None, UNKNOWN, False, [f"{len(runs)} interpretations ({it.fork_sites[:1]})"]
                                trace, rv, notes = runs[0]
                                raised = any(e.kind == "raise" for e in trace)
                                return scen, alts, fits, (captured[-1] if captured else None), rv, raised, list(notes)

                            res0 = one(c + 4 * exp + 8 * (M - 1))          # gene 0 .. 23 over the scenarios
                            scen0, alts0, fits0, lst0, rv0, raised0, notes0 = res0
                            if lst0 is None and not notes0 and not raised0 and isinstance(rv0, Sym) and fits0 is not None:
                                # a gene-indexed chooser (no list handed to random.choice): the set of alternatives it can return over the genes
                                # plays the part of that list
                                returned, ok_ = [], True
                                for g_ in range(2 * len(alts)):
                                    r_ = one(g_)
                                    if r_[6] or r_[5] or not isinstance(r_[4], Sym):
                                        ok_ = False
                                        break
                                    returned.append(r_[4])
                                if ok_:
                                    foreign = [x for x in returned if not any(x == a for a in alts)]
                                    lst0 = [a for a in alts if any(a == x for x in returned)]
                                    if foreign:
                                        rv0 = foreign[0]
                                    res0 = (scen0, alts0, fits0, lst0, rv0, raised0, notes0)
                            yield res0


def chooser_verdicts(ctx, f: FunctionInfo, exact: bool):
    """(sound, complete, member, n) verdicts: each is (True | False | None, detail)"""
    sound = complete = member = (True, "")
    n = 0
    for scen, alts, fits, lst, rv, raised, notes in chooser_runs(ctx, f):
        if notes or fits is None:
            und = (None, f"not followed: {notes[0] if notes else ''}")
            return und, und, und, n
        if raised:
            # choice([]) when nothing fits is the caller's problem (the limit is below the minimum); raising although something fits is not
            if fits and complete[0] is True:
                complete = (False, f"with {scen} the chooser fails although {[a.tag for a in fits]} fit the remaining depth")
            continue
        n += 1
        if lst is None:
            # a genotype-backed chooser indexes the offer with a gene instead of handing a list to random.choice: only membership is decided here
            if sound[0] is True:
                sound = complete = (None, "no list reaches random.choice in the model")
            if not (isinstance(rv, Sym) and any(rv is a or rv == a for a in alts)) and member[0] is True:
                member = ((None if rv is UNKNOWN else False), f"with {scen} the chooser returns {rv!r}, not one of the offered alternatives")
            continue
        bad = [a for a in lst if isinstance(a, Sym) and a.tag in scen["distances"] and scen["distances"][a.tag] > scen["max_depth"] - scen["depth"]]
        if bad and sound[0] is True:
            sound = (False, (f"with distances {scen['distances']}, max_depth {scen['max_depth']} and ctx.depth {scen['depth']} the list handed to random.choice "
                             f"holds {bad[0].tag} (minimum depth {scen['distances'][bad[0].tag]}), which does not fit the remaining depth "
                             f"{scen['max_depth'] - scen['depth']}: the limit can be exceeded / creation fails deeper down"))
        if fits and not lst and complete[0] is True:
            complete = (False, f"with {scen} nothing is offered to random.choice although {[a.tag for a in fits]} fit")
        if exact and [a.tag for a in lst] != [a.tag for a in fits] and complete[0] is True:
            complete = (False, (f"with distances {scen['distances']}, max_depth {scen['max_depth']} and ctx.depth {scen['depth']} grow chooses among "
                                f"{[a.tag for a in lst]}, the alternatives that fit are {[a.tag for a in fits]}: a valid program becomes unreachable (or an invalid one reachable)"))
        if not (isinstance(rv, Sym) and any(rv is a or rv == a for a in alts)) and member[0] is True:
            member = ((None if rv is UNKNOWN else False), f"with {scen} the chooser returns {rv!r}, not one of the offered alternatives")
    return sound, complete, member, n


def full_offset(ctx, f: FunctionInfo) -> Optional[int]:
    """o such that, with no recursive production, the full decider prefers the alternatives with distance == remaining depth + o"""
    offs = set()
    for scen, alts, fits, lst, rv, raised, notes in chooser_runs(ctx, f):
        if notes or raised or lst is None or scen["recursive"] or scen["distances"] != {"x1": 1, "x2": 2, "x3": 3}:
            continue
        b = scen["max_depth"] - scen["depth"]
        if b < 1:
            continue
        got = sorted(scen["distances"][a.tag] for a in lst)
        if len(set(got)) == 1 and got != sorted(scen["distances"][a.tag] for a in fits):
            offs.add(got[0] - b)
    return offs.pop() if len(offs) == 1 else None
