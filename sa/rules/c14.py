"""C14 - searches stop at the first budget check after the budget is met (loop and predicate shapes)."""
from __future__ import annotations

import ast
from typing import Optional

from ..astutil import call_name, is_self_attr, names_read
from ..frontend import AnalysisError, FunctionInfo, norm, parent, walk_local
from ..paths import paths, stmts_on
from ..report import Ctx
from .common import ALGORITHM, BUDGET, EVALUATOR, TRACKER

LEVEL_TEXT = (
    "Static rules: (R1) every SynthesisAlgorithm.search has exactly one loop, its test is 'not self.is_done()' and "
    "nothing else, the body has no break/return and does not consult the budget again, and is_done delegates to "
    "budget.is_done(tracker); (R2) for random search, (1+1) and hill climbing every path through the loop body hands "
    "freshly created individuals to tracker.evaluate (batch of 1, 1, number_of_mutations), so each iteration adds "
    "evaluations; for GP the body wraps whatever the step yields into a Population that evaluates every individual "
    "through the tracker (freshness of what a step yields is not decided); (R3) EvaluationBudget is "
    "'evaluations >= limit' on the evaluator's counter, AnyOf is the disjunction of both members, TargetFitness "
    "compares the best individual's first component within a tolerance and is false while there is no best. "
    "Termination for arbitrary user step compositions is not decidable and not claimed."
)


def _is_not_is_done(test: ast.AST) -> bool:
    return isinstance(test, ast.UnaryOp) and isinstance(test.op, ast.Not) and isinstance(test.operand, ast.Call) \
        and is_self_attr(test.operand.func, "is_done") and not test.operand.args


def run(ctx: Ctx) -> None:
    prog, res = ctx.prog, ctx.res
    ctx.rule("C14.R1", "search loop: one 'while not self.is_done()', no other exit, one budget check per iteration")
    ctx.rule("C14.R2", "every iteration evaluates new individuals through the tracker (batch 1 / 1 / number_of_mutations / population)")
    ctx.rule("C14.R3", "budget predicates: evaluations >= limit; AnyOf = a or b; TargetFitness on best[0] within tolerance")

    searches = prog.implementations(ALGORITHM, "search")
    ctx.floor("C14.R1", len(searches), 4, "search() implementations")
    for f in searches:
        loops = [l for l in walk_local(f.node) if isinstance(l, (ast.While, ast.For, ast.AsyncFor))
                 and not any(isinstance(a, (ast.ListComp, ast.GeneratorExp)) for a in [parent(l)])]
        top_loops = [l for l in loops if isinstance(l, ast.While)]
        ok = len(top_loops) == 1 and _is_not_is_done(top_loops[0].test)
        ctx.ob("C14.R1", f, top_loops[0] if top_loops else f.node, "loop test is exactly 'not self.is_done()'", ok,
               "" if ok else ("search has no single while-loop on the budget" if len(top_loops) != 1 else
                              f"loop test is '{norm(top_loops[0].test)}': the search may stop early or run past the "
                              f"first satisfied budget check"))
        if len(top_loops) != 1:
            continue
        loop = top_loops[0]
        exits = [x for st in loop.body for x in ast.walk(st) if isinstance(x, (ast.Break, ast.Return))
                 and not _in_nested_loop(x, loop)]
        ctx.ob("C14.R1", f, exits[0] if exits else loop, "no break/return inside the search loop", not exits,
               "" if not exits else "the loop can be left without consulting the budget")
        extra = [c for st in loop.body for c in ast.walk(st) if isinstance(c, ast.Call) and call_name(c) == "is_done"]
        ctx.ob("C14.R1", f, extra[0] if extra else loop, "budget consulted once per iteration", not extra,
               "" if not extra else "the budget is consulted inside the body as well")
        if loop.orelse:
            ctx.ob("C14.R1", f, loop, "no while-else", False, "while-else on the search loop")

        # ---- R2
        is_gp = any(isinstance(c, ast.Call) and call_name(c) == "Population" for st in loop.body for c in ast.walk(st))
        if is_gp:
            pops = [c for st in loop.body for c in ast.walk(st) if isinstance(c, ast.Call) and call_name(c) == "Population"]
            okp = False
            for p_ in pops:
                a0 = p_.args[0] if p_.args else None
                if isinstance(a0, ast.Call) and call_name(a0) == "apply" and any(
                        is_self_attr(x, "population_size") for x in a0.args) and any(
                        is_self_attr(x, "tracker") for x in p_.args):
                    okp = True
            ctx.ob("C14.R2", f, pops[0], "GP body: Population(step.apply(..., population_size, ...), tracker)", okp,
                   "" if okp else "the generation is not built from step.apply with the configured size and the tracker")
            continue
        for i, p_ in enumerate(paths(loop.body, unroll_loops=False)):
            evals = [c for st in stmts_on(p_) for c in ast.walk(st) if isinstance(c, ast.Call)
                     and call_name(c) == "evaluate" and isinstance(c.func, ast.Attribute) and is_self_attr(c.func.value, "tracker")]
            ok2, why = False, "a path through the loop body evaluates nothing: the search can spin without progress"
            size = None
            if len(evals) == 1 and evals[0].args:
                a = evals[0].args[0]
                src = a
                if isinstance(a, ast.Name):
                    ds = [s for s in stmts_on(p_) if isinstance(s, ast.Assign) and isinstance(s.targets[0], ast.Name)
                          and s.targets[0].id == a.id]
                    src = ds[-1].value if ds else None
                if isinstance(src, ast.List) and len(src.elts) == 1:
                    size = "1"
                    fresh = _fresh_individual(src.elts[0], p_)
                elif isinstance(src, ast.ListComp):
                    fresh = isinstance(src.elt, ast.Call) and call_name(src.elt) == "Individual"
                    it = src.generators[0].iter
                    size = _comp_size(it, p_)
                else:
                    fresh = False
                ok2 = bool(fresh) and size is not None
                why = "" if ok2 else "the evaluated batch is not a list of freshly created individuals of the stated size"
            elif len(evals) > 1:
                why = "several tracker.evaluate calls on one path"
            ctx.ob("C14.R2", f, evals[0] if evals else loop, f"iteration path {i} evaluates a fresh batch of size {size}", ok2, why)

    # is_done delegation
    alg = prog.get_class(ALGORITHM)
    for c in prog.subclasses(ALGORITHM, strict=False):
        d = c.methods.get("is_done")
        if d is None:
            continue
        rets = [r for r in walk_local(d.node) if isinstance(r, ast.Return)]
        ok = len(rets) == 1 and isinstance(rets[0].value, ast.Call) and call_name(rets[0].value) == "is_done" \
            and is_self_attr(rets[0].value.func.value, "budget") and len(rets[0].value.args) == 1 \
            and is_self_attr(rets[0].value.args[0], "tracker")
        ctx.ob("C14.R1", d, d.node, "is_done() == self.budget.is_done(self.tracker)", ok,
               "" if ok else "is_done does not delegate to the configured budget on the search's tracker")

    # ---- R3 budget predicates
    n3 = 0
    for c in prog.subclasses(BUDGET):
        d = c.methods.get("is_done")
        if d is None:
            continue
        tr = d.params[1]
        rets = [r for r in walk_local(d.node) if isinstance(r, ast.Return)]
        body_calls = [x for x in walk_local(d.node) if isinstance(x, ast.Call)]
        if any(call_name(x) == "get_number_evaluations" for x in body_calls):
            n3 += 1
            ok, why = False, "evaluation budget is not 'evaluations >= limit'"
            if len(rets) == 1 and isinstance(rets[0].value, ast.Compare) and len(rets[0].value.ops) == 1:
                cmp_ = rets[0].value
                l, r, op = cmp_.left, cmp_.comparators[0], cmp_.ops[0]
                def is_count(e): return isinstance(e, ast.Call) and call_name(e) == "get_number_evaluations"
                def is_limit(e): return is_self_attr(e)
                if is_count(l) and is_limit(r):
                    ok = isinstance(op, ast.GtE)
                    if isinstance(op, ast.Gt):
                        why = "'>' stops one budget check late (n evaluations do not stop the search)"
                    elif isinstance(op, ast.Eq):
                        why = "'==' may never hold when a batch jumps over the limit: the search does not terminate"
                elif is_limit(l) and is_count(r):
                    ok = isinstance(op, ast.LtE)
            ctx.ob("C14.R3", d, rets[0] if rets else d.node, "EvaluationBudget.is_done == (evaluations >= limit)", ok, "" if ok else why)
        elif len(rets) == 1 and isinstance(rets[0].value, ast.BoolOp):
            n3 += 1
            bo = rets[0].value
            members = [v for v in bo.values if isinstance(v, ast.Call) and call_name(v) == "is_done"
                       and v.args and isinstance(v.args[0], ast.Name) and v.args[0].id == tr]
            attrs = {v.func.value.attr for v in members if is_self_attr(v.func.value)}
            init = c.methods.get("__init__")
            stored = {a.targets[0].attr for a in walk_local(init.node) if isinstance(a, ast.Assign)
                      and is_self_attr(a.targets[0])} if init else set()
            ok = isinstance(bo.op, ast.Or) and len(members) == len(bo.values) == 2 and attrs == stored and len(attrs) == 2
            ctx.ob("C14.R3", d, rets[0], "AnyOf.is_done == a.is_done(tracker) or b.is_done(tracker)", ok,
                   "" if ok else ("a conjunction stops only when both budgets are met" if isinstance(bo.op, ast.And)
                                  else "the disjunction does not consult both member budgets on the given tracker"))
        elif any(call_name(x) == "get_best_individual" for x in body_calls):
            n3 += 1
            # False while there is no best; compares component [0] of the best with self.<value> within a tolerance
            none_guard = False
            for st in d.node.body:
                if isinstance(st, ast.If) and isinstance(st.test, ast.Compare) and isinstance(st.test.ops[0], ast.Is) \
                        and isinstance(st.test.comparators[0], ast.Constant) and st.test.comparators[0].value is None:
                    r0 = [x for x in st.body if isinstance(x, ast.Return)]
                    none_guard = bool(r0) and isinstance(r0[0].value, ast.Constant) and r0[0].value.value is False
            ctx.ob("C14.R3", d, d.node, "TargetFitness.is_done is False while there is no best individual", none_guard,
                   "" if none_guard else "no 'best is None -> False' guard")
            cmps = [x for x in walk_local(d.node) if isinstance(x, ast.Compare) and isinstance(x.left, ast.Call)
                    and call_name(x.left) == "abs"]
            okc = False
            why = "no |component - target| < tolerance comparison"
            first = [x for x in cmps if any(isinstance(s, ast.Subscript) and isinstance(s.slice, ast.Constant)
                                            and s.slice.value == 0 for s in ast.walk(x.left))]
            if first:
                x = first[0]
                diff = x.left.args[0]
                okc = isinstance(diff, ast.BinOp) and isinstance(diff.op, ast.Sub) and isinstance(x.ops[0], (ast.Lt, ast.LtE)) \
                    and any(is_self_attr(z) for z in ast.walk(diff)) and isinstance(x.comparators[0], ast.Constant)
                if not okc:
                    why = f"comparison is '{norm(x)}'"
                # the component must come from the *best* individual's fitness for the tracker's problem
                src_ok = any(call_name(z) == "get_fitness" for z in body_calls)
                okc = okc and src_ok
            ctx.ob("C14.R3", d, first[0] if first else d.node, "TargetFitness compares best.fitness_components[0] with the target within a tolerance",
                   okc, "" if okc else why)
    ctx.floor("C14.R3", n3, 3, "budget predicates (evaluation, any-of, target)")

    # counter plumbing: tracker.get_number_evaluations -> evaluator.number_of_evaluations
    tr = prog.get_class(TRACKER)
    g = tr.methods.get("get_number_evaluations")
    ok = False
    if g is not None:
        rets = [r for r in walk_local(g.node) if isinstance(r, ast.Return)]
        ok = len(rets) == 1 and isinstance(rets[0].value, ast.Call) and call_name(rets[0].value) == "number_of_evaluations" \
            and is_self_attr(rets[0].value.func.value, "evaluator")
    ctx.ob("C14.R3", g, g.node if g else None, "tracker.get_number_evaluations() is the evaluator's counter", ok,
           "" if ok else "the budget does not read the evaluator's evaluation counter", module=tr.module.relpath)
    # ---- R4: the counter a budget reads belongs to this search only
    from .c08 import process_state_rule
    ctx.rule("C14.R4", "trackers / evaluators / budgets keep no state shared between searches (no stateful defaults, no module-level counters)")
    n4 = process_state_rule(ctx, "C14.R4", ("geneticengine.evaluation", "geneticengine.algorithms.api", "geneticengine.algorithms.heuristics"))
    ctx.ob("C14.R4", None, None, "evaluation modules scanned for process-level state", True, f"{n4} candidate sites", module="geneticengine/evaluation")
    ctx.assumptions += ["every fitness evaluation terminates", "GP: the configured step yields individuals (C15)"]


def _in_nested_loop(x: ast.AST, loop: ast.AST) -> bool:
    from ..frontend import ancestors
    for a in ancestors(x):
        if a is loop:
            return False
        if isinstance(a, (ast.For, ast.While, ast.AsyncFor)) and isinstance(x, ast.Break):
            return True
        if isinstance(a, (ast.FunctionDef, ast.Lambda, ast.AsyncFunctionDef)):
            return True
    return False


def _fresh_individual(e: ast.AST, path) -> bool:
    if isinstance(e, ast.Call) and call_name(e) == "Individual":
        return True
    if isinstance(e, ast.Name):
        ds = [s for s in stmts_on(path) if isinstance(s, ast.Assign) and isinstance(s.targets[0], ast.Name)
              and s.targets[0].id == e.id]
        return bool(ds) and isinstance(ds[-1].value, ast.Call) and call_name(ds[-1].value) == "Individual"
    return False


def _comp_size(it: ast.AST, path) -> Optional[str]:
    """Size of a comprehension's iterable: range(self.<n>) or a local list built by a comprehension over one."""
    if isinstance(it, ast.Call) and call_name(it) == "range" and len(it.args) == 1 and is_self_attr(it.args[0]):
        return f"self.{it.args[0].attr}"
    if isinstance(it, ast.Name):
        ds = [s for s in stmts_on(path) if isinstance(s, ast.Assign) and isinstance(s.targets[0], ast.Name)
              and s.targets[0].id == it.id]
        if ds and isinstance(ds[-1].value, ast.ListComp) and not ds[-1].value.generators[0].ifs:
            return _comp_size(ds[-1].value.generators[0].iter, path)
    return None
