"""C14 - searches stop at the first budget check after the budget is met (loop and predicate shapes)."""
from __future__ import annotations

import ast
from typing import Optional

from ..astutil import call_name, is_self_attr, names_read
from ..frontend import AnalysisError, FunctionInfo, norm, parent, walk_local
from ..paths import paths, stmts_on
from ..report import Ctx
from .common import ALGORITHM, BUDGET, EVALUATOR, TRACKER

LEVEL_TEXT = (
    "(R1) every SynthesisAlgorithm.search has exactly one search loop - 'while not self.is_done()' or the "
    "equivalent 'while True: if self.is_done(): break' guard at the top of the body - with no other exit, the "
    "body does not consult the budget again, and is_done delegates to budget.is_done(tracker); inner loops that "
    "only scan a finished batch are not search loops; (R2) finite-model interpretation of every search(): with a "
    "budget that answers 'not done' three times and then 'done', between two consecutive checks a non-empty batch"
    " of individuals created since the previous check (from a created / mutated genotype, or yielded by the step "
    "/ initializer for GP and wrapped in a tracked Population) reaches tracker.evaluate, none twice, exactly one "
    "batch per check (a second batch before the budget is consulted again lets a budget that is already met go "
    "unnoticed for a whole batch), and nothing is evaluated after 'done'; (R3) every SearchBudget.is_done is "
    "interpreted against a scripted tracker: EvaluationBudget is 'evaluations >= limit' (9, 10, 11, 25 against "
    "10), AnyOf is the disjunction with both members consulted on the given tracker (truth table), TimeBudget is "
    "'elapsed >= limit', TargetFitness is false while there is no best and compares the first fitness component "
    "the best individual holds FOR THE TRACKER'S PROBLEM (the individual also holds a fitness for an earlier "
    "problem that gives the opposite answer; get_fitness() without a problem returns that one) with the target "
    "within an absolute tolerance (targets 0, 5 and 1000 on a minimised problem, where the aggregate differs and "
    "a relative tolerance would give other answers); the multi-objective target budgets are interpreted the same "
    "way (one target per objective / one target for all, whichever the constructor announces); (R4) trackers / "
    "evaluators / budgets keep no state shared between searches; (R5) the tracked population wrapper of the GP "
    "search (a constructor taking an iterable of individuals and a tracker) - wherever it lives and however it is"
    " built - is interpreted on [already evaluated, not evaluated]: every individual is handed to the tracker, "
    "because steps evaluate through the raw evaluator and the tracker's best - what a target-fitness budget reads"
    " - is updated only inside tracker.evaluate. (R6) functions outside the budget module that assemble a budget "
    "(SimpleGP.build_budget) are interpreted: a parameter that, set to 7, turns up inside a budget object of the "
    "value returned - whatever the spelling: constructor calls, a table of classes folded with reduce - is a "
    "budget parameter, and with 0, 0.0 and a negative value (target budgets) or 1 (the others) the budget "
    "returned still contains a budget of that class built from that very value (a target of 0 is a target), and "
    "callers hand the parameter over without an 'or' fall-back. Termination for arbitrary user step compositions "
    "is not decidable and not claimed."
)


def ancestors_of(n: ast.AST, stop: ast.AST):
    from ..frontend import ancestors
    for a in ancestors(n):
        if a is stop:
            return
        yield a


def _is_rounds_generator(g: FunctionInfo) -> bool:
    """a generator method whose only loop yields once per round after consulting self.is_done() exactly once:
    'while not self.is_done(): yield x'  or  'for x in count(..) / while True:  if self.is_done(): return | break;  yield x'"""
    body = [b for b in g.node.body if not (isinstance(b, ast.Expr) and isinstance(b.value, ast.Constant))]
    if len(body) != 1 or not isinstance(body[0], (ast.While, ast.For)) or body[0].orelse:
        return False
    l = body[0]
    ys = [y for y in ast.walk(l) if isinstance(y, (ast.Yield, ast.YieldFrom))]
    dones = [c for c in ast.walk(l) if isinstance(c, ast.Call) and is_self_attr(c.func, "is_done")]
    if len(ys) != 1 or isinstance(ys[0], ast.YieldFrom) or len(dones) != 1:
        return False
    if isinstance(l, ast.While) and _is_not_is_done(l.test):
        return not any(isinstance(x, (ast.Break, ast.Return, ast.Continue)) for b in l.body for x in ast.walk(b))
    unbounded = (isinstance(l, ast.While) and isinstance(l.test, ast.Constant) and l.test.value is True) or \
        (isinstance(l, ast.For) and isinstance(l.iter, ast.Call) and call_name(l.iter) == "count")
    first = l.body[0] if l.body else None
    if unbounded and isinstance(first, ast.If) and first.test is dones[0] and not first.orelse and len(first.body) == 1 \
            and isinstance(first.body[0], (ast.Break, ast.Return)) and (not isinstance(first.body[0], ast.Return) or first.body[0].value is None):
        rest = l.body[1:]
        return not any(isinstance(x, (ast.Break, ast.Return, ast.Continue)) for b in rest for x in ast.walk(b))
    return False


def _is_not_is_done(test: ast.AST) -> bool:
    return isinstance(test, ast.UnaryOp) and isinstance(test.op, ast.Not) and isinstance(test.operand, ast.Call) \
        and is_self_attr(test.operand.func, "is_done") and not test.operand.args


def run(ctx: Ctx) -> None:
    prog, res = ctx.prog, ctx.res
    ctx.rule("C14.R1", "search loop: one 'while not self.is_done()', no other exit, one budget check per iteration")
    ctx.rule("C14.R2", "every iteration evaluates new individuals through the tracker (batch 1 / 1 / number_of_mutations / population)")
    ctx.rule("C14.R3", "budget predicates: evaluations >= limit; AnyOf = a or b; TargetFitness on best[0] within tolerance")

    searches = prog.implementations(ALGORITHM, "search")
    ctx.floor("C14.R1", len(searches), 4, "search() implementations")
    for f in searches:
        loops = [l for l in walk_local(f.node) if isinstance(l, (ast.While, ast.For, ast.AsyncFor))
                 and not any(isinstance(a, (ast.ListComp, ast.GeneratorExp)) for a in [parent(l)])]
        top_loops = [l for l in loops if isinstance(l, ast.While)]
        # the equivalent spelling: an unbounded loop ('while True', 'for g in itertools.count(..)') whose first statement is
        # 'if self.is_done(): break'
        guard_break = None
        if not (len(top_loops) == 1 and _is_not_is_done(top_loops[0].test)):
            for l in loops:
                unbounded = (isinstance(l, ast.While) and isinstance(l.test, ast.Constant) and l.test.value is True) or \
                    (isinstance(l, ast.For) and isinstance(l.iter, ast.Call) and call_name(l.iter) == "count")
                first = l.body[0] if l.body else None
                if unbounded and isinstance(first, ast.If) and isinstance(first.test, ast.Call) and is_self_attr(first.test.func, "is_done") \
                        and not first.test.args and len(first.body) == 1 and isinstance(first.body[0], ast.Break) and not first.orelse \
                        and not any(isinstance(a_, (ast.For, ast.While)) for a_ in ancestors_of(l, f.node)):
                    guard_break = (l, first.body[0])
                    top_loops = [l]
                    break
        rounds_loop = None
        if guard_break is None and not (len(top_loops) == 1 and _is_not_is_done(top_loops[0].test)):
            # for _ in self.rounds(): the loop is driven by a generator method that consults the budget exactly once before each round
            for l in loops:
                if isinstance(l, ast.For) and isinstance(l.iter, ast.Call) and isinstance(l.iter.func, ast.Attribute) and isinstance(l.iter.func.value, ast.Name) \
                        and l.iter.func.value.id == "self" and f.cls is not None and not any(isinstance(a_, (ast.For, ast.While)) for a_ in ancestors_of(l, f.node)):
                    g_ = prog.lookup_method(f.cls, l.iter.func.attr)
                    if g_ is not None and _is_rounds_generator(g_):
                        rounds_loop = l
                        top_loops = [l]
                        break
        ok: Optional[bool] = guard_break is not None or rounds_loop is not None or (len(top_loops) == 1 and _is_not_is_done(top_loops[0].test))
        if not ok and len(top_loops) != 1:
            ok = None     # another loop shape: the model of R2 decides what happens between budget checks
        ctx.ob("C14.R1", f, top_loops[0] if top_loops else f.node, "loop test is exactly 'not self.is_done()'", ok,
               "" if ok else ("the search loop is neither 'while not self.is_done()' nor an unbounded loop that starts with 'if self.is_done(): break'"
                              if len(top_loops) != 1 else
                              f"loop test is '{norm(top_loops[0].test)}': the search may stop early or run past the "
                              f"first satisfied budget check"))
        if len(top_loops) != 1:
            continue
        loop = top_loops[0]
        exits = [x for st in loop.body for x in ast.walk(st) if isinstance(x, (ast.Break, ast.Return))
                 and not _in_nested_loop(x, loop) and not (guard_break is not None and x is guard_break[1])]
        ctx.ob("C14.R1", f, exits[0] if exits else loop, "no break/return inside the search loop", not exits,
               "" if not exits else "the loop can be left without consulting the budget")
        extra = [c for st in loop.body for c in ast.walk(st) if isinstance(c, ast.Call) and call_name(c) == "is_done"
                 and not (guard_break is not None and c is loop.body[0].test)]
        ctx.ob("C14.R1", f, extra[0] if extra else loop, "budget consulted once per iteration", not extra,
               "" if not extra else "the budget is consulted inside the body as well")
        if loop.orelse:
            ctx.ob("C14.R1", f, loop, "no while-else", False, "while-else on the search loop")

        # ---- R2
        _search_model(ctx, f)

    ctx.rule("C14.R5", "the tracked population wrapper hands every individual of a generation to the tracker (evaluated or not)")
    ctx.floor("C14.R5", _population_model(ctx), 1, "tracked population wrappers")

    # is_done delegation
    alg = prog.get_class(ALGORITHM)
    for c in prog.subclasses(ALGORITHM, strict=False):
        d = c.methods.get("is_done")
        if d is None:
            continue
        rets = [r for r in walk_local(d.node) if isinstance(r, ast.Return)]
        ok = len(rets) == 1 and isinstance(rets[0].value, ast.Call) and call_name(rets[0].value) == "is_done" \
            and is_self_attr(rets[0].value.func.value, "budget") and len(rets[0].value.args) == 1 \
            and is_self_attr(rets[0].value.args[0], "tracker")
        ctx.ob("C14.R1", d, d.node, "is_done() == self.budget.is_done(self.tracker)", ok,
               "" if ok else "is_done does not delegate to the configured budget on the search's tracker")

    # ---- R3 budget predicates: every SearchBudget.is_done is interpreted (sa/modelinterp, helpers inlined) against a
    # scripted tracker
    n3 = _budget_models(ctx)
    ctx.floor("C14.R3", n3, 3, "budget predicates (evaluation, any-of, target)")

    ctx.rule("C14.R6", "front ends that assemble a budget from parameters include every budget given: a target of 0 is a target")
    ctx.floor("C14.R6", _builder_models(ctx), 3, "budget parameters of budget-assembling functions")

    # counter plumbing: tracker.get_number_evaluations -> evaluator.number_of_evaluations
    tr = prog.get_class(TRACKER)
    g = tr.methods.get("get_number_evaluations")
    ok = False
    if g is not None:
        rets = [r for r in walk_local(g.node) if isinstance(r, ast.Return)]
        ok = len(rets) == 1 and isinstance(rets[0].value, ast.Call) and call_name(rets[0].value) == "number_of_evaluations" \
            and is_self_attr(rets[0].value.func.value, "evaluator")
    ctx.ob("C14.R3", g, g.node if g else None, "tracker.get_number_evaluations() is the evaluator's counter", ok,
           "" if ok else "the budget does not read the evaluator's evaluation counter", module=tr.module.relpath)
    # ---- R4: the counter a budget reads belongs to this search only
    from .c08 import process_state_rule
    ctx.rule("C14.R4", "trackers / evaluators / budgets keep no state shared between searches (no stateful defaults, no module-level counters)")
    n4 = process_state_rule(ctx, "C14.R4", ("geneticengine.evaluation", "geneticengine.algorithms.api", "geneticengine.algorithms.heuristics"))
    ctx.ob("C14.R4", None, None, "evaluation modules scanned for process-level state", True, f"{n4} candidate sites", module="geneticengine/evaluation")
    ctx.assumptions += ["every fitness evaluation terminates", "GP: the configured step yields individuals (C15)"]


def _search_model(ctx: Ctx, f: FunctionInfo) -> None:
    """search() of a heuristic search interpreted with a budget that says 'not done' three times and then 'done':
    between two consecutive budget checks tracker.evaluate receives a non-empty list of individuals that were created
    (Individual(...)) from a freshly created / mutated genotype since the previous check and were never evaluated before;
    after the budget is met nothing more is evaluated."""
    from ..modelinterp import Budget, Effect, Interp, Sym, UNKNOWN, _NONE
    cls = f.cls
    state = {"checks": 0, "k": 0, "evaluated": [], "created": {}}

    def reset():
        state.update(checks=0, k=0, evaluated=[], created={})

    def call_model(it, call, env, args, kwargs):
        nm = call_name(call)
        if nm == "is_done" and is_self_attr(call.func):
            state["checks"] += 1
            it.trace.append(Effect("call", "is_done", (), {}, node=call))
            return state["checks"] > 3
        if nm in ("create_genotype", "mutate") and isinstance(call.func, ast.Attribute):
            state["k"] += 1
            return Sym(f"geno{state['k']}")
        if nm == "Individual" and isinstance(call.func, ast.Name):
            state["k"] += 1
            g = kwargs.get("genotype", args[0] if args else UNKNOWN)
            t = f"ind{state['k']}"
            state["created"][t] = g
            it.heap[(t, "genotype")] = g
            return Sym(t)
        if nm == "evaluate" and isinstance(call.func, ast.Attribute) and is_self_attr(call.func.value, "tracker"):
            batch = args[0] if args else UNKNOWN
            it.trace.append(Effect("call", "evaluate", (list(batch) if isinstance(batch, list) else batch,), {}, node=call))
            return _NONE
        if nm in ("apply", "initialize") and isinstance(call.func, ast.Attribute) and not is_self_attr(call.func):
            recv = it.ev(call.func.value, env, 9)
            if isinstance(recv, Sym) and recv.tag in ("step", "initializer"):
                size = next((a for a in reversed(args) if isinstance(a, int) and not isinstance(a, bool) and a > 0), None)
                out = []
                for _ in range(size or 0):
                    state["k"] += 1
                    out.append(Sym(f"ind{state['k']}"))
                return out
        if nm == "Population" and isinstance(call.func, ast.Name):
            src = args[0] if args else kwargs.get("individuals", UNKNOWN)
            trk = args[1] if len(args) > 1 else kwargs.get("tracker")
            if isinstance(trk, Sym) and trk.tag == "tracker":
                it.trace.append(Effect("call", "evaluate", (list(src) if isinstance(src, list) else src,), {}, node=call))
            return src if isinstance(src, list) else UNKNOWN
        if nm in ("get_best_individual",):
            ev = [x for x in state["evaluated_syms"]] if "evaluated_syms" in state else []
            first = next((e.args[0][0] for e in it.trace if e.kind == "call" and e.name == "evaluate" and isinstance(e.args[0], list) and e.args[0]), None)
            return first if first is not None else Sym("best")
        return None

    it = Interp(ctx.prog, cls, lambda *_: None, call_model, max_depth=4, max_traces=16)
    it.on_start = reset
    env = {"self": Sym("self"), "self.number_of_mutations": 3, "self.representation": Sym("representation"), "self.random": Sym("random"),
           "self.tracker": Sym("tracker"), "self.problem": Sym("problem"), "self.population_size": 2, "self.step": Sym("step"),
           "self.population_initializer": Sym("initializer")}
    try:
        runs = it.run(f, env)
    except Budget:
        ctx.ob("C14.R2", f, f.node, f"{cls.name}.search: every iteration evaluates fresh individuals", None, "too many interpretations")
        return
    bad = und = None
    sizes = set()
    for trace, rv, notes in runs:
        if any(e.kind == "raise" for e in trace):
            und = und or "a path raises"
            continue
        seen_inds: set = set()
        since_check: list = []
        checks = 0
        for e in trace:
            if e.kind != "call":
                continue
            if e.name == "is_done":
                if checks >= 1 and checks <= 3 and not since_check and bad is None:
                    bad = f"iteration {checks} evaluates nothing before the next budget check: the search can spin without progress"
                if checks >= 1 and len(since_check) > 1 and bad is None:
                    bad = (f"iteration {checks} hands {len(since_check)} batches (sizes {since_check}) to the tracker before the budget is consulted again: a budget that "
                           f"is met after the first of them is noticed one batch late (with a budget of 1 the search makes {sum(since_check)} evaluations; a target "
                           f"reached by the first batch does not stop it)")
                checks += 1
                since_check = []
            elif e.name == "evaluate":
                b = e.args[0]
                if checks > 3 and bad is None:
                    bad = "individuals are evaluated after the budget check said the search is done"
                if not isinstance(b, list):
                    und = und or "the evaluated batch is not followed"
                    continue
                if not b and bad is None:
                    bad = f"iteration {checks} hands an empty batch to the tracker"
                for x in b:
                    if not (isinstance(x, Sym) and x.tag.startswith("ind")):
                        if bad is None:
                            bad = f"iteration {checks} evaluates {x!r}, which is not an individual created in this search"
                    elif x.tag in seen_inds and bad is None:
                        bad = f"iteration {checks} evaluates {x!r} again: no new individual, the evaluation count does not advance"
                    else:
                        seen_inds.add(x.tag)
                since_check.append(len(b))
                sizes.add(len(b))
        if checks < 4:
            und = und or f"only {checks} budget checks were reached in the model"
    ctx.ob("C14.R2", f, f.node, f"{cls.name}.search: between two budget checks a non-empty batch of newly created individuals is evaluated; nothing after 'done'",
           False if bad else (None if und else True), bad or und or "", witness={"batch_sizes": sorted(sizes)})


def _population_model(ctx: Ctx) -> int:
    """C14.R5: the tracked population wrapper (the class the GP search wraps every generation in: a constructor that takes an
    iterable of individuals and a tracker) hands *every* individual to the tracker - also those that already carry a fitness,
    because genetic steps evaluate through the raw evaluator and the tracker's best (what a target-fitness budget reads) is
    only updated inside tracker.evaluate.  Interpreted on [already evaluated, not evaluated]."""
    from ..modelinterp import Budget, Effect, Interp, Sym, UNKNOWN, _NONE
    prog = ctx.prog
    n = 0
    for c in prog.classes.values():
        init = c.methods.get("__init__")
        if init is None or not c.module.name.startswith("geneticengine.algorithms") or "tracker" not in init.params or len(init.params) < 3:
            continue
        # a wrapper of individuals: its first parameter is iterated in the constructor
        src = init.params[1]
        if not any(isinstance(x, ast.Name) and x.id == src for x in walk_local(init.node)):
            continue
        ann = init.node.args.args[1].annotation if len(init.node.args.args) > 1 else None
        iterates = any(isinstance(l, (ast.For, ast.comprehension)) and any(isinstance(x, ast.Name) and x.id == src for x in ast.walk(l.iter))
                       for l in walk_local(init.node))
        if not iterates and not (ann is not None and any(w in norm(ann) for w in ("Iter", "list", "Sequence"))):
            continue      # the first parameter is neither iterated here nor declared as a collection of individuals
        n += 1
        inds = [Sym("ind1"), Sym("ind2")]
        fit = {"ind1": True, "ind2": False}

        def call_model(it, call, env, args, kwargs):
            nm = call_name(call)
            recv = it.ev(call.func.value, env, 9) if isinstance(call.func, ast.Attribute) else None
            if nm in ("evaluate_single", "evaluate") and isinstance(recv, Sym) and recv.tag == "tracker":
                b = args[0] if args else UNKNOWN
                it.trace.append(Effect("call", "tracked", (list(b) if isinstance(b, list) else [b],), {}, node=call))
                return _NONE
            if nm == "has_fitness" and isinstance(recv, Sym) and recv.tag in fit:
                return fit[recv.tag]
            if nm == "get_problem":
                return Sym("problem")
            return None

        it = Interp(prog, c, lambda *_: None, call_model, max_depth=4, max_traces=16)
        env = {"self": Sym("self"), src: list(inds), "tracker": Sym("tracker")}
        for p_ in init.params[2:]:
            env.setdefault(p_, 0)
        construct = f"{c.name}: every wrapped individual is handed to the tracker"
        try:
            runs = it.run(init, env)
        except Budget:
            ctx.ob("C14.R5", init, init.node, construct, None, "too many interpretations")
            continue
        bad = und = None
        for trace, rv, notes in runs:
            if any(e.kind == "raise" for e in trace):
                continue
            seen = [x.tag for e in trace if e.kind == "call" and e.name == "tracked" for x in e.args[0] if isinstance(x, Sym)]
            if any(not isinstance(x, Sym) for e in trace if e.kind == "call" and e.name == "tracked" for x in e.args[0]):
                und = "what is handed to the tracker is not followed"
            for t in ("ind1", "ind2"):
                if t not in seen and bad is None:
                    bad = (f"an individual that {'already carries a fitness' if fit[t] else 'has no fitness yet'} never reaches the tracker: "
                           f"offspring evaluated by a step through the raw evaluator are then invisible to the tracker, its best is not "
                           f"updated and a target-fitness budget (alone or inside AnyOf) is not seen as satisfied")
        ctx.ob("C14.R5", init, init.node, construct, False if bad else (None if und else True), bad or und or "")
    return n


def _budget_models(ctx: Ctx) -> int:
    from ..modelinterp import Budget, Effect, Interp, Obj, Sym, UNKNOWN, _NONE
    prog = ctx.prog
    n3 = 0
    for c in prog.subclasses(BUDGET):
        d = prog.lookup_method(c, "is_done")
        if d is None or d.cls is None or d.cls.fullname == BUDGET:
            continue
        init = prog.lookup_method(c, "__init__")
        # what is_done consults, through the helper methods / properties of this very class it goes through (a template method in a base class
        # is classified per concrete subclass)
        reach_ = [d]
        for x in ast.walk(d.node):
            if isinstance(x, (ast.Call, ast.Attribute)):
                a_ = x.func if isinstance(x, ast.Call) else x
                if isinstance(a_, ast.Attribute) and isinstance(a_.value, ast.Name) and a_.value.id == "self":
                    h_ = prog.lookup_method(c, a_.attr)
                    if h_ is not None and h_ not in reach_:
                        reach_.append(h_)
        calls = {call_name(x) for g in reach_ for x in ast.walk(g.node) if isinstance(x, ast.Call)}
        iparams = [p_ for p_ in (init.params[1:] if init else [])]

        def run_case(tracker_model: dict, self_env: dict):
            def call_model(it, call, env, args, kwargs):
                nm = call_name(call)
                recv = it.ev(call.func.value, env, 9) if isinstance(call.func, ast.Attribute) else None
                if isinstance(recv, Sym) and recv.tag == "tracker" and nm in tracker_model:
                    v = tracker_model[nm]
                    return _NONE if v is None else v
                if nm == "is_done" and isinstance(recv, Sym) and recv.tag.startswith("member"):
                    it.trace.append(Effect("call", "member.is_done", tuple(args), {}, node=call, recv=recv))
                    return tracker_model[recv.tag]
                if nm == "get_fitness" and isinstance(recv, Sym) and recv.tag == "best":
                    # Individual.get_fitness(problem): the fitness stored for that problem; without a problem (or None) the one
                    # stored for the FIRST problem the individual was ever evaluated for - here another, earlier problem
                    asked = args[0] if args else kwargs.get("problem", _NONE)
                    if asked == Sym("problem"):
                        return tracker_model["fitness"]
                    if asked is _NONE or asked is None:
                        return tracker_model.get("decoy", tracker_model["fitness"])
                    return UNKNOWN
                return None
            it = Interp(prog, c, lambda *_: None, call_model, max_depth=4, max_traces=8)
            env = {"self": Sym("self"), d.params[1]: Sym("tracker")}
            env.update({"self." + k: v for k, v in self_env.items()})
            try:
                runs = it.run(d, env)
            except Budget:
                return None, []
            vals = {rv for tr, rv, _ in runs if not any(e.kind == "raise" for e in tr)}
            traces = [tr for tr, rv, _ in runs]
            return (next(iter(vals)) if len(vals) == 1 else UNKNOWN), traces

        # which attribute does __init__ store its (single) parameter in?
        stored = {}
        if init is not None:
            for a in walk_local(init.node):
                if isinstance(a, ast.Assign) and is_self_attr(a.targets[0]):
                    stored[a.targets[0].attr] = a.value
        if "get_number_evaluations" in calls and len(stored) == 1:
            n3 += 1
            attr = next(iter(stored))
            bad = und = None
            for n_, want in ((9, False), (10, True), (11, True), (25, True)):
                rv, _ = run_case({"get_number_evaluations": n_}, {attr: 10})
                if rv is UNKNOWN or rv is None:
                    und = und or "result not followed"
                elif bool(rv) != want and bad is None:
                    bad = (f"with a limit of 10 and {n_} evaluations is_done is {rv}: " +
                           ("the search runs on although the budget is used up (a batch can jump over the limit: with '==' it never stops)" if want else
                            "the search stops before the budget is used"))
            ctx.ob("C14.R3", d, d.node, f"{c.name}.is_done == (evaluations >= limit)", False if bad else (None if und else True), bad or und or "")
        elif len(stored) == 2 and all(isinstance(v, ast.Name) for v in stored.values()) and "is_done" in calls:
            n3 += 1
            a_, b_ = list(stored)
            bad = und = None
            for va in (False, True):
                for vb in (False, True):
                    rv, traces = run_case({"member_a": va, "member_b": vb}, {a_: Sym("member_a"), b_: Sym("member_b")})
                    if rv is UNKNOWN or rv is None:
                        und = und or "result not followed"
                    elif bool(rv) != (va or vb) and bad is None:
                        bad = (f"with member budgets done = ({va}, {vb}) is_done is {rv}: " +
                               ("a conjunction stops only when both budgets are met" if (va or vb) else "it stops although neither budget is met"))
                    for tr in traces:
                        for e in tr:
                            if e.kind == "call" and e.name == "member.is_done" and not (e.args and e.args[0] == Sym("tracker")) and bad is None:
                                bad = "a member budget is consulted on something other than the tracker given to is_done"
            ctx.ob("C14.R3", d, d.node, f"{c.name}.is_done == a.is_done(tracker) or b.is_done(tracker)", False if bad else (None if und else True), bad or und or "")
        elif "get_best_individual" in calls and len(stored) == 1:
            n3 += 1
            attr = next(iter(stored))
            bad = und = None
            rv, _ = run_case({"get_best_individual": None, "get_problem": Sym("problem")}, {attr: 5.0})
            if rv is not False:
                if rv is UNKNOWN or rv is None:
                    und = "result not followed (no best individual)"
                else:
                    bad = f"while there is no best individual is_done is {rv}"
            ctx.ob("C14.R3", d, d.node, f"{c.name}.is_done is False while there is no best individual", False if bad else (None if und else True), bad or und or "")
            bad = und = None
            # the tolerance is absolute: the same small distance counts as reached for a target of 0, of 5 and of 1000
            for target, comp, agg, want in ((5.0, 5.0, -5.0, True), (5.0, 5.00005, -5.00005, True), (5.0, 6.0, -6.0, False), (5.0, -5.0, 5.0, False),
                                            (5.0, 4.0, 5.0, False), (0.0, 0.00003, -0.00003, True), (0.0, 0.5, -0.5, False),
                                            (1000.0, 1000.00003, -1000.00003, True), (1000.0, 1000.04, -1000.04, False)):
                fit = Obj("Fitness", {"maximizing_aggregate": agg, "fitness_components": [comp]})
                # the fitness the same individual holds for an earlier problem gives the opposite answer
                other = (target + 3.0) if want else target
                decoy = Obj("Fitness", {"maximizing_aggregate": -other, "fitness_components": [other]})
                rv, _ = run_case({"get_best_individual": Sym("best"), "get_problem": Sym("problem"), "fitness": fit, "decoy": decoy}, {attr: target})
                if rv is UNKNOWN or rv is None:
                    und = und or "result not followed"
                elif bool(rv) != want and bad is None:
                    bad = (f"target {target}, best individual with fitness component {comp} (maximising aggregate {agg}): is_done is {rv}, expected {want} - "
                           f"the target is compared with something other than the first fitness component the best individual holds for the tracker's problem, within the (absolute) tolerance")
            ctx.ob("C14.R3", d, d.node, f"{c.name} compares best.fitness_components[0] with the target within a tolerance", False if bad else (None if und else True),
                   bad or und or "")
        elif "get_elapsed_time" in calls and len(stored) == 1:
            n3 += 1
            attr = next(iter(stored))
            bad = und = None
            for t_, want in ((9.5, False), (10.0, True), (10.5, True), (60.0, True)):
                rv, _ = run_case({"get_elapsed_time": t_}, {attr: 10.0})
                if rv is UNKNOWN or rv is None:
                    und = und or "result not followed"
                elif bool(rv) != want and bad is None:
                    bad = f"with a time budget of 10 and {t_} elapsed is_done is {rv}"
            ctx.ob("C14.R3", d, d.node, f"{c.name}.is_done == (elapsed time >= limit)", False if bad else (None if und else True), bad or und or "")
        elif "get_best_individuals" in calls and len(stored) == 1:
            n3 += 1
            attr = next(iter(stored))
            # one target per objective, or one target for all objectives: whichever reading the class answers consistently
            readings = {"one target per objective": ([1.0, 2.0], (([1.0, 2.0], True), ([1.0, 2.0004], True), ([1.0, 2.5], False), ([1.5, 2.0], False))),
                        "one target for every objective": (2.0, (([2.0, 2.0], True), ([2.0, 2.0004], True), ([2.0, 3.0], False), ([3.0, 2.0], False)))}
            verdicts = {}
            for label, (target, cases) in readings.items():
                bad = und = None
                for comps, want in cases:
                    fit = Obj("Fitness", {"maximizing_aggregate": sum(comps), "fitness_components": list(comps)})
                    off = [x + 3.0 for x in comps] if want else ([target] * 2 if not isinstance(target, list) else list(target))
                    decoy = Obj("Fitness", {"maximizing_aggregate": sum(off), "fitness_components": off})
                    rv, traces = run_case({"get_best_individuals": [Sym("best")], "get_problem": Sym("problem"), "fitness": fit, "decoy": decoy}, {attr: target})
                    if rv is UNKNOWN or rv is None:
                        und = und or "result not followed"
                    elif bool(rv) != want and bad is None:
                        bad = (f"targets {target}, best individual with fitness components {comps} for the tracker's problem: is_done is {rv}, expected {want} - "
                               f"the targets are compared with something other than the components the best individual holds for the tracker's problem")
                verdicts[label] = (bad, und)
            announced = _reading_of(init)
            considered = {announced: verdicts[announced]} if announced else verdicts
            ok = [l for l, (b_, u_) in considered.items() if not b_ and not u_]
            title = f"{c.name} compares the fitness components the best individual holds for the tracker's problem with its targets"
            if ok:
                ctx.ob("C14.R3", d, d.node, title + f" ({ok[0]})", True, "")
            elif all(b_ and not u_ for b_, u_ in considered.values()):
                ctx.ob("C14.R3", d, d.node, title, False, next(iter(considered.values()))[0])
            else:
                ctx.ob("C14.R3", d, d.node, title, None, "; ".join(f"{l}: {b_ or u_}" for l, (b_, u_) in considered.items())[:300])
    return n3


def _builder_models(ctx: Ctx) -> int:
    """Functions outside the budget module that assemble a SearchBudget from their own parameters (geml's SimpleGP.build_budget) are
    interpreted: a parameter counts as a budget parameter when, set to 7, it turns up inside a budget object of the value returned
    (whatever the spelling: a constructor call, a table of classes folded with reduce, keyword arguments).  For every such
    parameter the function is interpreted again with 0, 0.0 and a negative number (target-like budgets) or 1 (the others): the budget
    returned must still contain a budget of that class built from that very value - `if target:` would drop a target of 0, and the
    search would run to its evaluation budget although the target was met."""
    from ..modelinterp import Budget, Interp, Obj, Sym, UNKNOWN, _NONE
    prog, res = ctx.prog, ctx.res
    bclasses = {c.name: c for c in prog.subclasses(BUDGET) if c.fullname != BUDGET}

    def call_model(it, c_, env, args, kwargs):
        nm = call_name(c_)
        if nm in bclasses and isinstance(c_.func, (ast.Name, ast.Attribute)):
            return Obj("budget:" + nm, {"args": list(args) + list(kwargs.values()), "kwargs": {}})
        return None

    def budgets_in(v, depth=0):
        if depth > 8:
            return
        if isinstance(v, Obj):
            if v.cls.startswith("budget:"):
                yield v
            for a in list(v.fields.get("args", [])) + list(v.fields.get("kwargs", {}).values()):
                yield from budgets_in(a, depth + 1)
        elif isinstance(v, (list, tuple)):
            for a in v:
                yield from budgets_in(a, depth + 1)

    def holds(v, cls, val) -> bool:
        return any(b.cls == "budget:" + cls and any(a == val and type(a) is type(val) for a in b.fields.get("args", [])) for b in budgets_in(v))

    def run_with(f, pname, val):
        env = {}
        others = iter((11, 13, 17, 19, 23, 29, 31))
        for q in f.params:
            env[q] = Sym("self") if q == "self" else (val if q == pname else next(others, 37))
        it = Interp(prog, f.cls, lambda *_: None, call_model, max_depth=6, max_traces=8)
        try:
            runs = it.run(f, env)
        except Budget:
            return None, "too many interpretations"
        out = []
        for trace, rv, notes in runs:
            if notes:
                return None, notes[0]
            if any(e.kind == "raise" for e in trace):
                return None, "the function raises in the model"
            if rv is UNKNOWN or rv is None:
                return None, "returned budget not followed"
            out.append(rv)
        return out, ""

    # candidates: functions outside the budget module that call a budget class, or that are named / annotated as budget builders
    cands = []
    for f in sorted(prog.functions.values(), key=lambda x: x.fullname):
        if f.parent is not None or (f.cls is not None and prog.is_subclass(f.cls, BUDGET)) or f.module.name.endswith("evaluation.budget") \
                or not isinstance(f.node, ast.FunctionDef) or len([q for q in f.params if q != "self"]) < 1:
            continue
        direct = sum(1 for c in walk_local(f.node) if isinstance(c, ast.Call) and call_name(c) in bclasses) >= 2
        ann = f.node.returns is not None and any(k in norm(f.node.returns) for k in list(bclasses) + ["SearchBudget"])
        named = "budget" in f.name.lower() and any(prog.resolve_name(f.module, k) for k in bclasses)
        if direct or ann or named:
            cands.append(f)
    n = 0
    for f in cands:
        for pname in [q for q in f.params if q != "self"]:
            outs, why = run_with(f, pname, 7)
            if outs is None:
                continue            # not followed with the control value: no claim about this parameter
            knames = {b.cls[7:] for rv in outs for b in budgets_in(rv) if any(a == 7 and type(a) is int for a in b.fields.get("args", []))}
            if len(knames) != 1:
                continue            # the parameter does not flow into (exactly one class of) budget
            kname = next(iter(knames))
            n += 1
            k = bclasses[kname]
            done = prog.lookup_method(k, "is_done")
            target_like = done is not None and any(isinstance(x, ast.Call) and call_name(x) in ("get_best_individual", "get_best_individuals") for x in ast.walk(done.node))
            bad = und = None
            for val in ((0, 0.0, -2.5) if target_like else (1,)):
                outs2, why2 = run_with(f, pname, val)
                if outs2 is None:
                    und = und or why2
                    continue
                for rv in outs2:
                    if not holds(rv, kname, val) and bad is None:
                        bad = (f"{f.qualname}({pname}={val!r}) returns a budget without {kname}({val!r}): "
                               + (f"a target of {val!r} is treated as 'no target' and the search runs on to its other budgets although the target is met"
                                  if target_like else "a budget the caller gave is dropped"))
            ctx.ob("C14.R6", f, f.node, f"{f.qualname}: the budget returned contains {kname}(<{pname}>) for every value given", False if bad else (None if und else True), bad or und or "")
            # the callers hand the parameter over unchanged ('x or None' would turn 0 into 'absent')
            for g in prog.functions.values():
                for c2 in res.calls_in(g, include_nested=False):
                    if call_name(c2) == f.name and isinstance(c2.func, ast.Attribute):
                        idx = f.params.index(pname) - (1 if f.params and f.params[0] == "self" else 0)
                        arg = c2.args[idx] if idx < len(c2.args) else next((kw.value for kw in c2.keywords if kw.arg == pname), None)
                        if isinstance(arg, ast.BoolOp) and isinstance(arg.op, ast.Or):
                            ctx.ob("C14.R6", g, c2, f"{pname} handed to {f.name} unchanged", False,
                                   f"'{norm(arg)}' replaces a {pname} of 0 by its fall-back before the budget is built")
    return n


def _reading_of(init) -> Optional[str]:
    """which of the two readings the constructor's annotation announces"""
    if init is None:
        return None
    args = init.node.args.args[1:]
    if len(args) != 1 or args[0].annotation is None:
        return None
    txt = norm(args[0].annotation)
    return "one target per objective" if any(k in txt for k in ("list", "List", "Sequence", "tuple")) else "one target for every objective"


def _in_nested_loop(x: ast.AST, loop: ast.AST) -> bool:
    from ..frontend import ancestors
    for a in ancestors(x):
        if a is loop:
            return False
        if isinstance(a, (ast.For, ast.While, ast.AsyncFor)) and isinstance(x, ast.Break):
            return True
        if isinstance(a, (ast.FunctionDef, ast.Lambda, ast.AsyncFunctionDef)):
            return True
    return False


def _fresh_individual(e: ast.AST, path) -> bool:
    if isinstance(e, ast.Call) and call_name(e) == "Individual":
        return True
    if isinstance(e, ast.Name):
        ds = [s for s in stmts_on(path) if isinstance(s, ast.Assign) and isinstance(s.targets[0], ast.Name)
              and s.targets[0].id == e.id]
        return bool(ds) and isinstance(ds[-1].value, ast.Call) and call_name(ds[-1].value) == "Individual"
    return False


def _comp_size(it: ast.AST, path) -> Optional[str]:
    """Size of a comprehension's iterable: range(self.<n>) or a local list built by a comprehension over one."""
    if isinstance(it, ast.Call) and call_name(it) == "range" and len(it.args) == 1 and is_self_attr(it.args[0]):
        return f"self.{it.args[0].attr}"
    if isinstance(it, ast.Name):
        ds = [s for s in stmts_on(path) if isinstance(s, ast.Assign) and isinstance(s.targets[0], ast.Name)
              and s.targets[0].id == it.id]
        if ds and isinstance(ds[-1].value, ast.ListComp) and not ds[-1].value.generators[0].ifs:
            return _comp_size(ds[-1].value.generators[0].iter, path)
    return None
