"""C02 - refinements hold on produced values; validators accept what generators emit (structural clauses)."""
from __future__ import annotations

import ast
from typing import Any, Optional

from ..absint import (B3, FAILS, HOLDS, UNPROVEN, Env, Facts, Lin, Member, Opaque, SeqV, Tup, assume, attr_path,
                      entails_ge0, evaluate, interp, prove_cmp, truth, Verdict)
from ..astutil import call_name, is_self_attr
from ..dispatch import dispatch_chains
from ..frontend import AnalysisError, FunctionInfo, ancestors, enclosing_stmt, is_stub, norm, parent, walk_local
from ..report import Ctx
from .c18 import Model
from .common import METAHANDLER

LEVEL_TEXT = (
    "Static rules: (R1) for every MetaHandlerGenerator subclass (found through the hierarchy) generate is abstractly "
    "interpreted (each random draw a fresh exact symbol in its range, choice -> a member of the option container, "
    "counted append loops and joins -> a sequence of symbolic length) and validate is abstractly evaluated on that "
    "value: every conjunct must hold for all parameter values, including min == max and the boundaries; a conjunct "
    "that is false at an attainable corner is reported with the corner; (R2) both creators route annotated fields "
    "through the refinement (an annotated branch that generates / validates and is not shadowed by an earlier test); "
    "(R3) the dict of sibling values handed to child creation is a fresh per-node dict that receives every field "
    "after it is built, in create_node and in mutate, and the annotated branch forwards it to generate; (R4) mutate "
    "regenerates a field whose refinement depends on an already mutated sibling. User-supplied Dependent callables "
    "and the SMT refinement have no decidable validator and are listed as skipped."
)

SKIP = {
    "geneticengine.grammar.metahandlers.dependent.Dependent": "validate is not implemented (raises NotImplementedError); the refinement is a user callable",
    "geneticengine.grammar.metahandlers.smt.SMT": "validity is delegated to an SMT solver at run time; no syntactic validator",
}
CREATE_NODE = "geneticengine.representations.tree.initializations:create_node"
MUTATE = "geneticengine.representations.tree.treebased:mutate"
STACK = "geneticengine.representations.stackgggp:create_tree_using_stacks"


class GenModel(Model):
    def __init__(self):
        super().__init__()
        self.assumed: list[str] = []

    def call(self, env: Env, c: ast.Call) -> Any:
        name = call_name(c)
        f = env.facts
        if name in ("choice", "choice_weighted") and c.args:
            a0 = c.args[0]
            while isinstance(a0, ast.Call) and call_name(a0) in ("list", "sorted", "tuple") and a0.args:
                a0 = a0.args[0]  # order / container kind do not change membership
            p = attr_path(a0) or norm(a0)
            if isinstance(a0, ast.Name) and isinstance(env.vars.get(a0.id), Lin) and len(env.vars[a0.id].coef) == 1 \
                    and env.vars[a0.id].const == 0:
                p = next(iter(env.vars[a0.id].coef))  # local alias of an attribute
            return Member(p)
        if name == "append" and isinstance(c.func, ast.Attribute) and isinstance(c.func.value, ast.Name) \
                and isinstance(env.vars.get(c.func.value.id), SeqV) and isinstance(env.vars[c.func.value.id].length, Lin):
            cur = env.vars[c.func.value.id]
            env.vars[c.func.value.id] = SeqV(cur.length + Lin.c(1), cur.elem, cur.kind)
            return Opaque("None")
        if name == "join" and len(c.args) == 1 and isinstance(c.args[0], (ast.GeneratorExp, ast.ListComp)):
            g = c.args[0].generators[0]
            if isinstance(g.iter, ast.Call) and call_name(g.iter) == "range" and len(g.iter.args) == 1 and not g.ifs:
                n = evaluate(env, g.iter.args[0])
                if isinstance(n, Lin):
                    return SeqV(n, evaluate(env, c.args[0].elt), "str")
            return Opaque("join over an unrecognised generator")
        if name == "GengyList" and len(c.args) == 2:
            return evaluate(env, c.args[1])
        if name in ("rec", "recurse") or (isinstance(c.func, ast.Name) and c.func.id in getattr(self, "rec_names", ())):
            return Opaque("recursively generated element")
        if name in ("is_generic_list", "isinstance"):
            return B3(None)
        if name == "get_generic_parameter":
            return Opaque("type")
        return super().call(env, c)

    def for_hook(self, env: Env, st: ast.For) -> bool:
        """counted append loop / accumulate-into-string loop"""
        f = env.facts
        it = st.iter
        n = None
        if isinstance(it, ast.Call) and call_name(it) == "range" and len(it.args) == 1:
            n = evaluate(env, it.args[0])
        else:
            p = attr_path(it)
            if p is not None:
                n = env.symbol(f"len({p})")
                f.add_ge(n, Lin.c(0))
        if not isinstance(n, Lin):
            return False
        if not entails_ge0(f, n):
            # a negative size makes range() empty; sizes below zero are outside the refinement's contract
            f.add_ge(n, Lin.c(0))
            self.assumed.append(f"loop count {n!r} >= 0 (size parameters are non-negative: user contract)")
        appends = [c for b in st.body for c in ast.walk(b) if isinstance(c, ast.Call) and call_name(c) == "append"
                   and isinstance(c.func, ast.Attribute) and isinstance(c.func.value, ast.Name)]
        augs = [a for a in st.body if isinstance(a, ast.AugAssign) and isinstance(a.target, ast.Name) and isinstance(a.op, ast.Add)]
        others = [b for b in st.body if not (isinstance(b, ast.Assign) or isinstance(b, ast.Assert)
                                             or (isinstance(b, ast.Expr) and isinstance(b.value, ast.Call) and b.value in appends)
                                             or b in augs)]
        if others or any(isinstance(x, (ast.Break, ast.Continue, ast.Return, ast.If)) for b in st.body for x in ast.walk(b)):
            return False
        if len(appends) == 1 and not augs:
            tgt = appends[0].func.value.id
            cur = env.vars.get(tgt)
            if isinstance(cur, SeqV) and isinstance(cur.length, Lin) and cur.length == Lin.c(0) and entails_ge0(f, n):
                sub = env.copy()
                for b in st.body:
                    if isinstance(b, ast.Assign) and isinstance(b.targets[0], ast.Name):
                        sub.vars[b.targets[0].id] = evaluate(sub, b.value)
                env.vars[tgt] = SeqV(n, evaluate(sub, appends[0].args[0]) if appends[0].args else Opaque("elem"), "list")
                return True
            return False
        if len(augs) == 1 and not appends:
            tgt = augs[0].target.id
            cur = env.vars.get(tgt)
            if isinstance(cur, SeqV) and cur.kind == "str" and isinstance(cur.length, Lin) and cur.length == Lin.c(0):
                env.vars[tgt] = SeqV(n, evaluate(env, augs[0].value), "str")
                return True
        return False


def conjuncts(e: ast.AST) -> list[ast.AST]:
    if isinstance(e, ast.BoolOp) and isinstance(e.op, ast.And):
        out = []
        for v in e.values:
            out += conjuncts(v)
        return out
    if isinstance(e, ast.Compare) and len(e.ops) > 1:
        out = []
        left = e.left
        for op, r in zip(e.ops, e.comparators):
            out.append(ast.copy_location(ast.Compare(left=left, ops=[op], comparators=[r]), e))
            left = r
        return out
    return [e]


def decide_conjunct(env: Env, c: ast.AST) -> Verdict:
    if isinstance(c, ast.Compare) and len(c.ops) == 1 and not isinstance(c.ops[0], (ast.In, ast.NotIn)):
        a, b = evaluate(env, c.left), evaluate(env, c.comparators[0])
        if isinstance(a, Lin) and isinstance(b, Lin):
            return prove_cmp(env.facts, a, c.ops[0], b)
    t = truth(env, c)
    if t.v is True:
        return Verdict(HOLDS)
    # membership of a value drawn from another container
    mem = c
    if isinstance(c, ast.Call) and call_name(c) == "all" and c.args and isinstance(c.args[0], (ast.GeneratorExp, ast.ListComp)):
        g = c.args[0].generators[0]
        seq = evaluate(env, g.iter)
        if isinstance(seq, SeqV) and isinstance(g.target, ast.Name):
            env = env.copy()
            env.vars[g.target.id] = seq.elem
            mem = c.args[0].elt
    if isinstance(mem, ast.Compare) and len(mem.ops) == 1 and isinstance(mem.ops[0], ast.In):
        left = evaluate(env, mem.left)
        cont = attr_path(mem.comparators[0])
        if isinstance(left, Member) and cont is not None and left.of != cont:
            return Verdict(FAILS, f"the value is drawn from '{left.of}' but validate tests membership in '{cont}': nothing "
                                  f"makes an element of the former a member of the latter")
    return Verdict(UNPROVEN, f"cannot establish '{norm(c)}' on the generated value")


def init_facts(ctx: Ctx, cls, env: Env) -> None:
    """asserts of __init__ (over parameters stored to same-named attributes) become facts over self.<attr>"""
    init = ctx.prog.lookup_method(cls, "__init__")
    if init is None:
        return
    amap = {}
    for a in walk_local(init.node):
        if isinstance(a, ast.Assign) and len(a.targets) == 1 and is_self_attr(a.targets[0]) and isinstance(a.value, ast.Name):
            amap[a.value.id] = f"self.{a.targets[0].attr}"
    sub = Env(env.facts)
    for p_, path in amap.items():
        sub.vars[p_] = env.symbol(path)
    for a in init.node.body:
        if isinstance(a, ast.Assert):
            assume(sub, a.test, True)


def rule_r1(ctx: Ctx) -> None:
    prog = ctx.prog
    classes = prog.subclasses(METAHANDLER)
    ctx.floor("C02.R1", len(classes), 10, "MetaHandlerGenerator subclasses")
    for cls in classes:
        if cls.fullname in SKIP:
            ctx.accept("C02.R1", cls.fullname, SKIP[cls.fullname])
            continue
        gen, val = cls.methods.get("generate"), cls.methods.get("validate")
        if gen is None or val is None or is_stub(gen.node) or is_stub(val.node):
            ctx.ob("C02.R1", gen or val, (gen or val).node if (gen or val) else None, f"{cls.name}: generate and validate present",
                   None, "generate/validate missing", module=cls.module.relpath)
            continue
        env = Env(Facts())
        init_facts(ctx, cls, env)
        model = GenModel()
        env.hooks.append(model.call)
        env.sub_hooks.append(model.sub)
        # locals that start as empty list / empty string literals are sequences of length 0
        outs = interp(_prep(gen.node.body), env, for_hook=model.for_hook)
        vparam = val.params[1]
        for o in outs:
            cond = "; ".join(o.conds) or "all draws"
            if o.kind == "raise":
                continue
            if o.kind != "return" or o.value is None:
                ctx.ob("C02.R1", gen, o.node or gen.node, f"{cls.name}.generate path [{cond}]", None,
                       f"path ends with {o.kind}: {norm(o.node)[:60] if o.node is not None else ''}")
                continue
            venv = o.env.copy()
            venv.vars[vparam] = o.value
            vouts = interp(val.node.body, venv)
            for vo in vouts:
                if vo.kind != "return" or not isinstance(vo.node, ast.Return) or vo.node.value is None:
                    ctx.ob("C02.R1", val, vo.node or val.node, f"{cls.name}.validate on generated value", None, f"validate path ends with {vo.kind}")
                    continue
                # re-evaluate conjunct by conjunct for a precise report
                expr = vo.node.value
                if isinstance(expr, ast.Name):
                    ds = [a for a in val.node.body if isinstance(a, ast.Assign) and isinstance(a.targets[0], ast.Name) and a.targets[0].id == expr.id]
                    expr = ds[-1].value if ds else expr
                for cj in conjuncts(expr):
                    vd = decide_conjunct(vo.env, cj)
                    desc = f"{cls.name}: validate conjunct '{norm(cj)}' holds on every generated value"
                    if vd.status == HOLDS:
                        ctx.ob("C02.R1", val, cj, desc, True, "")
                    elif vd.status == FAILS:
                        ctx.ob("C02.R1", val, cj, desc, False,
                               f"generate can produce a value that validate rejects: {vd.detail}", witness=vd.witness)
                    else:
                        ctx.ob("C02.R1", val, cj, desc, None, vd.detail)
        for a_ in model.assumed:
            note = f"{cls.name}: {a_}"
            if note not in ctx.assumptions:
                ctx.assumptions.append(note)
        for node, desc, vd in model.pre:
            # preconditions over constructor parameters only are the user's contract (IntRange(5, 3) is misuse);
            # those involving library-computed draws must hold
            involves_draw = "draw#" in desc or "fdraw#" in desc
            if vd.status == HOLDS:
                ctx.ob("C02.R1", gen, node, f"{cls.name}: {desc.split(' precondition')[0]} bounds ordered", True, "")
            elif involves_draw:
                ctx.ob("C02.R1", gen, node, f"{cls.name}: {desc.split(' precondition')[0]} bounds ordered",
                       False if vd.status == FAILS else None, vd.detail, witness=vd.witness)
            else:
                note = f"{cls.name}: {desc} is a precondition on the constructor parameters (assumed)"
                if note not in ctx.assumptions:
                    ctx.assumptions.append(note)


def _prep(body: list[ast.stmt]) -> list[ast.stmt]:
    return body


def rule_r2(ctx: Ctx) -> None:
    # ---- tree creator
    cn = ctx.fn(CREATE_NODE)
    chains = dispatch_chains(cn)
    if not chains:
        raise AnalysisError("C02.R2: create_node has no type-form dispatch chain")
    var, br = max(chains, key=lambda x: len(x[1]))
    idx = next((i for i, b in enumerate(br) if b.form == "annotated" and not b.negated), None)
    ok = idx is not None
    ctx.ob("C02.R2", cn, br[idx].test if ok else cn.node, "create_node has an annotated branch", ok,
           "" if ok else "annotated field types are not dispatched to their refinement")
    if ok:
        body = br[idx].body
        gens = [c for s_ in body for c in ast.walk(s_) if isinstance(c, ast.Call) and call_name(c) == "generate"]
        rets = [r for s_ in body for r in ast.walk(s_) if isinstance(r, ast.Return) and parent(r) in [None] or isinstance(r, ast.Return)]
        okg = len(gens) >= 1
        ctx.ob("C02.R2", cn, br[idx].test, "the annotated branch obtains the value from metahandler.generate", okg,
               "" if okg else "the annotated branch does not call the refinement's generate")
        # not shadowed: no earlier branch can be satisfied by an annotated type
        shadow = [b for b in br[:idx] if b.form in ("generic", "other") or b.form.startswith("member:")]
        ctx.ob("C02.R2", cn, br[idx].test, "no earlier test in the chain can capture an annotated type", not shadow,
               "" if not shadow else f"an earlier branch ('{norm(shadow[0].test)}') also matches annotated types: the refinement is bypassed")
        if gens:
            g = gens[0]
            # value returned is the generated one
            st = enclosing_stmt(g)
            vname = st.targets[0].id if isinstance(st, ast.Assign) and isinstance(st.targets[0], ast.Name) else None
            rets = [r for s_ in body for r in ast.walk(s_) if isinstance(r, ast.Return) and not any(
                isinstance(a, (ast.FunctionDef, ast.Lambda)) and a is not cn.node for a in ancestors(r))]
            okr = bool(rets) and all(vname is not None and vname in {n.id for n in ast.walk(r.value) if isinstance(n, ast.Name)} for r in rets)
            ctx.ob("C02.R2", cn, rets[0] if rets else g, "the annotated branch returns the generated value", okr,
                   "" if okr else "the value returned for an annotated field is not the one the refinement generated")
    # ---- stack creator
    stf = ctx.fn(STACK)
    loops = [l for l in walk_local(stf.node) if isinstance(l, ast.For) and isinstance(l.iter, ast.Call) and call_name(l.iter) == "get_arguments"]
    if len(loops) != 1:
        ctx.ob("C02.R2", stf, stf.node, "stack mapper: field loop", None, f"{len(loops)} loops over get_arguments")
        return
    l = loops[0]
    ifs = [s_ for s_ in l.body if isinstance(s_, ast.If)]
    from ..dispatch import chain, classify
    done = False
    for i_ in ifs:
        brs = chain(i_)
        forms = [b.form for b in brs]
        if "annotated" in forms:
            done = True
            ai = forms.index("annotated")
            validates = any(isinstance(c, ast.Call) and (call_name(c) == "validate" or call_name(c) == "find_element_that_meets_mh")
                            for s_ in brs[ai].body for c in ast.walk(s_))
            ctx.ob("C02.R2", stf, brs[ai].test, "stack mapper: refined fields take a value accepted by validate", validates,
                   "" if validates else "the refined branch does not consult the refinement")
            earlier = [b for b in brs[:ai] if b.form.startswith("member:") or b.form in ("generic", "other", "registered")]
            captured = None
            for b in earlier:
                if b.form.startswith("member:") and _keys_include_annotated(ctx, stf, b):
                    captured = b
            ctx.ob("C02.R2", stf, brs[ai].test, "stack mapper: the refined branch is reachable for annotated field types",
                   captured is None,
                   "" if captured is None else
                   f"'{norm(captured.test)}' is tested first and the stacks are keyed by every mentioned type *including annotated "
                   f"ones* (collect_types yields its argument before unwrapping): a refined field pops an unvalidated value from "
                   f"its own, never-filled stack or the refinement is never consulted (Annotated[int, IntRange(5, 9)] received 0)")
    if not done:
        ctx.ob("C02.R2", stf, l, "stack mapper: annotated field types are refined", False,
               "no branch of the stack mapper's field loop handles annotated types")


def _keys_include_annotated(ctx: Ctx, stf: FunctionInfo, b) -> bool:
    """Is the container tested by 'argt in <container>' keyed by types that include annotated ones?"""
    cont = b.test.comparators[0]
    if not isinstance(cont, ast.Name):
        return False
    defs = [a for a in walk_local(stf.node) if isinstance(a, (ast.Assign, ast.AnnAssign))
            and (a.targets[0] if isinstance(a, ast.Assign) else a.target).__class__ is ast.Name
            and (a.targets[0] if isinstance(a, ast.Assign) else a.target).id == cont.id]
    for d in defs:
        v = d.value
        if isinstance(v, ast.DictComp) and isinstance(v.generators[0].iter, ast.Name):
            src = v.generators[0].iter.id
            sd = [a for a in walk_local(stf.node) if isinstance(a, ast.Assign) and isinstance(a.targets[0], ast.Name) and a.targets[0].id == src]
            if sd and isinstance(sd[0].value, ast.Call) and call_name(sd[0].value) == "get_all_mentioned_symbols":
                ct = ctx.prog.functions.get("geneticengine.grammar.grammar:Grammar.collect_types")
                if ct is not None and ct.node.body:
                    first = ct.node.body[0]
                    if isinstance(first, ast.Expr) and isinstance(first.value, ast.Yield) and isinstance(first.value.value, ast.Name) \
                            and first.value.value.id == ct.params[1]:
                        return True
    return False


def field_loops(fn: FunctionInfo):
    """for-loops over get_arguments(...) (directly or zipped) inside fn"""
    out = []
    for l in walk_local(fn.node):
        if isinstance(l, ast.For) and any(isinstance(c, ast.Call) and call_name(c) == "get_arguments" for c in ast.walk(l.iter)):
            out.append(l)
    return out


def rule_r3_r4(ctx: Ctx) -> None:
    for fname, creator in ((CREATE_NODE, "create_node"), (MUTATE, "mutate")):
        fn = ctx.fn(fname)
        loops = field_loops(fn)
        if len(loops) != 1:
            ctx.ob("C02.R3", fn, fn.node, f"{fn.name}: field loop", None, f"{len(loops)} loops over get_arguments")
            continue
        l = loops[0]
        calls = [c for s_ in l.body for c in ast.walk(s_) if isinstance(c, ast.Call) and isinstance(c.func, ast.Name) and c.func.id == creator]
        if not calls:
            ctx.ob("C02.R3", fn, l, f"{fn.name}: child creation in the field loop", None, "no recursive creation call")
            continue
        for c in calls:
            g = ctx.res.resolve(fn, c)
            params = g.targets[0].params if g.targets else []
            dv = next((k.value for k in c.keywords if k.arg == "dependent_values"), None)
            if dv is None and "dependent_values" in params and len(c.args) > params.index("dependent_values"):
                dv = c.args[params.index("dependent_values")]
            okn = isinstance(dv, ast.Name)
            ctx.ob("C02.R3", fn, c, f"{fn.name}: children receive the dict of sibling values", okn,
                   "" if okn else "child creation is not given the sibling-value dict: dependent refinements see no siblings")
            if not okn:
                continue
            D = dv.id
            # fresh per-node dict: last assignment before the loop in the enclosing block is a dict literal
            blk = _block_containing(fn, l)
            defs = [a for a in blk[: blk.index(l)] if isinstance(a, ast.Assign) and any(isinstance(t, ast.Name) and t.id == D for t in a.targets)]
            fresh = bool(defs) and (isinstance(defs[-1].value, ast.Dict) and not defs[-1].value.keys
                                    or isinstance(defs[-1].value, ast.Call) and call_name(defs[-1].value) == "dict" and not defs[-1].value.args)
            ctx.ob("C02.R3", fn, defs[-1] if defs else l, f"{fn.name}: the sibling-value dict is a fresh dict of this node", fresh,
                   "" if fresh else f"'{D}' is {'bound to ' + norm(defs[-1].value)[:50] if defs else 'not created in this node'}: "
                                    f"sibling values leak between nodes (a nested node overwrites its parent's entries), so a "
                                    f"dependent refinement is evaluated against another node's field")
            # store after each field, on every path (top-level statement of the loop body)
            stores = [s_ for s_ in l.body if isinstance(s_, ast.Assign) and isinstance(s_.targets[0], ast.Subscript)
                      and isinstance(s_.targets[0].value, ast.Name) and s_.targets[0].value.id == D]
            oks = len(stores) == 1
            ctx.ob("C02.R3", fn, stores[0] if stores else l, f"{fn.name}: every built field is recorded for its later siblings", oks,
                   "" if oks else "the field value is not stored into the sibling dict on every path")
            if oks:
                # key = field name variable of the loop, value = the value appended to the constructor args
                st = stores[0]
                key = st.targets[0].slice
                tnames = {n.id for n in ast.walk(l.target) if isinstance(n, ast.Name)}
                okk = isinstance(key, ast.Name) and key.id in tnames
                apps = [c_ for s_ in l.body for c_ in ast.walk(s_) if isinstance(c_, ast.Call) and call_name(c_) == "append"]
                same = any(isinstance(a.args[0], ast.Name) and isinstance(st.value, ast.Name) and a.args[0].id == st.value.id for a in apps if a.args)
                ctx.ob("C02.R3", fn, st, f"{fn.name}: recorded under the field's name, the value actually used", okk and same,
                       "" if okk and same else "the recorded sibling value is not the one placed in the node")
    # annotated branch forwards the dict to generate
    cn = ctx.fn(CREATE_NODE)
    gens = [c for c in walk_local(cn.node) if isinstance(c, ast.Call) and call_name(c) == "generate"]
    for g in gens:
        last = g.args[-1] if g.args else None
        src_ok = False
        if isinstance(last, ast.Name):
            ds = [a for a in walk_local(cn.node) if isinstance(a, (ast.Assign, ast.AnnAssign))
                  and isinstance(a.targets[0] if isinstance(a, ast.Assign) else a.target, ast.Name)
                  and (a.targets[0] if isinstance(a, ast.Assign) else a.target).id == last.id]
            src_ok = last.id == "dependent_values" or any("dependent_values" in {n.id for n in ast.walk(d.value) if isinstance(n, ast.Name)} for d in ds if d.value is not None)
        ctx.ob("C02.R3", cn, g, "create_node forwards the sibling values to generate", src_ok,
               "" if src_ok else "generate does not receive the sibling values handed to create_node")

    # ---- R4
    mu = ctx.fn(MUTATE)
    loops = field_loops(mu)
    if len(loops) == 1:
        l = loops[0]
        dep = [c for s_ in l.body for c in ast.walk(s_) if isinstance(c, ast.Call) and call_name(c) == "get_dependencies"]
        flag_sets = [a for s_ in l.body for a in ast.walk(s_) if isinstance(a, ast.Assign) and isinstance(a.targets[0], ast.Name)
                     and isinstance(a.value, ast.Constant) and a.value.value is True]
        appends = [c for s_ in l.body for c in ast.walk(s_) if isinstance(c, ast.Call) and call_name(c) == "append"
                   and isinstance(c.func.value, ast.Name)]
        flag = flag_sets[0].targets[0].id if flag_sets else None
        # a True-assignment guarded by a membership test between already-mutated names and the dependencies
        guarded = False
        for a in flag_sets:
            from ..astutil import guards
            for t, pol in guards(a, stop=l):
                if isinstance(t, ast.Compare) and isinstance(t.ops[0], ast.In) and pol:
                    guarded = True
        mutated_list = None
        for c in appends:
            from ..astutil import guards
            if any(isinstance(t, ast.Name) and t.id == flag and pol for t, pol in guards(c, stop=l)):
                tn = {n.id for n in ast.walk(l.target) if isinstance(n, ast.Name)}
                if c.args and isinstance(c.args[0], ast.Name) and c.args[0].id in tn:
                    mutated_list = c.func.value.id
        ok = bool(dep) and guarded and mutated_list is not None
        ctx.ob("C02.R4", mu, dep[0] if dep else l, "mutate regenerates fields whose refinement depends on a mutated sibling", ok,
               "" if ok else "a field depending on a mutated sibling keeps its old value: the dependent refinement can be violated "
                             f"(dependencies consulted={bool(dep)}, flagged on membership={guarded}, mutated names recorded={mutated_list is not None})")
        # regeneration passes the accumulated dict (checked by R3 on the recursive call)
    else:
        ctx.ob("C02.R4", mu, mu.node, "mutate field loop", None, f"{len(loops)} loops")


def _block_containing(fn: FunctionInfo, node: ast.AST) -> list[ast.stmt]:
    p = parent(node)
    for fld in ("body", "orelse", "finalbody"):
        b = getattr(p, fld, None)
        if isinstance(b, list) and node in b:
            return b
    return fn.node.body


def run(ctx: Ctx) -> None:
    ctx.rule("C02.R1", "every value generate can produce is accepted by validate, for all parameters (abstract interpretation)")
    ctx.rule("C02.R2", "creators route annotated fields through the refinement; the branch is reachable")
    ctx.rule("C02.R3", "sibling values: fresh per-node dict, filled after every field, forwarded to children and to generate")
    ctx.rule("C02.R4", "mutate regenerates fields whose refinement depends on a mutated sibling")
    rule_r1(ctx)
    rule_r2(ctx)
    rule_r3_r4(ctx)
    # ---- R5: refinements are read from the class declarations on every use (documented: they may be re-declared
    # before a grammar is extracted), so the readers must not memoise
    from .c08 import process_state_rule
    ctx.rule("C02.R5", "declaration readers (grammar package) keep no cache: a re-declared refinement is seen by the next extraction")
    n5 = process_state_rule(ctx, "C02.R5", ("geneticengine.grammar",))
    ctx.ob("C02.R5", None, None, "grammar package scanned for memoisation / module-level state", True, f"{n5} candidate sites",
           module="geneticengine/grammar")
    ctx.assumptions += [
        "RandomSource.randint / random_float / choice honour their contracts (C18)",
        "constructor parameters of a refinement are ordered (min <= max): user contract",
    ]
