"""C02 - refinements hold on produced values; validators accept what generators emit (structural clauses)."""
from __future__ import annotations

import ast
from typing import Any, Optional

from ..absint import (B3, FAILS, HOLDS, UNPROVEN, Env, Facts, Lin, Member, Opaque, SeqV, Tup, assume, attr_path,
                      entails_ge0, evaluate, interp, prove_cmp, truth, Verdict)
from ..astutil import call_name, is_self_attr
from ..dispatch import dispatch_chains
from ..frontend import AnalysisError, FunctionInfo, ancestors, enclosing_stmt, is_stub, norm, parent, walk_local
from ..report import Ctx
from .c18 import Model
from .common import METAHANDLER

LEVEL_TEXT = (
    "Static rules: (R1) for every MetaHandlerGenerator subclass (found through the hierarchy, inherited methods "
    "included) generate is abstractly interpreted (each random draw a fresh exact symbol in its range, choice -> "
    "a member of the option container, counted append loops, comprehensions and joins -> a sequence of symbolic "
    "length) and validate is abstractly evaluated on that value: every conjunct (or, for guard-clause validators,"
    " the negation of every rejecting guard) must hold for all parameter values, including min == max and the "
    "boundaries; a conjunct that is false at an attainable corner is reported with the corner; (R2/R3/R4) finite-"
    "model interpretation of create_node and mutate (sa/treemodel.py: the source is interpreted on symbolic types"
    " of each form with the repository's own type-form predicates inlined over a model of the typing runtime, "
    "helper functions inlined, recursive creation calls recorded with snapshots of their dict arguments): an "
    "annotated field gets exactly the value its refinement's generate returns, generate receives the sibling "
    "values; the children of a production are created with a fresh dict holding exactly the earlier fields of "
    "that node under their names with the values placed in the node, and values pinned for a node "
    "(initial_values) are not handed on to the creation of its fields; mutate regenerates the selected field and "
    "every later field whose refinement depends on a regenerated sibling (9 scenarios x dependency shapes), "
    "passing the rebuilt siblings; the stack mapper is interpreted (sa/rules/stackmodel.py): a refined field must"
    " take a value its refinement validated (known finding: the plain stack shadows the refined branch); (R6) "
    "Dependent.generate is interpreted: the callable receives the sibling values named in the refinement, in the "
    "named order, and the resulting type goes to the creation callback. (R7) every refinement of a list type is "
    "interpreted with base type list[X] for X = a symbol, a list, a refined symbol and a union: each element is "
    "obtained by asking the creation callback for exactly X (one level unwrapped), and the returned list holds "
    "exactly the created elements in order; (R8) refinements are the metadata of Annotated types, which the "
    "typing runtime merges when the metadata compare equal: every refinement class either keeps identity "
    "comparison or its __eq__ / __hash__ read every parameter its constructor stores (a two-parameter refinement "
    "equal on its first parameter would silently replace one field's refinement by another's). User-supplied "
    "Dependent callables and the SMT refinement have no decidable validator and are listed as skipped."
)

SKIP = {
    "geneticengine.grammar.metahandlers.dependent.Dependent": "validate is not implemented (raises NotImplementedError); the refinement is a user callable",
    "geneticengine.grammar.metahandlers.smt.SMT": "validity is delegated to an SMT solver at run time; no syntactic validator",
}
CREATE_NODE = "geneticengine.representations.tree.initializations:create_node"
MUTATE = "geneticengine.representations.tree.treebased:mutate"
STACK = "geneticengine.representations.stackgggp:create_tree_using_stacks"


class GenModel(Model):
    def __init__(self):
        super().__init__()
        self.assumed: list[str] = []

    def call(self, env: Env, c: ast.Call) -> Any:
        name = call_name(c)
        f = env.facts
        if name in ("choice", "choice_weighted") and c.args:
            a0 = c.args[0]
            while isinstance(a0, ast.Call) and call_name(a0) in ("list", "sorted", "tuple") and a0.args:
                a0 = a0.args[0]  # order / container kind do not change membership
            p = attr_path(a0) or norm(a0)
            if isinstance(a0, ast.Name) and isinstance(env.vars.get(a0.id), Lin) and len(env.vars[a0.id].coef) == 1 \
                    and env.vars[a0.id].const == 0:
                p = next(iter(env.vars[a0.id].coef))  # local alias of an attribute
            return Member(p)
        if name == "append" and isinstance(c.func, ast.Attribute) and isinstance(c.func.value, ast.Name) \
                and isinstance(env.vars.get(c.func.value.id), SeqV) and isinstance(env.vars[c.func.value.id].length, Lin):
            cur = env.vars[c.func.value.id]
            env.vars[c.func.value.id] = SeqV(cur.length + Lin.c(1), cur.elem, cur.kind)
            return Opaque("None")
        if name == "join" and len(c.args) == 1 and isinstance(c.args[0], (ast.GeneratorExp, ast.ListComp)):
            g = c.args[0].generators[0]
            if isinstance(g.iter, ast.Call) and call_name(g.iter) == "range" and len(g.iter.args) == 1 and not g.ifs:
                n = evaluate(env, g.iter.args[0])
                if isinstance(n, Lin):
                    return SeqV(n, evaluate(env, c.args[0].elt), "str")
            return Opaque("join over an unrecognised generator")
        if name == "GengyList" and len(c.args) == 2:
            return evaluate(env, c.args[1])
        if name in ("rec", "recurse") or (isinstance(c.func, ast.Name) and c.func.id in getattr(self, "rec_names", ())):
            return Opaque("recursively generated element")
        if name in ("is_generic_list", "isinstance"):
            return B3(None)
        if name == "get_generic_parameter":
            return Opaque("type")
        return super().call(env, c)

    def for_hook(self, env: Env, st: ast.For) -> bool:
        """counted append loop / accumulate-into-string loop"""
        f = env.facts
        it = st.iter
        n = None
        if isinstance(it, ast.Call) and call_name(it) == "range" and len(it.args) == 1:
            n = evaluate(env, it.args[0])
        else:
            p = attr_path(it)
            if p is not None:
                n = env.symbol(f"len({p})")
                f.add_ge(n, Lin.c(0))
        if not isinstance(n, Lin):
            return False
        if not entails_ge0(f, n):
            # a negative size makes range() empty; sizes below zero are outside the refinement's contract
            f.add_ge(n, Lin.c(0))
            self.assumed.append(f"loop count {n!r} >= 0 (size parameters are non-negative: user contract)")
        appends = [c for b in st.body for c in ast.walk(b) if isinstance(c, ast.Call) and call_name(c) == "append"
                   and isinstance(c.func, ast.Attribute) and isinstance(c.func.value, ast.Name)]
        augs = [a for a in st.body if isinstance(a, ast.AugAssign) and isinstance(a.target, ast.Name) and isinstance(a.op, ast.Add)]
        others = [b for b in st.body if not (isinstance(b, ast.Assign) or isinstance(b, ast.Assert)
                                             or (isinstance(b, ast.Expr) and isinstance(b.value, ast.Call) and b.value in appends)
                                             or b in augs)]
        if others or any(isinstance(x, (ast.Break, ast.Continue, ast.Return, ast.If)) for b in st.body for x in ast.walk(b)):
            return False
        if len(appends) == 1 and not augs:
            tgt = appends[0].func.value.id
            cur = env.vars.get(tgt)
            if isinstance(cur, SeqV) and isinstance(cur.length, Lin) and cur.length == Lin.c(0) and entails_ge0(f, n):
                sub = env.copy()
                for b in st.body:
                    if isinstance(b, ast.Assign) and isinstance(b.targets[0], ast.Name):
                        sub.vars[b.targets[0].id] = evaluate(sub, b.value)
                env.vars[tgt] = SeqV(n, evaluate(sub, appends[0].args[0]) if appends[0].args else Opaque("elem"), "list")
                return True
            return False
        if len(augs) == 1 and not appends:
            tgt = augs[0].target.id
            cur = env.vars.get(tgt)
            if isinstance(cur, SeqV) and cur.kind == "str" and isinstance(cur.length, Lin) and cur.length == Lin.c(0):
                env.vars[tgt] = SeqV(n, evaluate(env, augs[0].value), "str")
                return True
        return False


def conjuncts(e: ast.AST) -> list[ast.AST]:
    if isinstance(e, ast.BoolOp) and isinstance(e.op, ast.And):
        out = []
        for v in e.values:
            out += conjuncts(v)
        return out
    if isinstance(e, ast.Compare) and len(e.ops) > 1:
        out = []
        left = e.left
        for op, r in zip(e.ops, e.comparators):
            out.append(ast.copy_location(ast.Compare(left=left, ops=[op], comparators=[r]), e))
            left = r
        return out
    return [e]


_FLIP = {ast.Lt: ast.GtE, ast.LtE: ast.Gt, ast.Gt: ast.LtE, ast.GtE: ast.Lt, ast.Eq: ast.NotEq, ast.NotEq: ast.Eq,
         ast.In: ast.NotIn, ast.NotIn: ast.In, ast.Is: ast.IsNot, ast.IsNot: ast.Is}


def negated_conjuncts(test: ast.AST, polarity: bool) -> list[ast.AST]:
    """conjuncts of (test if not polarity else not test): what must hold for the branch *not* to be taken"""
    want = not polarity   # we need `test == want`
    if isinstance(test, ast.UnaryOp) and isinstance(test.op, ast.Not):
        return negated_conjuncts(test.operand, not polarity)
    if want:
        return conjuncts(test)
    if isinstance(test, ast.BoolOp) and isinstance(test.op, ast.Or):
        out = []
        for v in test.values:
            out += negated_conjuncts(v, True)
        return out
    if isinstance(test, ast.Compare) and len(test.ops) == 1 and type(test.ops[0]) in _FLIP:
        return [ast.copy_location(ast.Compare(left=test.left, ops=[_FLIP[type(test.ops[0])]()], comparators=test.comparators), test)]
    return [ast.copy_location(ast.UnaryOp(op=ast.Not(), operand=test), test)]


def decide_conjunct(env: Env, c: ast.AST) -> Verdict:
    if isinstance(c, ast.Compare) and len(c.ops) == 1 and not isinstance(c.ops[0], (ast.In, ast.NotIn)):
        a, b = evaluate(env, c.left), evaluate(env, c.comparators[0])
        if isinstance(a, Lin) and isinstance(b, Lin):
            return prove_cmp(env.facts, a, c.ops[0], b)
    t = truth(env, c)
    if t.v is True:
        return Verdict(HOLDS)
    # membership of a value drawn from another container
    mem = c
    if isinstance(c, ast.Call) and call_name(c) == "all" and c.args and isinstance(c.args[0], (ast.GeneratorExp, ast.ListComp)):
        g = c.args[0].generators[0]
        seq = evaluate(env, g.iter)
        if isinstance(seq, SeqV) and isinstance(g.target, ast.Name):
            env = env.copy()
            env.vars[g.target.id] = seq.elem
            mem = c.args[0].elt
    if isinstance(mem, ast.Compare) and len(mem.ops) == 1 and isinstance(mem.ops[0], ast.In):
        left = evaluate(env, mem.left)
        cont = attr_path(mem.comparators[0])
        if isinstance(left, Member) and cont is not None and left.of != cont:
            return Verdict(FAILS, f"the value is drawn from '{left.of}' but validate tests membership in '{cont}': nothing "
                                  f"makes an element of the former a member of the latter")
    return Verdict(UNPROVEN, f"cannot establish '{norm(c)}' on the generated value")


def init_facts(ctx: Ctx, cls, env: Env) -> None:
    """asserts of __init__ (over parameters stored to same-named attributes) become facts over self.<attr>"""
    init = ctx.prog.lookup_method(cls, "__init__")
    if init is None:
        return
    amap = {}
    for a in walk_local(init.node):
        if isinstance(a, ast.Assign) and len(a.targets) == 1 and is_self_attr(a.targets[0]) and isinstance(a.value, ast.Name):
            amap[a.value.id] = f"self.{a.targets[0].attr}"
    sub = Env(env.facts)
    for p_, path in amap.items():
        sub.vars[p_] = env.symbol(path)
    for a in init.node.body:
        if isinstance(a, ast.Assert):
            assume(sub, a.test, True)


def rule_r1(ctx: Ctx) -> None:
    prog = ctx.prog
    classes = prog.subclasses(METAHANDLER)
    ctx.floor("C02.R1", len(classes), 10, "MetaHandlerGenerator subclasses")
    for cls in classes:
        if cls.fullname in SKIP:
            ctx.accept("C02.R1", cls.fullname, SKIP[cls.fullname])
            continue
        gen, val = prog.lookup_method(cls, "generate"), prog.lookup_method(cls, "validate")   # inherited ones count
        if (gen is None or val is None or is_stub(gen.node) or is_stub(val.node)) and prog.subclasses(cls.fullname) \
                and all((g_ := prog.lookup_method(k_, "generate")) is not None and not is_stub(g_.node) and (v_ := prog.lookup_method(k_, "validate")) is not None
                        and not is_stub(v_.node) for k_ in prog.subclasses(cls.fullname)):
            continue      # a shared base of refinements that leaves generate / validate to its subclasses: decided once per concrete subclass
        if gen is None or val is None or is_stub(gen.node) or is_stub(val.node):
            ctx.ob("C02.R1", gen or val, (gen or val).node if (gen or val) else None, f"{cls.name}: generate and validate present",
                   None, "generate/validate missing", module=cls.module.relpath)
            continue
        env = Env(Facts())
        init_facts(ctx, cls, env)
        model = GenModel()
        env.hooks.append(model.call)
        env.sub_hooks.append(model.sub)
        # helpers of the refinement (methods of its class hierarchy incl. super().generate(...), module-level functions) are inlined
        from ..inline import make_inline_hook
        ih_ = make_inline_hook(prog, cls, gen.module, skip=("randint", "random_float", "choice", "choice_weighted", "random_bool", "rec", "validate", "GengyList"))
        env.hooks.append(ih_)
        env.assume_hooks.append(ih_.assume)
        env.count_assumption = lambda n_, model=model: model.assumed.append(
            f"loop count {n_!r} >= 0 (size parameters are non-negative: user contract)")
        # locals that start as empty list / empty string literals are sequences of length 0
        outs = interp(_prep(gen.node.body), env, for_hook=model.for_hook)
        vparam = val.params[1]
        for o in outs:
            cond = "; ".join(o.conds) or "all draws"
            if o.kind == "raise":
                continue
            if o.kind != "return" or o.value is None:
                ctx.ob("C02.R1", gen, o.node or gen.node, f"{cls.name}.generate path [{cond}]", None,
                       f"path ends with {o.kind}: {norm(o.node)[:60] if o.node is not None else ''}")
                continue
            venv = o.env.copy()
            venv.vars[vparam] = o.value
            vouts = interp(val.node.body, venv)
            for vo in vouts:
                if vo.kind != "return" or not isinstance(vo.node, ast.Return) or vo.node.value is None:
                    ctx.ob("C02.R1", val, vo.node or val.node, f"{cls.name}.validate on generated value", None, f"validate path ends with {vo.kind}")
                    continue
                # re-evaluate conjunct by conjunct for a precise report
                expr = vo.node.value
                if isinstance(expr, ast.Constant) and expr.value is True:
                    continue
                if isinstance(expr, ast.Constant) and expr.value is False:
                    # a rejecting guard clause: it must be unreachable for generated values, i.e. the negation of the
                    # guard that leads here holds on every generated value (earlier guards are already assumed)
                    if not vo.guards:
                        ctx.ob("C02.R1", val, vo.node, f"{cls.name}: validate rejects unconditionally", False,
                               "validate returns False for every generated value")
                        continue
                    gtest, gpol, genv = vo.guards[-1]
                    for cj in negated_conjuncts(gtest, gpol):
                        vd = decide_conjunct(genv, cj)
                        desc = f"{cls.name}: validate conjunct '{norm(cj)}' holds on every generated value"
                        if vd.status == HOLDS:
                            ctx.ob("C02.R1", val, gtest, desc, True, "")
                        elif vd.status == FAILS:
                            ctx.ob("C02.R1", val, gtest, desc, False,
                                   f"generate can produce a value that validate rejects: {vd.detail}", witness=vd.witness)
                        else:
                            ctx.ob("C02.R1", val, gtest, desc, None, vd.detail)
                    continue
                if isinstance(expr, ast.Name):
                    ds = [a for a in val.node.body if isinstance(a, ast.Assign) and isinstance(a.targets[0], ast.Name) and a.targets[0].id == expr.id]
                    expr = ds[-1].value if ds else expr
                for cj in conjuncts(expr):
                    vd = decide_conjunct(vo.env, cj)
                    desc = f"{cls.name}: validate conjunct '{norm(cj)}' holds on every generated value"
                    if vd.status == HOLDS:
                        ctx.ob("C02.R1", val, cj, desc, True, "")
                    elif vd.status == FAILS:
                        ctx.ob("C02.R1", val, cj, desc, False,
                               f"generate can produce a value that validate rejects: {vd.detail}", witness=vd.witness)
                    else:
                        ctx.ob("C02.R1", val, cj, desc, None, vd.detail)
        for a_ in model.assumed:
            note = f"{cls.name}: {a_}"
            if note not in ctx.assumptions:
                ctx.assumptions.append(note)
        for node, desc, vd in model.pre:
            # preconditions over constructor parameters only are the user's contract (IntRange(5, 3) is misuse);
            # those involving library-computed draws must hold
            involves_draw = "draw#" in desc or "fdraw#" in desc
            if vd.status == HOLDS:
                ctx.ob("C02.R1", gen, node, f"{cls.name}: {desc.split(' precondition')[0]} bounds ordered", True, "")
            elif involves_draw:
                ctx.ob("C02.R1", gen, node, f"{cls.name}: {desc.split(' precondition')[0]} bounds ordered",
                       False if vd.status == FAILS else None, vd.detail, witness=vd.witness)
            else:
                note = f"{cls.name}: {desc} is a precondition on the constructor parameters (assumed)"
                if note not in ctx.assumptions:
                    ctx.assumptions.append(note)


def _prep(body: list[ast.stmt]) -> list[ast.stmt]:
    return body


def rule_r2(ctx: Ctx) -> None:
    """create_node is *interpreted* on Annotated[int, MH] and Annotated[list[A], MHL] (the repository's own type-form
    predicates inlined on a model of the typing runtime): on every path the value returned is what the refinement's
    generate returned, generate is called once on the refinement found in the type's metadata with the unwrapped base type,
    and it receives the sibling values handed to create_node (R3)."""
    from ..treemodel import ANN_INT, ANN_LIST, Budget, Sym, TreeModel, TypeV, UNKNOWN, create_node_runs
    cn = ctx.fn(CREATE_NODE)
    model = TreeModel(ctx)
    for sym in (ANN_INT, ANN_LIST):
        try:
            runs = create_node_runs(ctx, model, sym, dependent_values={"sib": Sym("sibval")})
        except Budget:
            ctx.ob("C02.R2", cn, cn.node, f"create_node({sym.name}) obtains the value from the refinement's generate", None,
                   "too many interpretations")
            continue
        ok_gen: Optional[bool] = True
        ok_ret: Optional[bool] = True
        ok_fwd: Optional[bool] = True
        why_gen = why_ret = why_fwd = ""
        live = 0
        for trace, rv, notes in runs:
            if any(e.kind == "raise" for e in trace):
                continue
            live += 1
            gens = [e for e in trace if e.kind == "call" and e.name == "generate"]
            if len(gens) != 1 or gens[0].recv != sym.meta:
                ok_gen = False
                why_gen = (f"for a field of type {sym.name} create_node calls the refinement's generate {len(gens)} time(s)"
                           if len(gens) != 1 else f"generate is called on {gens[0].recv!r}, not on the type's refinement")
                others = [e.name for e in trace if e.kind == "call"]
                why_gen += f" (calls on this path: {others[:4]}): the refinement is bypassed"
                continue
            g = gens[0]
            if len(g.args) >= 3 and g.args[2] != sym.args[0] and ok_gen:
                ok_gen, why_gen = False, f"generate receives base type {g.args[2]!r}, expected {sym.args[0]!r}"
            if rv is UNKNOWN:
                ok_ret = None if ok_ret else ok_ret
                why_ret = why_ret or "returned value not followed"
            elif not (isinstance(rv, Sym) and rv.tag == "generated"):
                ok_ret, why_ret = False, f"the value returned for an annotated field is {rv!r}, not the one the refinement generated"
            dv = g.args[4] if len(g.args) > 4 else g.kwargs.get("dependent_values", UNKNOWN)
            if dv != {"sib": Sym("sibval")}:
                ok_fwd, why_fwd = (False if isinstance(dv, dict) else None), \
                    f"generate receives {dv!r} instead of the sibling values handed to create_node ({{'sib': ...}})"
        if live == 0:
            ok_gen, why_gen = False, f"create_node raises for a field of type {sym.name}"
        ctx.ob("C02.R2", cn, cn.node, f"create_node({sym.name}): the refinement's generate is called once, with the unwrapped base type",
               ok_gen, why_gen, witness={"type": sym.name})
        if ok_gen:
            ctx.ob("C02.R2", cn, cn.node, f"create_node({sym.name}): returns the generated value", ok_ret, why_ret)
            ctx.ob("C02.R3", cn, cn.node, f"create_node({sym.name}): forwards the sibling values to generate", ok_fwd, why_fwd)
    # ---- stack creator (model, sa/rules/stackmodel.py): P(f: Annotated[int, MH]) with an int on the int stack must be built from
    # that int after the refinement's validate accepted it
    from ..modelinterp import TypeV
    from .stackmodel import INT as S_INT, kind_of, run_stack
    stf = ctx.fn(STACK)
    SP = TypeV("class", "P")
    S_ANN = TypeV("annotated", "Annotated[int, MH]", (S_INT,), Sym("MH"))
    try:
        runs = run_stack(ctx, SP, [S_INT, SP, SP], {SP: [("f", S_ANN)]}, {}, [S_INT, S_ANN, SP])
    except Budget:
        runs = None
    ok_s: Optional[bool] = None
    why_s = "too many interpretations"
    if runs is not None:
        ok_s, why_s = True, ""
        for trace, rv, notes in runs:
            b = [e for e in trace if e.kind == "call" and e.name == "apply_constructor" and e.args and e.args[0] == SP]
            vals = [e for e in trace if e.kind == "call" and e.name == "validate"]
            if not b:
                ok_s = False
                why_s = ("with an int on the int stack, P(f: Annotated[int, MH]) is never built: the refined field is looked up under its own "
                         "(never filled) stack key, so the branch that consults the refinement is dead and the field can only be served by "
                         "an unvalidated value pushed for the annotated type itself (Annotated[int, IntRange(5, 9)] received 0)")
            elif not (isinstance(b[-1].args[1], list) and len(b[-1].args[1]) == 1 and kind_of(b[-1].args[1][0]) == "int"
                      and any(v.args and v.args[0] == b[-1].args[1][0] for v in vals)):
                ok_s = False
                why_s = f"the refined field is filled with {b[-1].args[1]!r} without the refinement's validate having accepted that value"
            if ok_s is False:
                break
    ctx.ob("C02.R2", stf, stf.node, "stack mapper: a refined field takes a value of the base type that its refinement's validate accepted", ok_s, why_s)


def _keys_include_annotated(ctx: Ctx, stf: FunctionInfo, b) -> bool:
    """Is the container tested by 'argt in <container>' keyed by types that include annotated ones?"""
    cont = b.test.comparators[0]
    if not isinstance(cont, ast.Name):
        return False
    defs = [a for a in walk_local(stf.node) if isinstance(a, (ast.Assign, ast.AnnAssign))
            and (a.targets[0] if isinstance(a, ast.Assign) else a.target).__class__ is ast.Name
            and (a.targets[0] if isinstance(a, ast.Assign) else a.target).id == cont.id]
    if not defs and cont.id in stf.params:
        # the container is a parameter of a helper: look at the stack mapper that builds it (same name by convention)
        top = ctx.prog.functions.get(STACK)
        if top is not None and top is not stf:
            stf = top
            defs = [a for a in walk_local(stf.node) if isinstance(a, (ast.Assign, ast.AnnAssign))
                    and (a.targets[0] if isinstance(a, ast.Assign) else a.target).__class__ is ast.Name
                    and (a.targets[0] if isinstance(a, ast.Assign) else a.target).id == cont.id]
    for d in defs:
        v = d.value
        if isinstance(v, ast.DictComp) and isinstance(v.generators[0].iter, ast.Name):
            src = v.generators[0].iter.id
            sd = [a for a in walk_local(stf.node) if isinstance(a, ast.Assign) and isinstance(a.targets[0], ast.Name) and a.targets[0].id == src]
            if sd and isinstance(sd[0].value, ast.Call) and call_name(sd[0].value) == "get_all_mentioned_symbols":
                ct = ctx.prog.functions.get("geneticengine.grammar.grammar:Grammar.collect_types")
                if ct is not None and ct.node.body:
                    first = ct.node.body[0]
                    if isinstance(first, ast.Expr) and isinstance(first.value, ast.Yield) and isinstance(first.value.value, ast.Name) \
                            and first.value.value.id == ct.params[1]:
                        return True
    return False


def _dict_ok(d: Any, want: dict) -> Optional[bool]:
    if not isinstance(d, dict):
        return None
    return d == want


def rule_r3_r4(ctx: Ctx) -> None:
    """create_node is interpreted on a production P(f1: A, f2: Annotated[int, MH]) and mutate on a node with three fields whose
    refinements depend on the previous field.  Required: children are created with a dict that holds exactly the earlier
    fields of *this* node (not the dict handed in, not the context's), under the field names, with the values actually
    placed in the node; mutate regenerates the selected field and every later field whose refinement depends on a
    regenerated sibling, passing the rebuilt sibling values."""
    from ..treemodel import A, ANN_INT, Budget, MUTATE as MU, Obj, PROD, Sym, TreeModel, TypeV, UNKNOWN, create_node_runs
    cn = ctx.fn(CREATE_NODE)
    model = TreeModel(ctx, fields={PROD: [("f1", A), ("f2", ANN_INT)]})
    for label, init, want2 in (("fresh", None, {"f1": Sym("node:A")}), ("with an initial value", {"f1": Sym("given")}, {"f1": Sym("given")})):
        try:
            runs = create_node_runs(ctx, model, PROD, dependent_values={"sib": Sym("sibval")}, initial_values=init)
        except Budget:
            ctx.ob("C02.R3", cn, cn.node, f"create_node(P) [{label}]: sibling values", None, "too many interpretations")
            continue
        v_pass: Optional[bool] = True
        v_fresh: Optional[bool] = True
        v_rec: Optional[bool] = True
        v_init: Optional[bool] = True
        w_pass = w_fresh = w_rec = w_init = ""
        live = 0
        for trace, rv, notes in runs:
            if any(e.kind == "raise" for e in trace):
                continue
            live += 1
            calls = [e for e in trace if e.kind == "call" and e.name == "create_node"]
            by_ty = {e.kwargs.get("starting_symbol"): e for e in calls}
            c2 = by_ty.get(ANN_INT)
            c1 = by_ty.get(A)
            if c2 is None or (init is None and c1 is None):
                v_pass, w_pass = None, "the fields of the production are not created through create_node"
                continue
            ac = [e for e in trace if e.kind == "call" and e.name == "apply_constructor"]
            placed = ac[0].args[1] if len(ac) == 1 and isinstance(ac[0].args[1], list) and len(ac[0].args[1]) == 2 else None
            if placed is None:
                v_rec = None if v_rec else v_rec
                w_rec = w_rec or "the constructor arguments are not followed"
                continue
            ok_first = placed[0] == Sym("node:A") if init is None else placed[0] in (Sym("given"), Sym("gengylist"))
            if not ok_first or placed[1] != Sym("node:" + ANN_INT.name):
                v_rec, w_rec = False, f"the constructor receives {placed!r}: not the values created for / given to the fields in order"
                continue
            for c_, want in ((c1, {}), (c2, {"f1": placed[0]})):
                if c_ is None:
                    continue
                iv = c_.kwargs.get("initial_values", None)
                if isinstance(iv, dict) and iv:
                    v_init = False
                    w_init = (f"the values pinned for this node ({iv!r}) are handed on to the creation of its field '{'f2' if c_ is c2 else 'f1'}': a descendant with "
                              f"a field of the same name receives the pinned value instead of one drawn from its own refinement")
                elif iv is UNKNOWN and v_init is True:
                    v_init, w_init = None, "the initial values handed to a field's creation are not followed"
                dv = c_.kwargs.get("dependent_values", None)
                if not isinstance(dv, dict):
                    v_pass = False if dv is None else None
                    w_pass = ("child creation is not given the sibling-value dict: dependent refinements see no siblings"
                              if dv is None else f"sibling dict not followed ({dv!r})")
                    continue
                if "sib" in dv or "ctxdep" in dv:
                    v_fresh = False
                    w_fresh = (f"the dict handed to the children of this node is {dv!r}: it is not a fresh dict of this node "
                               f"(sibling values leak between nodes, a nested node overwrites its parent's entries)")
                    continue
                if dv != want:
                    v_rec = False
                    w_rec = (f"when field '{'f2' if c_ is c2 else 'f1'}' is created the sibling dict is {dv!r}, expected {want!r}: "
                             f"the earlier fields are not recorded under their names with the values placed in the node")
        if live == 0:
            v_pass, w_pass = None, "create_node raises on a plain production in the model"
        ctx.ob("C02.R3", cn, cn.node, f"create_node(P) [{label}]: children receive the dict of sibling values", v_pass, w_pass)
        ctx.ob("C02.R3", cn, cn.node, f"create_node(P) [{label}]: the sibling-value dict is a fresh dict of this node", v_fresh, w_fresh)
        ctx.ob("C02.R3", cn, cn.node, f"create_node(P) [{label}]: every built field is recorded under its name for its later siblings", v_rec, w_rec)
        if init is not None:
            ctx.ob("C02.R3", cn, cn.node, f"create_node(P) [{label}]: values pinned for a node are not handed on to the creation of its fields", v_init, w_init)

    # ---- mutate
    mu = ctx.fn(MUTATE)
    T1, T2, T3 = TypeV("class", "T1"), TypeV("annotated", "Annotated[int, M2]", (TypeV("builtin", "int"),), Sym("M2")), \
        TypeV("annotated", "Annotated[int, M3]", (TypeV("builtin", "int"),), Sym("M3"))
    NODE = TypeV("class", "N")
    v_sel: Optional[bool] = True
    v_dep: Optional[bool] = True
    v_dict: Optional[bool] = True
    w_sel = w_dep = w_dict = ""
    nscen = 0
    for deps, label in (({"M2": ["f1"], "M3": ["f2"]}, "chain f3<-f2<-f1"), ({"M3": ["f1"]}, "f3<-f1"), ({}, "no dependencies")):
        for k in (1, 2, 3):
            m2 = TreeModel(ctx, fields={NODE: [("f1", T1), ("f2", T2), ("f3", T3)]}, deps=deps,
                           ints={"mutate:random_int": k},
                           hasattrs={"node": {}, "__typeof__": {"node": NODE}})
            it = m2.interp()
            node = Sym("node")
            p = mu.params
            env = {p[0]: Obj("GlobalSynthesisContext", {"random": Sym("random"), "grammar": Sym("grammar"), "decider": Sym("decider")}),
                   p[1]: node, p[2]: NODE, "node.gengy_init_values": [Sym("v1"), Sym("v2"), Sym("v3")],
                   "node.gengy_synthesis_context": Obj("LocalSynthesisContext", {"depth": 1, "nodes": 1, "expansions": 1,
                                                                              "dependent_values": {"ctxdep": Sym("x")}}),
                   "node.gengy_weighted_nodes": 3}
            if len(p) > 3:
                env[p[3]] = {"sib": Sym("sibval")}
            env[p[1]] = node
            # attribute paths on the node parameter are read through its local name
            env = {(k_.replace("node.", p[1] + ".", 1) if k_.startswith("node.") else k_): v for k_, v in env.items()}
            try:
                runs = it.run(mu, env)
            except Budget:
                v_sel, w_sel = None, "too many interpretations of mutate"
                continue
            # expected regeneration set
            regen = {f"f{k}"}
            for fname, mh in (("f2", "M2"), ("f3", "M3")):
                if fname not in regen and any(d in regen for d in deps.get(mh, [])):
                    regen.add(fname)
            for trace, rv, notes in runs:
                if any(e.kind == "raise" for e in trace):
                    continue
                built = [e for e in trace if e.kind == "call" and e.name in ("apply_constructor", "GengyList")]
                if len(built) != 1 or not isinstance(built[0].args[1], list) or len(built[0].args[1]) != 3:
                    v_sel = None if v_sel else v_sel
                    w_sel = w_sel or "the rebuilt node's arguments are not followed"
                    continue
                nscen += 1
                nargs = built[0].args[1]
                got = {f"f{i + 1}" for i, a in enumerate(nargs) if not (isinstance(a, Sym) and a.tag == f"v{i + 1}")}
                if f"f{k}" not in got:
                    v_sel, w_sel = False, f"the field holding the selected node (f{k}) keeps its old value"
                missing = regen - got
                if missing - {f"f{k}"}:
                    v_dep = False
                    w_dep = (f"with dependencies [{label}] and f{k} regenerated, field(s) {sorted(missing)} keep their old value: "
                             f"a field depending on a mutated sibling is not regenerated, the dependent refinement can be violated")
                # the regenerated fields see the rebuilt earlier siblings
                for e in [e for e in trace if e.kind == "call" and e.name == "mutate"]:
                    dv = e.kwargs.get("dependent_values")
                    arg = e.kwargs.get("i")
                    idx = int(arg.tag[1:]) if isinstance(arg, Sym) and arg.tag[:1] == "v" and arg.tag[1:].isdigit() else None
                    if idx is None:
                        continue
                    if not isinstance(dv, dict):
                        v_dict = False if dv is None else None
                        w_dict = ("the recursive mutate call is not given the sibling-value dict" if dv is None else f"sibling dict not followed ({dv!r})")
                        continue
                    want = {f"f{j + 1}": nargs[j] for j in range(idx - 1)}
                    if "sib" in dv or "ctxdep" in dv:
                        v_dict, w_dict = False, f"mutate hands its children {dv!r}: not a fresh dict of this node"
                    elif dv != want:
                        v_dict, w_dict = False, f"when f{idx} is regenerated the sibling dict is {dv!r}, expected {want!r}"
    ctx.ob("C02.R4", mu, mu.node, "mutate regenerates the field that holds the selected node", v_sel, w_sel, witness={"scenarios": nscen})
    ctx.ob("C02.R4", mu, mu.node, "mutate regenerates fields whose refinement depends on a mutated sibling", v_dep, w_dep)
    ctx.ob("C02.R3", mu, mu.node, "mutate: regenerated fields receive the rebuilt values of their earlier siblings (fresh per-node dict)", v_dict, w_dict)
    ctx.floor("C02.R4", nscen, 9, "interpreted mutate scenarios")


def rule_r6(ctx: Ctx) -> None:
    """Dependent refinements: generate is interpreted with sibling values {a, b, c} and a refinement that names 'b,a' (and
    'c'): the user's callable receives exactly the named siblings, positionally in the order the refinement names them, and
    the value returned is the one generated for Annotated[base type, <what the callable returned>]."""
    from ..modelinterp import Budget, Effect, Interp, Sym, UNKNOWN
    prog = ctx.prog
    dep = prog.classes.get("geneticengine.grammar.metahandlers.dependent.Dependent")
    if dep is None:
        raise AnalysisError("C02.R6: Dependent refinement class missing")
    gen = prog.lookup_method(dep, "generate")
    bad = und = None
    n = 0
    for name, want in (("b,a", ["vb", "va"]), ("c", ["vc"]), ("a,c", ["va", "vc"])):
        it = Interp(prog, dep, lambda *_: None, None, max_depth=4, max_traces=16)
        it.sym_result = lambda fv, a: Sym(fv.tag + "()")
        p = gen.params
        env = {"self": Sym("self"), "self.name": name, "self.callable": Sym("CALLABLE"), p[1]: Sym("random"), p[2]: Sym("grammar"),
               p[3]: Sym("base"), p[4]: Sym("REC"), p[5]: {"a": Sym("va"), "b": Sym("vb"), "c": Sym("vc")}}
        try:
            runs = it.run(gen, env)
        except Budget:
            und = "too many interpretations"
            continue
        for trace, rv, notes in runs:
            if any(e.kind == "raise" for e in trace):
                bad = bad or f"Dependent('{name}', f).generate fails ({[e.name for e in trace if e.kind == 'raise'][0]}) although all named siblings are available"
                continue
            n += 1
            calls = [e for e in trace if e.kind == "callsym" and e.name == "CALLABLE"]
            if len(calls) != 1:
                und = und or f"the refinement's callable is called {len(calls)} times in the model"
                continue
            got = [a.tag if isinstance(a, Sym) else "?" for a in calls[0].args]
            if "?" in got:
                und = und or "arguments of the callable not followed"
            elif got != want:
                bad = bad or (f"Dependent('{name}', f) calls f({', '.join(got)}) with siblings a=va, b=vb, c=vc; expected f({', '.join(want)}): "
                              f"the refinement is built from the wrong sibling values")
            recs = [e for e in trace if e.kind == "callsym" and e.name == "REC"]
            if len(recs) != 1 or not (isinstance(rv, Sym) and rv.tag == "REC()"):
                und = und or "the generated value is not followed"
    ctx.ob("C02.R6", gen, gen.node, "Dependent.generate hands the callable the named siblings in the named order and returns the value generated for the resulting type",
           False if bad else (None if und else True), bad or und or "", witness={"scenarios": n})
    ctx.floor("C02.R6", n, 3, "interpreted Dependent.generate scenarios")


def _block_containing(fn: FunctionInfo, node: ast.AST) -> list[ast.stmt]:
    p = parent(node)
    for fld in ("body", "orelse", "finalbody"):
        b = getattr(p, fld, None)
        if isinstance(b, list) and node in b:
            return b
    return fn.node.body


def list_refinement_rule(ctx: Ctx, rid: str) -> int:
    """Every refinement of a list type (a MetaHandlerGenerator whose generate accepts a generic list as base type) is
    interpreted with the base type list[X] for X = a symbol, a list, a refined symbol and a union: each element is obtained by
    asking the creation callback for exactly X - the element type, unwrapped by one level only - so nested lists stay lists
    and refined elements keep their refinement; what is returned holds exactly the created elements, in order."""
    from ..modelinterp import Budget, Effect, Interp, LocalFn, Obj, Sym, TypeV, UNKNOWN, _NONE
    from ..treemodel import A, B, MH
    prog = ctx.prog
    lst = lambda t: TypeV("list", f"list[{t.name}]", (t,))                                   # noqa: E731
    elems = [A, lst(A), TypeV("annotated", "Annotated[A, MH]", (A,), MH), TypeV("union", "Union[A, B]", (A, B))]
    n = 0
    for c in sorted(prog.subclasses(METAHANDLER), key=lambda x: x.fullname):
        gen = prog.lookup_method(c, "generate")
        if gen is None or gen.cls is None or gen.cls.fullname == METAHANDLER or len(gen.params) < 5:
            continue
        # a list refinement: its generate mentions the list-type predicate (directly or in a helper it calls)
        def mentions_list(f, depth=0):
            for x in walk_local(f.node):
                if isinstance(x, ast.Call) and call_name(x) == "is_generic_list":
                    return True
                if depth < 2 and isinstance(x, ast.Call) and isinstance(x.func, ast.Name):
                    full = prog.resolve_name(f.module, x.func.id)
                    g_ = prog.functions.get(full) if full else None
                    if g_ is not None and g_.cls is None and mentions_list(g_, depth + 1):
                        return True
                if depth < 2 and isinstance(x, ast.Call) and isinstance(x.func, ast.Attribute) and isinstance(x.func.value, ast.Name) and x.func.value.id == "self":
                    g_ = prog.lookup_method(c, x.func.attr)
                    if g_ is not None and g_ is not f and mentions_list(g_, depth + 1):
                        return True
            return False
        if not mentions_list(gen):
            continue
        for X in elems:
            n += 1
            asked: list = []

            def call_model(it, call, env, args, kwargs, asked=asked):
                nm = call_name(call)
                if nm == "randint" and isinstance(call.func, ast.Attribute):
                    return 2
                if nm == "rec" and isinstance(call.func, ast.Name) and "rec" not in env:
                    return None
                if nm == "GengyList" and len(args) == 2:
                    return Obj("GengyList", {"typ": args[0], "items": args[1]})
                return None

            def sym_result(fv, args, asked=asked):
                if fv.tag == "rec":
                    asked.append(args[0] if args else UNKNOWN)
                    return Sym(f"elem{len(asked)}")
                return Sym(f"{fv.tag}()")

            it = Interp(prog, c, lambda *_: None, call_model, max_depth=8, max_traces=8)
            it.sym_result = sym_result
            it.allow_recursion = True
            ps = gen.params
            env = {"self": Sym("self"), "self.min": 2, "self.max": 2, ps[1]: Sym("random"), ps[2]: Sym("grammar"), ps[3]: lst(X),
                   ps[4]: Sym("rec")}
            for p_ in ps[5:]:
                env[p_] = {}
            construct = f"{c.name}.generate on list[{X.name}]: every element is created as a value of the element type {X.name}"
            try:
                runs = it.run(gen, env)
            except Budget:
                ctx.ob(rid, gen, gen.node, construct, None, "too many interpretations")
                continue
            verdict, why = True, ""
            done = [r for r in runs if not any(e.kind == "raise" for e in r[0])]
            if not done:
                verdict, why = None, "no interpretation of generate completes on this list type"
            for trace, rv, notes in done:
                calls = [e.args[0] if e.args else UNKNOWN for e in trace if e.kind == "callsym" and e.name == "rec"]
                if notes:
                    verdict, why = None, notes[0]
                    break
                if not calls:
                    verdict, why = None, "the creation callback is not called in the model"
                    break
                wrong = [t for t in calls if t != X]
                if any(not isinstance(t, TypeV) for t in wrong):
                    verdict, why = None, "the type handed to the creation callback is not followed"
                    break
                if wrong:
                    verdict = False
                    why = (f"the elements of a list[{X.name}] are created as values of type {getattr(wrong[0], 'name', wrong[0])!s}: "
                           + ("the inner list level is lost (a flat list of its elements is produced)" if X.kind == "list" else
                              "the element's own refinement is dropped, so elements outside it are produced" if X.kind == "annotated" else
                              "the element type is not the one declared"))
                    break
            ctx.ob(rid, gen, gen.node, construct, verdict, why, witness={"element_type": X.name})
    return n


def rule_r8(ctx: Ctx) -> None:
    """Refinements are the metadata of Annotated[...] types, and the typing runtime merges Annotated types whose arguments are
    equal (and hash alike).  Two refinements that differ in a parameter must therefore not compare equal: either refinements keep
    identity semantics, or their __eq__ / __hash__ take every parameter stored by the constructor into account."""
    prog = ctx.prog
    n = 0
    for c in sorted(prog.subclasses(METAHANDLER), key=lambda x: x.fullname):
        if c.fullname == METAHANDLER:
            continue
        init = prog.lookup_method(c, "__init__")
        stored = set()
        if init is not None:
            stored = {a.targets[0].attr for a in walk_local(init.node) if isinstance(a, ast.Assign) and isinstance(a.targets[0], ast.Attribute)
                      and isinstance(a.targets[0].value, ast.Name) and a.targets[0].value.id == "self"}
        n += 1
        construct = f"{c.name}: refinements that differ in a constructor parameter are different Annotated metadata"
        eq = prog.lookup_method(c, "__eq__")
        hs = prog.lookup_method(c, "__hash__")
        if eq is None and hs is None:
            ctx.ob("C02.R8", None, None, construct, True, "identity semantics (no __eq__ / __hash__ in the hierarchy)", module=c.module.relpath)
            continue
        verdict: Optional[bool] = True
        why = ""
        for m in [x for x in (eq, hs) if x is not None]:
            texts = [norm(x) for x in ast.walk(m.node)]
            via_text = any(isinstance(x, ast.Call) and call_name(x) in ("repr", "str") for x in ast.walk(m.node)) \
                or any(isinstance(x, ast.Attribute) and x.attr in ("__repr__", "__str__") for x in ast.walk(m.node))
            via_dict = any(isinstance(x, ast.Attribute) and x.attr == "__dict__" for x in ast.walk(m.node)) \
                or any(isinstance(x, ast.Call) and call_name(x) == "vars" for x in ast.walk(m.node))
            if via_dict:
                continue
            if via_text:
                rp = prog.lookup_method(c, "__repr__") or prog.lookup_method(c, "__str__")
                shown = set()
                if rp is not None:
                    shown = {x.attr for x in ast.walk(rp.node) if isinstance(x, ast.Attribute) and isinstance(x.value, ast.Name) and x.value.id == "self"}
                    if any(isinstance(x, ast.Attribute) and x.attr == "__dict__" for x in ast.walk(rp.node)):
                        shown |= stored
                missing = sorted(stored - shown)
                if missing:
                    verdict = False
                    why = (f"{m.qualname} compares refinements by their printed form, and {c.name}'s printed form leaves out {missing}: two "
                           f"{c.name} refinements that differ only there are equal, the typing runtime hands back the first Annotated type for the "
                           f"second field, and that field is generated and validated against the wrong refinement")
                    break
                continue
            used = {x.attr for x in ast.walk(m.node) if isinstance(x, ast.Attribute) and isinstance(x.value, ast.Name) and x.value.id in ("self", "other")}
            missing = sorted(stored - used)
            if missing and m is eq:
                verdict = False
                why = f"{m.qualname} ignores {missing}: refinements that differ only there are equal and are merged by the typing runtime"
                break
            if missing:
                verdict, why = (None if verdict is True else verdict), f"{m.qualname} is not followed"
        ctx.ob("C02.R8", eq or hs, (eq or hs).node, construct, verdict, why)
    ctx.floor("C02.R8", n, 8, "refinement classes")


def run(ctx: Ctx) -> None:
    ctx.rule("C02.R8", "refinements differing in a parameter never compare equal (Annotated types are merged on equal metadata)")
    rule_r8(ctx)
    ctx.rule("C02.R7", "list refinements create every element through the callback as a value of the declared element type (one level unwrapped)")
    ctx.floor("C02.R7", list_refinement_rule(ctx, "C02.R7"), 8, "list refinement x element type")
    ctx.rule("C02.R1", "every value generate can produce is accepted by validate, for all parameters (abstract interpretation)")
    ctx.rule("C02.R2", "creators route annotated fields through the refinement; the branch is reachable")
    ctx.rule("C02.R3", "sibling values: fresh per-node dict, filled after every field, forwarded to children and to generate")
    ctx.rule("C02.R4", "mutate regenerates fields whose refinement depends on a mutated sibling")
    ctx.rule("C02.R6", "Dependent refinements receive the sibling values they name, in the order they name them")
    rule_r1(ctx)
    rule_r2(ctx)
    rule_r3_r4(ctx)
    rule_r6(ctx)
    # ---- R5: refinements are read from the class declarations on every use (documented: they may be re-declared
    # before a grammar is extracted), so the readers must not memoise
    from .c08 import process_state_rule
    ctx.rule("C02.R5", "declaration readers (grammar package) keep no cache: a re-declared refinement is seen by the next extraction")
    n5 = process_state_rule(ctx, "C02.R5", ("geneticengine.grammar",))
    ctx.ob("C02.R5", None, None, "grammar package scanned for memoisation / module-level state", True, f"{n5} candidate sites",
           module="geneticengine/grammar")
    ctx.assumptions += [
        "RandomSource.randint / random_float / choice honour their contracts (C18)",
        "constructor parameters of a refinement are ordered (min <= max): user contract",
    ]
