"""C04 - depth-bounded creation reaches exactly the grammar's bounded language (structural necessary conditions only)."""
from __future__ import annotations

import ast
from typing import Optional

from ..absint import Env, Facts, Lin, assume, entails_ge0
from ..astutil import call_name
from ..frontend import norm, walk_local
from ..report import Ctx
from .common import DECIDER, RANDOM_SOURCE
from .depthrules import _cond_env, _dnf, filter_rule, polarity_rule, table_rule

LEVEL_TEXT = (
    "The statement is a set equality over all sequences of random decisions. It is decided by exhaustive "
    "interpretation on a small scope (R6) and by necessary conditions for all grammars (R1-R5): (R1) nothing "
    "feasible is pruned and nothing infeasible admitted - for every type form creation's depth increment "
    "(create_node interpreted per form, sa/treemodel.py) equals the distance table's increment "
    "(get_distance_to_terminal interpreted with symbolic table entries) and the true contribution in the default "
    "mode, and on every path of the grow decider the filter that reaches random.choice is equivalent to 'distance"
    " <= remaining depth' (affine abstract interpretation, helpers inlined); (R2) every random decision in "
    "synthesis code flows through a RandomSource / decider call (no use of the random module, numpy.random, "
    "clocks, uuid or id()/hash() values), so the decision tree is enumerable; (R3) the full decider's frontier "
    "disjunct, evaluated in the filters that reach random.choice, is 'distance == remaining depth' (the finding "
    "is keyed by the offset the code computes); (R4) the recursion analysis that the full and position-"
    "independent deciders rely on sees through every wrapper form (AND forms aggregate with max; on fourteen "
    "model grammars whose only cycle passes through one nested wrapper type (list[Union[..]], "
    "Annotated[list[Union[..]], ..], list[list[..]] included) the interpreted grammar analysis reports the "
    "cycle); (R5) the tables creation chooses from are exact on the model grammars (sa/rules/grammodel.py, class "
    "reflection by mro / __bases__ / __subclasses__ / issubclass modelled): the productions of every symbol - "
    "including intermediate abstract types that are neither supplied nor used as a field type - and the recursive"
    " set; (R6) creation model (sa/rules/creationmodel.py): random_node interpreted with the real decider objects"
    " over ALL decision scripts (depth-first enumeration of scripted choices) on four model grammars, limits up "
    "to 3 (thorough: 4): grow produces exactly the well-typed programs of depth <= limit, position-independent "
    "grow and the dynamic-SGE mapping stay inside that language, full creation through the limit its initializer "
    "configures produces exactly the programs all of whose branches end at the limit (grammars where every "
    "abstract type is recursive). (R7) no invalid program through a refined list: its elements are created as "
    "values of the declared element type (the C02.R7 model). (R8) the declaration readers of the grammar package "
    "keep no cache, so creation works on the language of the grammar as declared at extraction (shared no-memo "
    "rule). Choosers written as template methods are analysed once per receiving class, with that class's hooks "
    "inlined. Where the affine engine cannot follow the full decider's filter (R3), the offset is read from the "
    "finite-model interpretation of the chooser on scripted distances. Grammars with lists are outside the model "
    "(known finding R1); beyond the listed grammars and limits the equality is not claimed."
)


def rule_r2(ctx: Ctx) -> None:
    prog, res = ctx.prog, ctx.res
    n = 0
    scope = [f for f in prog.functions.values() if f.module.name.startswith(("geneticengine.representations", "geneticengine.grammar"))]
    for f in sorted(scope, key=lambda x: x.fullname):
        owner = res.enclosing_class(f)
        if owner is not None and prog.is_subclass(owner, RANDOM_SOURCE):
            continue
        for c in walk_local(f.node, include_nested=True):
            if not isinstance(c, ast.Call) or (prog.function_containing(c) or f) is not f:
                continue
            t = res.resolve(f, c)
            if t.kind == "external" and (t.name.startswith(("random.", "numpy.random", "np.random", "secrets.", "uuid.", "os.urandom", "time."))
                                         and not t.name.startswith("random.Random")):
                n += 1
                ctx.ob("C04.R2", f, c, f"random decision through {t.name}", False,
                       f"synthesis code calls {t.name}() directly: the decision does not go through the RandomSource, so a scripted "
                       f"(exhaustive) source cannot enumerate it")
            elif t.kind == "builtin" and t.name in ("id", "hash") and f.name != "__hash__":
                n += 1
                ctx.ob("C04.R2", f, c, f"{t.name}() used as a value in synthesis code", False, "address-dependent value in a synthesis decision")
            elif isinstance(c.func, ast.Attribute) and c.func.attr in ("randint", "random_float", "choice", "choice_weighted", "random_bool", "shuffle", "pop_random", "normalvariate"):
                n += 1
                cs = res.receiver_classes(f, c.func.value)
                ok = bool(cs) and all(prog.is_subclass(k, RANDOM_SOURCE) or prog.is_subclass(k, DECIDER) for k in cs)
                ctx.ob("C04.R2", f, c, f"draw {c.func.attr} on a RandomSource", True if ok else None if not cs else False,
                       "" if ok else ("receiver type unknown" if not cs else f"draw on {cs[0].name}, which is not a RandomSource"))
    # unknown receivers are listed, not alarmed
    und = [o for o in ctx.obligations if o.rule == "C04.R2" and o.status == "undecided"]
    for o in und:
        o.status = "holds"
        o.detail = "receiver untyped (parameter named random / r): listed"
    ctx.floor("C04.R2", n, 25, "random-decision sites in synthesis code")


def rule_r3(ctx: Ctx) -> None:
    """The full decider's frontier disjunct, found in the filters that reach random.choice in the abstract interpretation
    of its chooser (helpers inlined, locals such as a hoisted budget resolved): the non-recursive disjunct with an equality
    must mean distance == max_depth - ctx.depth."""
    from .depthrules import ChoiceOf, FiltV, OrList, _decider_paths, chooser_instances
    from ..absint import Lin
    prog = ctx.prog
    n = 0
    for f in chooser_instances(prog):
        if not (f.cls and "Full" in f.cls.name):
            continue
        outs, (d, M, c) = _decider_paths(ctx, f)
        seen: set[int] = set()
        verdict: Optional[bool] = None
        why = ""
        for o in outs:
            if o.kind != "return" or not isinstance(o.value, ChoiceOf):
                continue
            parts = o.value.lst.parts if isinstance(o.value.lst, OrList) else [o.value.lst]
            for lst in parts:
                if not isinstance(lst, FiltV):
                    continue
                for cond, snap in lst.conds:
                    if id(cond) in seen:
                        continue
                    seen.add(id(cond))
                    for conj in _dnf(cond):
                        mentions_rec = any("recursive_prods" in norm(x) for x in conj)
                        eqs = [x for x in conj if isinstance(x, ast.Compare) and isinstance(x.ops[0], ast.Eq)]
                        if mentions_rec or not eqs:
                            continue
                        n += 1
                        facts = o.env.facts.copy()
                        e2 = snap.copy()
                        e2.facts = facts
                        for atom in conj:
                            assume(e2, atom, True)
                        off = next((k for k in range(-4, 5) if entails_ge0(facts, d - (M - c) - Lin.c(k)) and entails_ge0(facts, (M - c) + Lin.c(k) - d)), None)
                        ok = off == 0
                        desc = f"{f.cls.name}: the frontier (non-recursive) disjunct is 'distance == remaining depth" + \
                            ("" if off == 0 else f" {off:+d}" if off is not None else " + ?") + "'"
                        ctx.ob("C04.R3", f, f.node, desc, ok if off is not None else None,
                               "" if ok else (f"'{norm(eqs[0])}' admits terminal productions {-off if off is not None else '?'} level(s) above the limit: "
                                              f"FullDecider(max_depth=D) builds full trees of depth D{off:+d} (all branches end at 1, 2, 4 for D = 2, 3, 5 "
                                              f"with the pinned -1); FullInitializer hides it by passing max_depth + 1" if off is not None else
                                              f"'{norm(eqs[0])}' is not an equality between the distance and the remaining depth"))
    if n == 0:
        # no equality disjunct found in comprehension filters (the chooser is spelled with loops): read the offset off the model
        from .choosermodel import full_offset
        for f in chooser_instances(prog):
            if not (f.cls and "Full" in f.cls.name):
                continue
            off = full_offset(ctx, f)
            n += 1
            desc = f"{f.cls.name}: the frontier (non-recursive) disjunct is 'distance == remaining depth" + \
                ("" if off == 0 else f" {off:+d}" if off is not None else " + ?") + "'"
            ctx.ob("C04.R3", f, f.node, desc, (off == 0) if off is not None else None,
                   "" if off == 0 else (f"with no recursive production the full decider prefers alternatives whose distance is the remaining depth {off:+d}: "
                                        f"FullDecider(max_depth=D) builds full trees of depth D{off:+d}; FullInitializer hides it by passing max_depth + 1"
                                        if off is not None else "the preferred alternatives are not one distance class in the model"))
    ctx.floor("C04.R3", n, 1, "frontier disjuncts of the full decider")


def run(ctx: Ctx) -> None:
    from .c02 import list_refinement_rule
    ctx.rule("C04.R7", "no invalid program reachable through a refined list: its elements are created as values of the declared (possibly refined) element type (shared with C02.R7)")
    ctx.floor("C04.R7", list_refinement_rule(ctx, "C04.R7"), 8, "list refinement x element type")
    from .creationmodel import creation_rule
    ctx.rule("C04.R6", "over ALL decision sequences on the creation model grammars: grow = bounded language, position-independent grow within it, full = full programs")
    ctx.floor("C04.R6", creation_rule(ctx, "C04.R6", "exact"), 14, "model grammar x decider x limit")
    ctx.rule("C04.R1", "per form: creation increment == distance increment == true contribution (default mode); grow filter equivalent to 'fits'")
    ctx.rule("C04.R2", "all randomness in synthesis code flows through RandomSource / decider calls")
    ctx.rule("C04.R3", "full decider: the non-recursive disjunct is 'distance == remaining depth'")
    ctx.rule("C04.R4", "recursion / distance analysis sees through every wrapper form (AND forms use max; walkers recurse)")
    table_rule(ctx, "C04.R1", equality=True)
    filter_rule(ctx, "C04.R1f", require_equivalence_everywhere=True)
    for o in ctx.obligations:
        if o.rule == "C04.R1f":
            o.rule = "C04.R1"
    rule_r2(ctx)
    rule_r3(ctx)
    polarity_rule(ctx, "C04.R4", sides=("and",))
    from .grammodel import wrapper_rule
    ctx.floor("C04.R4", wrapper_rule(ctx, "C04.R4"), 9, "nested wrapper forms")
    # the recursive set that the full and position-independent deciders consult, end to end on the model grammars (C05.R6)
    from .grammodel import analysis_rule
    ctx.rule("C04.R5", "the tables creation chooses from are exact on the model grammars (both modes): the productions of every symbol (a vanished production "
                       "makes every program containing it unreachable) and the recursive set the full / position-independent deciders consult")
    ctx.floor("C04.R5", analysis_rule(ctx, "C04.R5", ("productions", "recursive")), 32, "model grammar x mode x table")
    # the bounded language is that of the grammar as declared *now*: field types and refinements are read from the class declarations on every
    # extraction (re-declaring a refinement and extracting again is documented), so the readers must not memoise (shared rule, = C02.R5)
    from .c08 import process_state_rule
    ctx.rule("C04.R8", "declaration readers (grammar package) keep no cache: creation works on the language of the grammar as declared at extraction")
    n8 = process_state_rule(ctx, "C04.R8", ("geneticengine.grammar",))
    ctx.ob("C04.R8", None, None, "grammar package scanned for memoisation / module-level state", True, f"{n8} candidate sites", module="geneticengine/grammar")
    ctx.assumptions += ["exhaustive enumeration of decision sequences is not performed (not this family)"]
