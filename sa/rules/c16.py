"""C16 - elitism keeps the best (structural clauses)."""
from __future__ import annotations

import ast
from typing import Optional

from ..astutil import call_name, is_self_attr
from ..frontend import AnalysisError, FunctionInfo, enclosing_stmt, norm, parent, walk_local
from ..iterconsume import ConsumeAnalysis, iterator_params
from ..report import Ctx
from ..yieldcount import YieldCounter, verdict
from .common import EVALUATOR, STEP, receiver_may_be

LEVEL_TEXT = (
    "(R1) finite-model interpretation of every elitism step's iterate (helpers such as sort_population, lambdas, "
    "sorted / sort / heapq.nlargest modelled) on four symbolic individuals with four fitness assignments (ties at"
    " the cut-off, negatives, a minimised problem) for k = 1..4: exactly k individuals are kept, none twice, and "
    "no dropped individual is strictly better than a kept one; (R2) in the same model every individual is handed "
    "to the evaluator before any fitness is read; (R3) exactly k individuals for every k <= n and every iterable "
    "form (yield-count abstract interpretation + one-shot iterator typestate); (R4) every site where a builder "
    "(default step, SimpleGP, parameterless, adaptive) places an ElitismStep is found through the constructor "
    "calls: the hosting combinator is interpreted on four individuals and two sub-steps and every sub-step "
    "application receives the complete population, the host is interpreted (Python's float arithmetic) for "
    "population sizes n and weights [k, n-k] / [k, j, n-k-j] - sizes where w / total * n is inexact in binary "
    "floating point included (49, 98, 103, 107, 161) - and asks every sub-step for exactly its weight; every call"
    " of a builder hands a variable named like one of the builder's parameters to that very parameter (elitism "
    "and novelty counts are not swapped); and the host is not itself placed behind another step of a SequenceStep"
    " (elitism would then only see what that step let through); fitness read through get_fitness() is answered "
    "from a decoy table when the wrong problem is asked. Monotonicity of the best fitness over generations "
    "follows at run time and is not separately decided."
)


def _key_sign(ctx: Ctx, fn: FunctionInfo, key: Optional[ast.AST]) -> Optional[int]:
    if key is None:
        return None
    if isinstance(key, ast.Call) and call_name(key) == "key_function":
        return 1
    if isinstance(key, ast.Lambda):
        b = key.body
        sign = 1
        while isinstance(b, ast.UnaryOp) and isinstance(b.op, (ast.USub, ast.UAdd)):
            if isinstance(b.op, ast.USub):
                sign = -sign
            b = b.operand
        if isinstance(b, ast.Attribute) and b.attr == "maximizing_aggregate":
            return sign
        if isinstance(b, ast.Subscript) and isinstance(b.slice, ast.Constant) and b.slice.value == 0 \
                and isinstance(b.value, ast.Call) and call_name(b.value) == "get_fitness":
            return sign
        if isinstance(b, ast.Call) and call_name(b) == "key_function":
            return sign
    return None


def _sorted_call(ctx: Ctx, fn: FunctionInfo, e: ast.AST, depth: int = 0):
    """(sorted-call node, owner function, input expr in *fn* terms) for an expression that denotes a sorted list.
    Order-preserving wrappers (list(), dict.fromkeys(), a filtering comprehension over a sorted list) are looked through."""
    if isinstance(e, ast.Call) and call_name(e) == "sorted" and isinstance(e.func, ast.Name):
        return e, fn, e.args[0] if e.args else None
    if isinstance(e, ast.Call) and call_name(e) in ("list", "tuple", "fromkeys", "reversed_not") and e.args and depth < 4:
        return _sorted_call(ctx, fn, e.args[0], depth + 1)
    if isinstance(e, ast.ListComp) and len(e.generators) == 1 and isinstance(e.elt, ast.Name) and isinstance(e.generators[0].target, ast.Name) \
            and e.elt.id == e.generators[0].target.id and depth < 4:
        return _sorted_call(ctx, fn, e.generators[0].iter, depth + 1)
    if isinstance(e, ast.Name) and depth < 4:
        ds = [a for a in walk_local(fn.node) if isinstance(a, ast.Assign) and any(isinstance(t, ast.Name) and t.id == e.id for t in a.targets)]
        if len(ds) == 1:
            return _sorted_call(ctx, fn, ds[0].value, depth + 1)
    if isinstance(e, ast.Call) and depth < 6:
        t = ctx.res.resolve(fn, e)
        if t.kind == "repo" and len(t.targets) == 1:
            g = t.targets[0]
            rets = [r for r in walk_local(g.node) if isinstance(r, ast.Return) and r.value is not None]
            if len(rets) == 1:
                inner = _sorted_call(ctx, g, rets[0].value, depth + 1)
                if inner is not None:
                    sc, owner, inp = inner
                    # map the callee's input parameter back to the argument here
                    if isinstance(inp, ast.Name) and inp.id in g.params:
                        idx = g.params.index(inp.id)
                        arg = e.args[idx] if idx < len(e.args) else None
                        return sc, owner, arg
                    return sc, owner, None
    return None


def run(ctx: Ctx) -> None:
    prog, res = ctx.prog, ctx.res
    ctx.rule("C16.R1", "sort key sign x reverse x slice side selects the k largest maximising aggregates")
    ctx.rule("C16.R2", "the sorted list is the one evaluated just before")
    ctx.rule("C16.R3", "exactly k individuals for any iterable input (yield count + iterator typestate)")
    ctx.rule("C16.R4", "elitism sees the whole population: host combinators pass the complete input; builders place ElitismStep under them")

    from ..modelinterp import Budget, Effect, Interp, Obj, Sym, UNKNOWN, _NONE
    from .c17model import SelScript, run_selection
    elit: list[FunctionInfo] = []
    tags = ["i1", "i2", "i3", "i4"]
    rank_sets = [{"i1": 1.0, "i2": 4.0, "i3": 2.0, "i4": 3.0}, {"i1": 5.0, "i2": 5.0, "i3": 1.0, "i4": 7.0}, {"i1": -2.0, "i2": -9.0, "i3": -2.0, "i4": -1.0},
                 {"i1": 2.0, "i2": 2.0, "i3": 2.0, "i4": 9.0}]
    for c in prog.subclasses(STEP):
        it = prog.lookup_method(c, "iterate")
        if it is None or it.cls is None or it.cls.fullname == STEP or "litism" not in c.name:
            continue
        elit.append(it)
        bad: dict[str, tuple] = {}
        und = None
        n = 0
        for ranks in rank_sets:
            for k in (1, 2, 3, 4):
                try:
                    runs = run_selection(ctx, c, it, tags, ranks, {t: [-ranks[t]] for t in tags}, [True], SelScript([], []), {}, target_size=k)
                except Budget:
                    und = "too many interpretations"
                    continue
                for trace, rv, notes in runs:
                    if any(e.kind == "raise" for e in trace):
                        und = und or f"a path raises ({[e.name for e in trace if e.kind == 'raise'][0]})"
                        continue
                    n += 1
                    ys: list = []
                    for e in trace:
                        if e.kind == "yield":
                            v = e.args[0]
                            ys += (v if isinstance(v, list) else [UNKNOWN]) if e.name == "from" else [v]
                    scen = {"aggregates": {t: ranks[t] for t in tags}, "target_size": k}
                    if any(not (isinstance(y, Sym) and y.tag in tags) for y in ys):
                        und = und or "a yielded value is not followed"
                        continue
                    got = [y.tag for y in ys]
                    if len(got) != k:
                        bad.setdefault("count", (f"{len(got)} individuals are kept for target_size {k}", scen))
                        continue
                    if len(set(got)) != len(got):
                        bad.setdefault("best", (f"the elite {got} contains an individual twice: a place among the k best is wasted", scen))
                    rest = [t for t in tags if t not in got]
                    worst_in, best_out = min(ranks[t] for t in got), max([ranks[t] for t in rest], default=float("-inf"))
                    if best_out > worst_in:
                        b_ = next(t for t in rest if ranks[t] == best_out)
                        w_ = next(t for t in got if ranks[t] == worst_in)
                        bad.setdefault("best", (f"for target_size {k} the elite is {got}: {w_} (aggregate {worst_in}) is kept while the strictly "
                                                f"better {b_} (aggregate {best_out}) is dropped", scen))
        ctx.ob("C16.R1", it, it.node, f"{c.name}: the k individuals kept are k individuals with the largest maximising aggregates (ties, negatives; k = 1..4)",
               False if "best" in bad else (None if und else True), bad["best"][0] if "best" in bad else (und or ""),
               witness=bad["best"][1] if "best" in bad else {"scenarios": n})
        ctx.ob("C16.R1", it, it.node, f"{c.name}: exactly target_size individuals are kept", False if "count" in bad else (None if und else True),
               bad["count"][0] if "count" in bad else (und or ""), witness=bad["count"][1] if "count" in bad else None)
        # ---- R2: evaluated (through the evaluator it is given) before it is ordered
        ev_calls = [c_ for g in [it] + [prog.lookup_method(c, x.func.attr) for x in walk_local(it.node) if isinstance(x, ast.Call)
                                        and isinstance(x.func, ast.Attribute) and is_self_attr(x.func) and prog.lookup_method(c, x.func.attr) is not None]
                    for c_ in walk_local(g.node) if isinstance(c_, ast.Call) and call_name(c_) == "evaluate"
                    and isinstance(c_.func, ast.Attribute) and receiver_may_be(ctx, g, c_.func.value, EVALUATOR)]
        ok2 = None
        why2 = "the population is ordered by fitness without having been evaluated in this step"
        if ev_calls:
            # in the model: the evaluator call precedes the first yield and is given every individual of the population
            ok2 = True
            class _Rec:
                pass
            ok2, why2 = _evaluated_before_use(ctx, c, it, tags, rank_sets[0])
        ctx.ob("C16.R2", it, it.node, f"{c.name}: every individual is handed to the evaluator before the order is taken", ok2 if ev_calls else False,
               "" if ok2 else why2)
    ctx.floor("C16.R1", len(elit), 1, "elitism steps")

    # ---- R3
    ca = ConsumeAnalysis(prog, res)
    for it in elit:
        for idx, name in iterator_params(it):
            st = ca.analyse(it, name)
            ctx.ob("C16.R3", it, st.second or it.node, f"one-shot '{name}' consumed once", st.count < 2,
                   "" if st.count < 2 else "the population iterator is consumed twice: given an iterator the step returns nothing")
        yc = YieldCounter(it, "target_size", "population")
        yc.prog = prog
        for st in yc.run():
            status, detail, wit = verdict(yc, st, yc.k)
            ctx.ob("C16.R3", it, it.node, f"yields exactly target_size [{'; '.join(st.conds) or 'all inputs'}]",
                   True if status == "holds" else False if status == "fails" else None, detail, witness=wit)

    # ---- R4
    hosts: set[str] = set()
    slots_done: set[str] = set()
    slots_followed: list = []
    n4 = 0
    for f in prog.functions.values():
        for c_ in walk_local(f.node):
            if not isinstance(c_, ast.Call):
                continue
            lsts = [a for a in list(c_.args) + [k.value for k in c_.keywords] if isinstance(a, ast.List)
                    and any(isinstance(e, ast.Call) and call_name(e) == "ElitismStep" for e in a.elts)]
            if not lsts:
                continue
            lst = lsts[0]
            members = [call_name(e) for e in lst.elts if isinstance(e, ast.Call)]
            t = res.resolve(f, c_)
            if t.kind != "ctor" or t.cls is None:
                # not resolved through types (a front-end module outside the typed core): a unique step class of that name
                cands_ = [k for k in prog.classes.values() if k.name == call_name(c_) and prog.lookup_method(k, "iterate") is not None]
                if len(cands_) != 1:
                    continue
                from types import SimpleNamespace
                t = SimpleNamespace(kind="ctor", cls=cands_[0])
            n4 += 1
            itf = prog.lookup_method(t.cls, "iterate")
            hosts.add(itf.fullname if itf else "")
            ok, why = _passes_whole(ctx, t.cls, itf) if itf is not None else (False, "host has no iterate")
            ctx.ob("C16.R4", f, c_, f"ElitismStep is hosted by {t.cls.name}, which hands sub-steps the whole population", ok,
                   "" if ok else f"{t.cls.name}: {why}; elitism would only see part of the population and the best "
                                 f"individual can be lost")
            # ... and gives every sub-step the number of slots its weight stands for when the weights are whole numbers of individuals
            # that add up to the population (the way the builders reserve elitism / novelty slots)
            if itf is not None and itf.fullname not in slots_done:
                slots_done.add(itf.fullname)
                ok5, why5 = _reserved_slots(ctx, t.cls, itf)
                if ok5 is None:
                    # a host that re-weights its sub-steps while it runs (feedback / adaptive combinators): fixed reserved slots are not its contract
                    ctx.extra.setdefault("hosts_without_fixed_slots", []).append(f"{t.cls.name}: {why5}")
                else:
                    n4 += 1
                    slots_followed.append(t.cls.name)
                    ctx.ob("C16.R4", itf, itf.node, f"{t.cls.name}: weights that are whole numbers of individuals reserve exactly that many slots", ok5,
                           "" if ok5 else why5)
            # ... and the host itself receives the previous generation: it is not placed behind another step of a sequence
            behind = None
            pp = parent(c_)
            if isinstance(pp, ast.Call) and call_name(pp) == "SequenceStep" and c_ in pp.args and pp.args.index(c_) >= 1:
                behind = pp
            elif isinstance(pp, (ast.List, ast.Tuple)) and isinstance(parent(pp), ast.Call) and call_name(parent(pp)) == "SequenceStep" and pp.elts.index(c_) >= 1:
                behind = parent(pp)
            elif isinstance(pp, ast.Assign) and len(pp.targets) == 1 and isinstance(pp.targets[0], ast.Name):
                nm_ = pp.targets[0].id
                for q in walk_local(f.node):
                    if isinstance(q, ast.Call) and call_name(q) == "SequenceStep" and getattr(q, "lineno", 0) > c_.lineno:
                        flat = [a for a in q.args] + [e_ for a in q.args if isinstance(a, (ast.List, ast.Tuple)) for e_ in a.elts]
                        idxs = [i for i, a in enumerate(q.args) if isinstance(a, ast.Name) and a.id == nm_]
                        # re-bound in between? (step = Parallel([...Elitism...]); step = Sequence(sel, step) re-binds after use: still behind)
                        if idxs and min(idxs) >= 1:
                            behind = q
            n4 += 1
            ctx.ob("C16.R4", f, behind or c_, f"the {t.cls.name} hosting ElitismStep receives the previous generation (it is not placed behind another step)",
                   behind is None,
                   "" if behind is None else f"'{norm(behind)[:70]}' runs another step first: elitism only sees what that step yields (e.g. tournament winners), "
                                             f"so the best individual of the previous generation can be lost")
    ctx.floor("C16.R4", n4, 3, "builders placing ElitismStep under a parallel combinator")
    # ---- the number of elite slots the user configures is the one that reaches ElitismStep's weight: every call of a builder that hosts
    # ElitismStep hands a variable named like one of the builder's parameters to that very parameter (elitism and novelty are both plain
    # ints: passed in each other's position nothing fails, the elite count silently becomes the novelty count)
    builders = {f.fullname: f for f in prog.functions.values() for c_ in walk_local(f.node)
                if isinstance(c_, ast.Call) and any(isinstance(a, ast.List) and any(isinstance(e, ast.Call) and call_name(e) == "ElitismStep" for e in a.elts)
                                                    for a in list(c_.args) + [k.value for k in c_.keywords])}
    for b in builders.values():
        bparams = [p_ for p_ in b.params if p_ != "self"]
        for g in prog.functions.values():
            for c2 in walk_local(g.node):
                if not (isinstance(c2, ast.Call) and call_name(c2) == b.name and (isinstance(c2.func, ast.Attribute) or isinstance(c2.func, ast.Name))):
                    continue
                t2 = res.resolve(g, c2)
                if b.name.startswith("__") or (t2.kind == "repo" and b not in t2.targets) or \
                        (t2.kind != "repo" and sum(1 for h in prog.functions.values() if h.name == b.name) != 1):
                    continue
                n4 += 1
                swapped = [(i, a.id, bparams[i]) for i, a in enumerate(c2.args) if i < len(bparams) and isinstance(a, ast.Name)
                           and a.id in bparams and a.id != bparams[i]]
                swapped += [(k.arg, k.value.id, k.arg) for k in c2.keywords if k.arg in bparams and isinstance(k.value, ast.Name)
                            and k.value.id in bparams and k.value.id != k.arg]
                ctx.ob("C16.R4", g, c2, f"the arguments of {b.name} arrive at the parameters they are named after", not swapped,
                       "" if not swapped else f"'{swapped[0][1]}' is passed in the position of the parameter '{swapped[0][2]}' of {b.qualname}: the configured "
                                              f"{swapped[0][1]} count is used as the {swapped[0][2]} count (and the other way round), so elitism does not keep the "
                                              f"number of best individuals it was configured with")
    if not slots_followed:
        ctx.ob("C16.R4", None, None, "some combinator hosting ElitismStep is followed by the reserved-slot model", None,
               "; ".join(ctx.extra.get("hosts_without_fixed_slots", []))[:300], module="geneticengine/algorithms/gp/operators")


def _evaluated_before_use(ctx: Ctx, cls, it: FunctionInfo, tags: list, ranks: dict) -> tuple[Optional[bool], str]:
    """interpret iterate with an evaluator whose evaluate() is recorded: it must be called with all individuals before any
    fitness is read (get_fitness / key function)"""
    import ast as _ast
    from ..modelinterp import Budget, Effect, Interp, Obj, Sym, UNKNOWN
    state = {"evaluated": set(), "early": None}

    def call_model(itp, call, env, args, kwargs):
        nm = call_name(call)
        recv = itp.ev(call.func.value, env, 9) if isinstance(call.func, _ast.Attribute) else None
        if nm == "evaluate" and isinstance(recv, Sym) and recv.tag == "evaluator" and len(args) >= 2:
            if isinstance(args[1], list):
                state["evaluated"] |= {x.tag for x in args[1] if isinstance(x, Sym)}
            return args[1]
        if nm == "key_function":
            return Sym("KEY")
        if nm == "get_fitness" and isinstance(recv, Sym) and recv.tag in ranks:
            if recv.tag not in state["evaluated"]:
                state["early"] = state["early"] or recv.tag
            return Obj("Fitness", {"maximizing_aggregate": ranks[recv.tag], "fitness_components": [ranks[recv.tag]]})
        return None

    def sym_result(fv, a):
        if fv.tag == "KEY" and a and isinstance(a[0], Sym):
            if a[0].tag not in state["evaluated"]:
                state["early"] = state["early"] or a[0].tag
            return ranks.get(a[0].tag, UNKNOWN)
        return Sym(fv.tag + "()")

    itp = Interp(ctx.prog, cls, lambda *_: None, call_model, max_depth=5, max_traces=8)
    itp.instantiate_classes = True      # small helper objects of the repository (an ordering, a record) are followed
    itp.sym_result = sym_result
    itp.on_start = lambda: (state["evaluated"].clear(), state.__setitem__("early", None))
    p = it.params
    env = {"self": Sym("self"), p[1]: Sym("problem"), p[2]: Sym("evaluator"), p[3]: Sym("representation"), p[4]: Sym("random"),
           p[5]: [Sym(t) for t in tags], p[6]: 2, p[7]: 0}
    try:
        runs = itp.run(it, env)
    except Budget:
        return None, "too many interpretations"
    if state["early"]:
        return False, f"the fitness of {state['early']} is read before the evaluator was given that individual: the order is taken over stale or missing fitness values"
    if not set(tags) <= state["evaluated"]:
        return False, f"the evaluator is given {sorted(state['evaluated'])}, not the whole population {tags}"
    return True, ""


def _reserved_slots(ctx: Ctx, cls, itf: FunctionInfo) -> tuple[Optional[bool], str]:
    """point witnesses: the host's iterate interpreted (Python's own float arithmetic) for population sizes n and weights
    [k, n - k] / [k, j, n - k - j]; every sub-step must be asked for exactly its weight.  Sizes include those where w / total * n
    is not exact in binary floating point (49, 98, 103, 107, 161): truncating such a share loses the last reserved slot."""
    import ast as _ast
    from ..modelinterp import Budget, Interp, Sym, UNKNOWN
    cases = [(4, [1, 3]), (10, [2, 8]), (10, [1, 1, 8]), (49, [1, 48]), (49, [2, 47]), (98, [1, 97]), (103, [1, 102]), (107, [1, 106]), (161, [1, 160]),
             (55, [7, 48]), (47, [3, 44]), (49, [1, 1, 47]), (100, [10, 10, 80]), (50, [5, 0, 45])]
    und = None
    for n, weights in cases:
        asked: dict = {}

        def call_model(itp, call, env, args, kwargs, asked=asked):
            nm = call_name(call)
            if nm in ("apply", "iterate") and isinstance(call.func, _ast.Attribute) and len(args) >= 6:
                recv = itp.ev(call.func.value, env, 9)
                if isinstance(recv, Sym) and recv.tag.startswith("step"):
                    asked[recv.tag] = asked.get(recv.tag, 0) + (args[5] if isinstance(args[5], int) and not isinstance(args[5], bool) else 10 ** 9)
                    return [Sym(f"out-{recv.tag}-{i}") for i in range(args[5])] if isinstance(args[5], int) and 0 <= args[5] <= 400 else UNKNOWN
            return None

        itp = Interp(ctx.prog, cls, lambda *_: None, call_model, max_depth=5, max_traces=4)
        itp.instantiate_classes = True      # small helper objects of the repository (an ordering, a record) are followed
        itp.on_start = asked.clear
        itp.range_cap = 512                 # the sizes of the cases below are unrolled
        p = itf.params
        env = {"self": Sym("self"), p[1]: Sym("problem"), p[2]: Sym("evaluator"), p[3]: Sym("representation"), p[4]: Sym("random"),
               p[5]: [Sym(f"i{j}") for j in range(n)], p[6]: n, p[7]: 0, "self.steps": [Sym(f"step{j}") for j in range(len(weights))],
               "self.weights": list(weights)}
        try:
            runs = itp.run(itf, env)
        except Budget:
            und = und or "too many interpretations"
            continue
        if len(runs) != 1 or runs[0][2] or any(e.kind == "raise" for e in runs[0][0]):
            und = und or (runs[0][2][0] if runs and runs[0][2] else "the model does not follow the host's iterate")
            continue
        got = [asked.get(f"step{j}", 0) for j in range(len(weights))]
        if got != list(weights):
            j = next(i for i, (a, b) in enumerate(zip(got, weights)) if a != b)
            return False, (f"with a population of {n} and weights {weights} sub-step {j + 1} is asked for {got[j]} individual(s), its weight reserves {weights[j]} "
                           f"(requested sizes {got}): " + ("the reserved elitism slot disappears and the best individual is not carried over" if got[j] < weights[j] else
                                                          "the slots are not the ones the weights stand for"))
    return (None, und) if und else (True, "")


def _passes_whole(ctx: Ctx, cls, itf: FunctionInfo) -> tuple[Optional[bool], str]:
    """interpret the host combinator's iterate on four individuals, two sub-steps and equal weights: every sub-step
    application must receive the complete population"""
    import ast as _ast
    from ..modelinterp import Budget, Effect, Interp, Sym, UNKNOWN
    tags = ["i1", "i2", "i3", "i4"]
    got: list = []

    def call_model(itp, call, env, args, kwargs):
        nm = call_name(call)
        if nm in ("apply", "iterate") and isinstance(call.func, _ast.Attribute) and len(args) >= 6:
            recv = itp.ev(call.func.value, env, 9)
            if isinstance(recv, Sym) and recv.tag.startswith("step"):
                pop = args[4]
                got.append([x.tag if isinstance(x, Sym) else "?" for x in pop] if isinstance(pop, list) else None)
                return []
        return None

    # target sizes: the population's own size, and a smaller one (a shrinking population: the best may sit anywhere in the input,
    # so a host that reads only the first target_size individuals hides it from the elitism step)
    for target in (4, 2):
        itp = Interp(ctx.prog, cls, lambda *_: None, call_model, max_depth=5, max_traces=8)
        itp.instantiate_classes = True      # small helper objects of the repository (an ordering, a record) are followed
        itp.on_start = got.clear
        p = itf.params
        env = {"self": Sym("self"), p[1]: Sym("problem"), p[2]: Sym("evaluator"), p[3]: Sym("representation"), p[4]: Sym("random"),
               p[5]: [Sym(t) for t in tags], p[6]: target, p[7]: 0, "self.steps": [Sym("step1"), Sym("step2")], "self.weights": [1, 1]}
        try:
            runs = itp.run(itf, env)
        except Budget:
            return None, "too many interpretations"
        if not got:
            return None, "no sub-step application is reached in the model"
        for g in got:
            if g is None:
                return None, "the population handed to a sub-step is not followed"
            if sorted(g) != tags:
                return False, f"with target_size {target} sub-steps receive {g} of the population {tags}"
    return True, ""
