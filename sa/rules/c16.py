"""C16 - elitism keeps the best (structural clauses)."""
from __future__ import annotations

import ast
from typing import Optional

from ..astutil import call_name, is_self_attr
from ..frontend import AnalysisError, FunctionInfo, enclosing_stmt, norm, parent, walk_local
from ..iterconsume import ConsumeAnalysis, iterator_params
from ..report import Ctx
from ..yieldcount import YieldCounter, verdict
from .common import EVALUATOR, STEP, receiver_may_be

LEVEL_TEXT = (
    "Static rules on every GeneticStep whose iterate yields a slice of a sorted population (the elitism steps, found "
    "structurally): (R1) polarity composition sort-key sign x reverse flag x slice side = 'the k largest maximising "
    "aggregates'; any single flip changes the verdict; (R2) the list that is sorted is the list that was handed to "
    "the evaluator before; (R3) exactly k individuals for every k <= n and every iterable form (yield-count "
    "abstract interpretation + one-shot iterator typestate of that method); (R4) the parallel combinators that host "
    "elitism hand each sub-step the complete population (not a slice), and the default step / SimpleGP / parameterless "
    "GP builders place ElitismStep directly under such a combinator. Monotonicity of the best fitness over "
    "generations follows at run time and is not separately decided."
)


def _key_sign(ctx: Ctx, fn: FunctionInfo, key: Optional[ast.AST]) -> Optional[int]:
    if key is None:
        return None
    if isinstance(key, ast.Call) and call_name(key) == "key_function":
        return 1
    if isinstance(key, ast.Lambda):
        b = key.body
        sign = 1
        while isinstance(b, ast.UnaryOp) and isinstance(b.op, (ast.USub, ast.UAdd)):
            if isinstance(b.op, ast.USub):
                sign = -sign
            b = b.operand
        if isinstance(b, ast.Attribute) and b.attr == "maximizing_aggregate":
            return sign
        if isinstance(b, ast.Subscript) and isinstance(b.slice, ast.Constant) and b.slice.value == 0 \
                and isinstance(b.value, ast.Call) and call_name(b.value) == "get_fitness":
            return sign
        if isinstance(b, ast.Call) and call_name(b) == "key_function":
            return sign
    return None


def _sorted_call(ctx: Ctx, fn: FunctionInfo, e: ast.AST, depth: int = 0):
    """(sorted-call node, owner function, input expr in *fn* terms) for an expression that denotes a sorted list.
    Order-preserving wrappers (list(), dict.fromkeys(), a filtering comprehension over a sorted list) are looked through."""
    if isinstance(e, ast.Call) and call_name(e) == "sorted" and isinstance(e.func, ast.Name):
        return e, fn, e.args[0] if e.args else None
    if isinstance(e, ast.Call) and call_name(e) in ("list", "tuple", "fromkeys", "reversed_not") and e.args and depth < 4:
        return _sorted_call(ctx, fn, e.args[0], depth + 1)
    if isinstance(e, ast.ListComp) and len(e.generators) == 1 and isinstance(e.elt, ast.Name) and isinstance(e.generators[0].target, ast.Name) \
            and e.elt.id == e.generators[0].target.id and depth < 4:
        return _sorted_call(ctx, fn, e.generators[0].iter, depth + 1)
    if isinstance(e, ast.Name) and depth < 4:
        ds = [a for a in walk_local(fn.node) if isinstance(a, ast.Assign) and any(isinstance(t, ast.Name) and t.id == e.id for t in a.targets)]
        if len(ds) == 1:
            return _sorted_call(ctx, fn, ds[0].value, depth + 1)
    if isinstance(e, ast.Call) and depth < 6:
        t = ctx.res.resolve(fn, e)
        if t.kind == "repo" and len(t.targets) == 1:
            g = t.targets[0]
            rets = [r for r in walk_local(g.node) if isinstance(r, ast.Return) and r.value is not None]
            if len(rets) == 1:
                inner = _sorted_call(ctx, g, rets[0].value, depth + 1)
                if inner is not None:
                    sc, owner, inp = inner
                    # map the callee's input parameter back to the argument here
                    if isinstance(inp, ast.Name) and inp.id in g.params:
                        idx = g.params.index(inp.id)
                        arg = e.args[idx] if idx < len(e.args) else None
                        return sc, owner, arg
                    return sc, owner, None
    return None


def run(ctx: Ctx) -> None:
    prog, res = ctx.prog, ctx.res
    ctx.rule("C16.R1", "sort key sign x reverse x slice side selects the k largest maximising aggregates")
    ctx.rule("C16.R2", "the sorted list is the one evaluated just before")
    ctx.rule("C16.R3", "exactly k individuals for any iterable input (yield count + iterator typestate)")
    ctx.rule("C16.R4", "elitism sees the whole population: host combinators pass the complete input; builders place ElitismStep under them")

    elit: list[FunctionInfo] = []
    for c in prog.subclasses(STEP):
        it = c.methods.get("iterate")
        if it is None:
            continue
        for y in walk_local(it.node):
            if isinstance(y, ast.YieldFrom) and isinstance(y.value, ast.Subscript) and isinstance(y.value.slice, ast.Slice):
                base = y.value.value
                src = base
                if isinstance(base, ast.Name):
                    ds = [a for a in walk_local(it.node) if isinstance(a, ast.Assign)
                          and any(isinstance(t, ast.Name) and t.id == base.id for t in a.targets)]
                    src = ds[-1].value if ds else None
                sc = _sorted_call(ctx, it, src) if src is not None else None
                if sc is None:
                    if "litism" in c.name:
                        if it not in elit:
                            elit.append(it)
                        ctx.ob("C16.R1", it, y, "the elite is a prefix of the population ordered best-first", False,
                               f"'{norm(y)[:60]}' cuts k individuals from '{norm(base)}', which is not the population sorted best-first "
                               f"(it keeps population order): when more than k candidates qualify (ties at the cut-off) a strictly better "
                               f"individual later in the population is excluded")
                    continue
                if it not in elit:
                    elit.append(it)
                sorted_call, owner, inp = sc
                key = next((k.value for k in sorted_call.keywords if k.arg == "key"), None)
                rev = next((k.value for k in sorted_call.keywords if k.arg == "reverse"), None)
                sign = _key_sign(ctx, owner, key)
                reverse = False if rev is None else rev.value if isinstance(rev, ast.Constant) and isinstance(rev.value, bool) else None
                sl = y.value.slice
                side = None
                bound = None
                if sl.lower is None and sl.upper is not None and sl.step is None:
                    side, bound = "prefix", sl.upper
                elif sl.upper is None and isinstance(sl.lower, ast.UnaryOp) and isinstance(sl.lower.op, ast.USub) and sl.step is None:
                    side, bound = "suffix", sl.lower.operand
                if sign is None or reverse is None or side is None:
                    ctx.ob("C16.R1", it, y, "elitism polarity", None,
                           f"cannot classify key/reverse/slice ({norm(key) if key else None}, {norm(rev) if rev else None}, {norm(sl)})")
                    continue
                best_first = (sign > 0) == reverse
                ok = (best_first and side == "prefix") or (not best_first and side == "suffix")
                ctx.ob("C16.R1", it, y, "the slice keeps the k individuals with the largest maximising aggregate", ok,
                       "" if ok else f"key sign {'+' if sign > 0 else '-'}aggregate, reverse={reverse}, {side} slice: the step "
                                     f"returns the k WORST individuals",
                       witness={"key_sign": sign, "reverse": reverse, "slice": side})
                okb = isinstance(bound, ast.Name) and bound.id == "target_size"
                ctx.ob("C16.R1", it, y, "the slice length is target_size", okb,
                       "" if okb else f"the slice bound is '{norm(bound)}', not the requested number")
                # ---- R2
                ev_calls = [c_ for c_ in walk_local(it.node) if isinstance(c_, ast.Call) and call_name(c_) == "evaluate"
                            and isinstance(c_.func, ast.Attribute) and receiver_may_be(ctx, it, c_.func.value, EVALUATOR)]
                ystmt = enclosing_stmt(y)
                ok2, why2 = False, "the population is sorted by fitness without having been evaluated in this step"
                for c_ in ev_calls:
                    if c_.lineno < ystmt.lineno and len(c_.args) >= 2:
                        a1 = c_.args[1]
                        while isinstance(a1, ast.Call) and call_name(a1) in ("list", "iter", "tuple") and a1.args:
                            a1 = a1.args[0]
                        while isinstance(inp, ast.Call) and call_name(inp) in ("list", "iter", "tuple") and inp.args:
                            inp = inp.args[0]
                        if inp is not None and isinstance(a1, ast.Name) and isinstance(inp, ast.Name) and a1.id == inp.id:
                            sort_stmt_line = sorted_call.lineno if owner is it else (ds[-1].lineno if isinstance(base, ast.Name) and ds else ystmt.lineno)
                            if c_.lineno < sort_stmt_line or owner is not it:
                                ok2, why2 = True, ""
                        elif inp is not None:
                            why2 = f"the evaluator is given '{norm(a1)}' but '{norm(inp)}' is what gets sorted"
                ctx.ob("C16.R2", it, y, "evaluated before sorted, same list", ok2, why2)
    ctx.floor("C16.R1", len(elit), 1, "elitism-like steps (yield a slice of a sorted population)")

    # ---- R3
    ca = ConsumeAnalysis(prog, res)
    for it in elit:
        for idx, name in iterator_params(it):
            st = ca.analyse(it, name)
            ctx.ob("C16.R3", it, st.second or it.node, f"one-shot '{name}' consumed once", st.count < 2,
                   "" if st.count < 2 else "the population iterator is consumed twice: given an iterator the step returns nothing")
        yc = YieldCounter(it, "target_size", "population")
        for st in yc.run():
            status, detail, wit = verdict(yc, st, yc.k)
            ctx.ob("C16.R3", it, it.node, f"yields exactly target_size [{'; '.join(st.conds) or 'all inputs'}]",
                   True if status == "holds" else False if status == "fails" else None, detail, witness=wit)

    # ---- R4
    hosts: set[str] = set()
    n4 = 0
    for f in prog.functions.values():
        for c_ in walk_local(f.node):
            if not (isinstance(c_, ast.Call) and c_.args and isinstance(c_.args[0] if not (len(c_.args) > 1 and isinstance(c_.args[1], ast.List)) else c_.args[1], ast.List)):
                continue
            lst = c_.args[1] if (len(c_.args) > 1 and isinstance(c_.args[1], ast.List)) else c_.args[0]
            members = [call_name(e) for e in lst.elts if isinstance(e, ast.Call)]
            if not any(m == "ElitismStep" for m in members):
                continue
            t = res.resolve(f, c_)
            if t.kind != "ctor" or t.cls is None:
                continue
            n4 += 1
            itf = prog.lookup_method(t.cls, "iterate")
            hosts.add(itf.fullname if itf else "")
            ok, why = _passes_whole(itf) if itf is not None else (False, "host has no iterate")
            ctx.ob("C16.R4", f, c_, f"ElitismStep is hosted by {t.cls.name}, which hands sub-steps the whole population", ok,
                   "" if ok else f"{t.cls.name}: {why}; elitism would only see part of the population and the best "
                                 f"individual can be lost")
    ctx.floor("C16.R4", n4, 3, "builders placing ElitismStep under a parallel combinator")


def _passes_whole(itf: FunctionInfo) -> tuple[bool, str]:
    pop = "population"
    whole = {pop}
    for a in walk_local(itf.node):
        if isinstance(a, (ast.Assign, ast.AnnAssign)):
            tg = a.targets[0] if isinstance(a, ast.Assign) else a.target
            v = a.value
            if isinstance(tg, ast.Name) and v is not None:
                if isinstance(v, ast.Call) and call_name(v) in ("list", "tuple") and v.args and isinstance(v.args[0], ast.Name) and v.args[0].id in whole:
                    whole.add(tg.id)
                elif isinstance(v, ast.ListComp) and len(v.generators) == 1 and not v.generators[0].ifs \
                        and isinstance(v.generators[0].iter, ast.Name) and v.generators[0].iter.id in whole and isinstance(v.elt, ast.Name):
                    whole.add(tg.id)
    applies = [c for c in walk_local(itf.node) if isinstance(c, ast.Call) and call_name(c) == "apply" and len(c.args) >= 5]
    if not applies:
        return False, "no sub-step application found"
    for c in applies:
        a = c.args[4]
        if isinstance(a, ast.Call) and call_name(a) == "iter" and a.args:
            a = a.args[0]
        if isinstance(a, ast.Name) and a.id in whole:
            continue
        return False, f"sub-steps receive '{norm(c.args[4])}'"
    return True, ""
