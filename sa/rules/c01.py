"""C01 - every program the library produces is well-typed for its grammar (structural clauses)."""
from __future__ import annotations

import ast
from typing import Optional

from ..astutil import call_name, guards, is_self_attr
from ..dispatch import BASE, Branch, classify, dispatch_chains
from ..frontend import AnalysisError, FunctionInfo, ancestors, dotted, enclosing_stmt, is_stub, norm, parent, walk_local
from ..paths import paths, stmts_on
from ..report import Ctx
from ..types import T
from .common import DECIDER, REPRESENTATION, REPR_MUT, REPR_XO

LEVEL_TEXT = (
    "Static rules on the program creators and deciders: (R1) create_node is interpreted (finite-model abstract "
    "interpretation, sa/treemodel.py: the repository's own type-form predicates inlined over a model of the "
    "typing runtime, helpers inlined, recursive creation calls recorded) on one symbolic type of every form - int"
    " / float / bool, tuple[A, B], list[A], Union[A, B], an abstract symbol, a production P(f1: A, f2: list[A]) -"
    " and on every non-raising path builds a value of that form from one created value per part, in order; the "
    "stack mapper is interpreted too (sa/rules/stackmodel.py: a scripted sequence of target types, base values "
    "that remember their kind, try/except followed): what is built for a production with an int, a tuple, a list "
    "or a refined field is one value of the declared form per field, and an attempt that fails midway leaves no "
    "value on a stack of another type; (R2) no generator / map / filter / zip object flows into a field, a "
    "constructor argument list, a stack or a return; (R3) every decider's random_int / random_float / random_bool"
    " returns exactly int / float / bool (mypy types plus inferred return kinds through unannotated helpers), and"
    " what random_float returns is a float whatever the kind of its bounds - a true division, arithmetic with a "
    "float operand or a float-returning draw on every path, followed through helper functions (a bound handed "
    "back unchanged would put an int into a float field), and every random source's random_bool / randint returns"
    " exactly a bool / an int (the deciders hand the value through); (R4) every chooser is abstractly interpreted"
    " (affine domain, helper methods inlined, 'a or b' fall-backs, emptiness branches) and on every path returns "
    "random.choice of / an element of the offered alternatives or a comprehension-filtered copy; a chooser the "
    "affine engine cannot follow is instead interpreted by the finite-model interpreter on three alternatives "
    "with scripted distances and must return one of them; (R5) every loop or comprehension over the declared "
    "fields whose result reaches the constructor contributes exactly one constructor argument per field on every "
    "path; (R6) explicit raises reachable from the representation entry points are the library's own error types "
    "or are caught; (R7) the readers of class declarations keep no cache; (R8) creation model "
    "(sa/rules/creationmodel.py): random_node is interpreted with each real decider object (constructors "
    "interpreted) over ALL decision scripts on four model grammars, limits up to 3 (thorough: 4): every "
    "producible program is well-typed for the grammar; (R9) every refinement of a list type is interpreted on "
    "list[X] for X a symbol, a list, a refined symbol and a union: every element is created through the callback "
    "as a value of exactly X, so nested lists stay lists. Small scope: the listed grammars and limits. Not "
    "decided: that typing reflection yields the assumed forms for every user class."
)

CREATE_NODE = "geneticengine.representations.tree.initializations:create_node"
STACK = "geneticengine.representations.stackgggp:create_tree_using_stacks"
TREE_MUTATE = "geneticengine.representations.tree.treebased:mutate"
REQUIRED_FORMS = ("tuple", "annotated", "union", "abstract")
EAGER = {"tuple", "list", "set", "frozenset", "sorted", "sum", "any", "all", "max", "min", "join", "dict", "next", "enumerate_list",
         "len", "Counter", "array"}
LIB_ERRORS = {"geneticengine.exceptions.GeneticEngineError", "geneticengine.grammar.metahandlers.base.SynthesisException",
              "geneticengine.grammar.grammar.InvalidGrammarException"}


# ------------------------------------------------------------------------------------------------ R1
def rule_r1_model(ctx: Ctx) -> None:
    """create_node interpreted on one symbolic type of every form the grammar can present (sa/treemodel.py): on every path
    that does not raise, the value built is a value of that form - base types come from the matching decider primitive, a
    tuple has one created value per parameter in order, a list is a GengyList of created elements, a union / abstract symbol
    yields a created value of one of its members / productions, a production is constructed from one created value per
    declared field in order - and at least one path does not raise."""
    from ..treemodel import (A, ABSTRACT, B, Budget, INT, LIST_A, PROD, Sym, TUPLE_AB, TreeModel, TypeV, UNION_AB, UNKNOWN,
                             create_node_runs, BUILTIN_TYPES)
    cn = ctx.fn(CREATE_NODE)
    model = TreeModel(ctx, fields={PROD: [("f1", A), ("f2", LIST_A)]})
    node = lambda t: Sym("node:" + t.name)   # noqa: E731

    def check(form: str, sym, trace, rv) -> tuple[Optional[bool], str]:
        calls = [e for e in trace if e.kind == "call"]
        created = [e.kwargs.get("starting_symbol") for e in calls if e.name == "create_node"]
        if form in ("int", "float", "bool"):
            prim = [e for e in calls if e.name in ("random_int", "random_float", "random_bool")]
            if len(prim) == 1 and prim[0].name == "random_" + form and rv == Sym(f"random_{form}()"):
                return True, ""
            if rv is UNKNOWN:
                return None, "returned value not followed"
            return False, f"a field of type {form} receives {rv!r} (decider calls: {[e.name for e in prim]})"
        if form == "tuple":
            if rv == [node(A), node(B)]:
                return True, ""
            return (None if rv is UNKNOWN else False), f"tuple[A, B] yields {rv!r}, expected one created value per parameter in order"
        if form == "list":
            gl = [e for e in calls if e.name == "GengyList"]
            if len(gl) == 1 and isinstance(gl[0].args[1], list) and all(x == node(A) for x in gl[0].args[1]) and rv == Sym("gengylist") \
                    and all(c == A for c in created):
                return True, ""
            return (None if rv is UNKNOWN and not gl else False), f"list[A] yields {rv!r} from {[e.name for e in calls]}: not a GengyList of created A values"
        if form == "union":
            if len(created) == 1 and created[0] in (A, B) and rv == node(created[0]):
                return True, ""
            return (None if rv is UNKNOWN else False), f"Union[A, B] yields {rv!r} (created: {created!r}): not a created value of one of its members"
        if form == "abstract":
            if len(created) == 1 and created[0] in model.alternatives[ABSTRACT] and rv == node(created[0]):
                return True, ""
            return (None if rv is UNKNOWN else False), (f"an abstract symbol yields {rv!r} (created: {created!r}): not a created value of one "
                                                         f"of its productions" + ("" if created else "; the abstract class itself is built"))
        if form == "concrete":
            ac = [e for e in calls if e.name == "apply_constructor"]
            if len(ac) == 1 and ac[0].args[0] == PROD and ac[0].args[1] == [node(A), node(LIST_A)] and rv == Sym("built"):
                return True, ""
            return (None if rv is UNKNOWN and not ac else False), \
                f"production P(f1: A, f2: list[A]) is built as {[(e.args[0], e.args[1]) for e in ac]!r} and returns {rv!r}: not one created value per declared field in order"
        return None, "unknown form"

    n = 0
    for form, sym in (("int", BUILTIN_TYPES["int"]), ("float", BUILTIN_TYPES["float"]), ("bool", BUILTIN_TYPES["bool"]),
                      ("tuple", TUPLE_AB), ("list", LIST_A), ("union", UNION_AB), ("abstract", ABSTRACT), ("concrete", PROD)):
        try:
            runs = create_node_runs(ctx, model, sym)
        except Budget:
            ctx.ob("C01.R1", cn, cn.node, f"create_node builds a value of the {form} form for a {form} type", None, "too many interpretations")
            continue
        verdict: Optional[bool] = True
        why = ""
        live = 0
        for trace, rv, notes in runs:
            if any(e.kind == "raise" for e in trace):
                continue
            live += 1
            ok, w = check(form, sym, trace, rv)
            if ok is False or (ok is None and verdict is True):
                verdict, why = ok, w
                if ok is False:
                    break
        if live == 0:
            verdict, why = False, f"create_node raises on every path for a {form} type ({sym.name})"
        n += 1
        ctx.ob("C01.R1", cn, cn.node, f"create_node builds a value of the {form} form for a {form} type", verdict, why,
               witness={"type": sym.name, "paths": live})
    ctx.floor("C01.R1", n, 8, "type forms interpreted through create_node")


def rule_r1(ctx: Ctx) -> None:
    rule_r1_model(ctx)
    rule_r1_stack(ctx)


def rule_r1_stack(ctx: Ctx) -> None:
    """The stack mapper is interpreted (sa/rules/stackmodel.py) with scripted sequences of target types: what it builds for
    each type form must be a value of that form made of values popped from the stacks of the declared types."""
    from ..modelinterp import Budget, Sym, TypeV, UNKNOWN
    from .stackmodel import BOOL, INT, kind_of, run_stack
    fn = ctx.fn(STACK)
    P = TypeV("class", "P")
    ABS = TypeV("class", "Abs")
    U = TypeV("union", "Union[int, bool]", (INT, BOOL))
    L = TypeV("list", "list[int]", (INT,))
    T = TypeV("tuple", "tuple[int, bool]", (INT, BOOL))
    MH = Sym("MH")
    ANN = TypeV("annotated", "Annotated[int, MH]", (INT,), MH)

    def built(trace):
        return [(e.args[0], e.args[1]) for e in trace if e.kind == "call" and e.name == "apply_constructor" and len(e.args) == 2]

    def verdict(desc, start, script, fields, alts, mentioned, check):
        try:
            runs = run_stack(ctx, start, script, fields, alts, mentioned)
        except Budget:
            ctx.ob("C01.R1", fn, fn.node, desc, None, "too many interpretations")
            return
        ok: Optional[bool] = True
        why = ""
        for trace, rv, notes in runs:
            o, w = check(trace, rv)
            if o is False or (o is None and ok is True):
                ok, why = o, w
            if o is False:
                break
        ctx.ob("C01.R1", fn, fn.node, desc, ok, why)

    # (a) a production from base values of the declared kinds
    def chk_a(trace, rv):
        b = [x for x in built(trace) if x[0] == P]
        if not b:
            return None, "the production is never built in the model"
        kinds = [kind_of(v) for v in b[-1][1]] if isinstance(b[-1][1], list) else None
        return (kinds == ["int", "bool"]), f"P(f1: int, f2: bool) is built from values of kinds {kinds}"
    verdict("stack mapper: a production is built from one value per field, each popped from the stack of the field's declared type",
            P, [INT, BOOL, P], {P: [("f1", INT), ("f2", BOOL)]}, {}, [INT, BOOL, P], chk_a)

    # (b) a field never receives a value of another base type
    def chk_b(trace, rv):
        for t, args in built(trace):
            if t == P and isinstance(args, list) and any(kind_of(v) != "int" for v in args):
                return False, (f"with an empty int stack and a bool on the bool stack, P(f: int) is built from {args!r}: an int field receives a "
                               f"value of another base type")
        return True, ""
    verdict("stack mapper: an int field is never served from the stack of another base type", P, [BOOL, P, P], {P: [("f", INT)]}, {}, [INT, BOOL, P], chk_b)

    # (b2) a production that cannot be completed yet leaves no value on a stack of another type: whatever is built afterwards still has one value of
    # each field's declared kind (values taken for the earlier fields may be lost or handed back to the stacks they came from, nothing else)
    def chk_b2(trace, rv):
        for t, args in built(trace):
            if t == P and isinstance(args, list) and [kind_of(v) for v in args] != ["int", "bool"]:
                return False, (f"after an attempt at P(f1: int, f2: bool) that failed for want of a bool, the next attempt builds P from {args!r}: a value "
                               f"taken for one field ended up on the stack of another type")
        return True, ""
    verdict("stack mapper: a production attempt that fails midway leaves no value on the stack of another type", P, [INT, INT, P, P, INT, P],
            {P: [("f1", INT), ("f2", BOOL)]}, {}, [INT, BOOL, P], chk_b2)

    # (c) abstract symbol -> a built production of it
    def chk_c(trace, rv):
        if rv is UNKNOWN and any(e.kind == "raise" for e in trace):
            return False, f"mapping fails ({[e.name for e in trace if e.kind == 'raise'][0]}) although the script provides every value"
        if rv is UNKNOWN:
            return None, "the value the mapper returns is not followed"
        return (rv == Sym("built")), f"the start symbol Abs is mapped to {rv!r}, expected the production built for it"
    verdict("stack mapper: an abstract symbol is served by a value built for one of its productions", ABS, [INT, BOOL, P, ABS],
            {P: [("f1", INT), ("f2", BOOL)]}, {ABS: [P]}, [INT, BOOL, P, ABS], chk_c)

    # (d) union, (e) list, (f) tuple fields
    for form, ty, script, want in (("union", U, [INT, U, P], lambda a: kind_of(a) in ("int", "bool")),
                                   ("list", L, [INT, INT, L, P], lambda a: isinstance(a, list) and len(a) >= 1 and all(kind_of(x) == "int" for x in a)),
                                   ("tuple", T, [INT, BOOL, T, P], lambda a: isinstance(a, list) and [kind_of(x) for x in a] == ["int", "bool"])):
        def chk(trace, rv, ty=ty, want=want, form=form):
            b = [x for x in built(trace) if x[0] == P]
            wrong = [x for x in built(trace) if x[0] == ty]
            if wrong:
                return False, (f"{ty.name} is built through the concrete fallback as {ty.name}({', '.join(map(repr, wrong[0][1]))}) - the typing alias "
                               f"called with {len(wrong[0][1])} arguments - instead of from its parts")
            if not b:
                return None, "the production is never built in the model"
            a = b[-1][1][0] if isinstance(b[-1][1], list) and b[-1][1] else None
            return bool(want(a)), f"a field of type {ty.name} receives {a!r}"
        verdict(f"stack mapper: a {form} field receives a value of that form made from values of its parts", P, script, {P: [("f", ty)]}, {},
                [INT, BOOL, ty, P], chk)

    # (g) a refined type selected as target type
    def chk_g(trace, rv):
        wrong = [x for x in built(trace) if x[0] == ANN]
        if wrong:
            return False, (f"selecting {ANN.name} as target type reaches the concrete fallback, which calls the alias with {len(wrong[0][1])} arguments: "
                           f"the base type's default value is pushed on the refined type's stack")
        return True, ""
    verdict("stack mapper: a refined type selected as target type is not built through the concrete fallback", P, [ANN, INT, P],
            {P: [("f", INT)]}, {}, [INT, ANN, P], chk_g)


# ------------------------------------------------------------------------------------------------ R2
def _eager_context(u: ast.AST) -> bool:
    p = parent(u)
    if isinstance(p, ast.Call) and u in p.args and (call_name(p) in EAGER or call_name(p) in ("str", "extend", "update", "enumerate")):
        return True
    if isinstance(p, (ast.For, ast.comprehension)) and p.iter is u:
        return True
    if isinstance(p, ast.YieldFrom):
        return True        # 'yield from <iterator>' inside a generator function: drained element by element into the function's own stream
    return isinstance(p, ast.Starred)


def _lazy_helper_consumed(prog, f: FunctionInfo, depth: int) -> bool:
    """f returns a lazy iterator: true when f is called somewhere in the repository and every call consumes the result eagerly
    (or returns it from another such helper)"""
    if depth > 2 or not f.name.startswith("_"):
        return False       # a public function hands the iterator to callers that are not visible
    sites = []
    for g in prog.functions.values():
        if g.module is not f.module:
            continue
        for c in walk_local(g.node, include_nested=True):
            if isinstance(c, ast.Call) and call_name(c) == f.name:
                sites.append((g, c))
    if not sites:
        return False
    for g, c in sites:
        if _eager_context(c):
            continue
        if isinstance(parent(c), ast.Return) and g is not f and _lazy_helper_consumed(prog, g, depth + 1):
            continue
        return False
    return True


_LAZY_COMBINATORS = ("chain", "from_iterable", "islice", "accumulate", "starmap", "zip_longest", "product", "compress", "zip", "map", "filter", "enumerate", "takewhile", "dropwhile")


def _param_consumed_eagerly(prog, f: FunctionInfo, call: ast.Call, arg: ast.AST) -> bool:
    """the lazy value *arg* is handed to a helper of the repository (a module-level function or a method of the same class): true when that helper
    consumes the corresponding parameter on the spot wherever it uses it (an eager builtin, a loop, a lazy combinator that is itself consumed eagerly)"""
    callee = None
    off = 0
    if isinstance(call.func, ast.Name):
        full = prog.resolve_name(f.module, call.func.id)
        callee = prog.functions.get(full) if full else None
    elif isinstance(call.func, ast.Attribute) and isinstance(call.func.value, ast.Name) and call.func.value.id == "self" and f.cls is not None:
        callee = prog.lookup_method(f.cls, call.func.attr)
        off = 1
    if callee is None or not isinstance(callee.node, (ast.FunctionDef, ast.AsyncFunctionDef)):
        return False
    params = callee.params[off:]
    pname = None
    if arg in call.args:
        i = call.args.index(arg)
        pname = params[i] if i < len(params) else None
    else:
        pname = next((k.arg for k in call.keywords if k.value is arg), None)
    if pname is None:
        return False
    uses = [u for u in walk_local(callee.node, include_nested=True) if isinstance(u, ast.Name) and u.id == pname and isinstance(u.ctx, ast.Load)]
    if not uses:
        return False
    for u in uses:
        p = parent(u)
        if isinstance(p, ast.Call) and u in p.args and call_name(p) in EAGER:
            continue
        if isinstance(p, (ast.For, ast.comprehension)) and p.iter is u:
            continue
        if isinstance(p, ast.Call) and u in p.args and call_name(p) in _LAZY_COMBINATORS and _eager_context(p):
            continue
        return False
    return True


def rule_r2(ctx: Ctx) -> None:
    prog = ctx.prog
    n = 0
    scope = [f for f in prog.functions.values() if f.module.name.startswith(("geneticengine.representations", "geneticengine.grammar.metahandlers",
                                                                              "geneticengine.solutions"))]
    for f in sorted(scope, key=lambda x: x.fullname):
        for g in walk_local(f.node, include_nested=True):
            lazy = isinstance(g, ast.GeneratorExp) or (isinstance(g, ast.Call) and isinstance(g.func, ast.Name) and g.func.id in ("map", "filter", "zip", "reversed", "iter"))
            if not lazy:
                continue
            n += 1
            p = parent(g)
            consumer = None
            if isinstance(p, ast.Call) and (g in p.args):
                consumer = call_name(p)
            ok = True
            why = ""
            if isinstance(p, ast.Call) and g in p.args and (consumer in EAGER or consumer in ("str", "extend", "update", "zip", "map", "filter", "enumerate")):
                ok = True
            elif isinstance(p, (ast.For, ast.comprehension)) and p.iter is g:
                ok = True
            elif isinstance(p, ast.Call) and g in p.args and consumer in _LAZY_COMBINATORS and _eager_context(p):
                ok = True      # handed to a lazy combinator whose result is consumed on the spot
            elif isinstance(p, (ast.Starred, ast.YieldFrom)):
                ok = True
            elif isinstance(p, (ast.Assign, ast.AnnAssign, ast.Return, ast.Yield)) or (isinstance(p, ast.Call) and g in p.args) \
                    or isinstance(p, (ast.List, ast.Tuple, ast.Dict, ast.keyword)):
                # stored / returned / handed on: follow one assignment to see where the name goes
                ok = False
                sink = "returned" if isinstance(p, ast.Return) else f"passed to {consumer}()" if isinstance(p, ast.Call) else "stored"
                if isinstance(p, ast.Assign) and isinstance(p.targets[0], ast.Name):
                    uses = [u for u in walk_local(f.node, include_nested=True) if isinstance(u, ast.Name) and u.id == p.targets[0].id
                            and isinstance(u.ctx, ast.Load)]
                    eager_uses = [u for u in uses if isinstance(parent(u), ast.Call) and call_name(parent(u)) in EAGER and u in parent(u).args
                                  or isinstance(parent(u), (ast.For, ast.comprehension)) and parent(u).iter is u
                                  or isinstance(parent(u), ast.Starred)]          # f(*name): unpacked on the spot
                    if uses and len(eager_uses) == len(uses):
                        ok = True
                    else:
                        where = [norm(enclosing_stmt(u))[:50] for u in uses if u not in eager_uses][:2]
                        sink = f"bound to '{p.targets[0].id}' and then used lazily in {where}"
                if isinstance(p, (ast.Assign, ast.AnnAssign)) and isinstance(p.targets[0] if isinstance(p, ast.Assign) else p.target, ast.Attribute):
                    # kept on a helper object (a work-list entry holding an iterator over a node's children): fine when every read of that attribute
                    # in the module consumes it step by step or at once (next(x.attr, ..), for .. in x.attr, list(x.attr)) - it never becomes a value
                    tgt_ = p.targets[0] if isinstance(p, ast.Assign) else p.target
                    loads_ = [u for u in ast.walk(f.module.tree) if isinstance(u, ast.Attribute) and u.attr == tgt_.attr and isinstance(u.ctx, ast.Load)]
                    def _consumed(u):
                        q = parent(u)
                        return (isinstance(q, ast.Call) and u in q.args and call_name(q) in EAGER | {"next"}) \
                            or (isinstance(q, (ast.For, ast.comprehension)) and q.iter is u) or isinstance(q, ast.YieldFrom)
                    if loads_ and all(_consumed(u) for u in loads_):
                        ok = True
                if isinstance(p, ast.Return) and _lazy_helper_consumed(prog, f, 0):
                    ok = True      # a private helper that returns an iterator: every call site consumes it on the spot
                if not ok and isinstance(p, ast.Call) and (g in p.args or any(k.value is g for k in p.keywords)) and _param_consumed_eagerly(prog, f, p, g):
                    ok = True      # handed to a helper of the repository that consumes it on the spot
                why = f"the lazily evaluated object '{norm(g)[:60]}' is {sink}: a generator (not the declared value) ends up in the program"
            ctx.ob("C01.R2", f, g, f"lazy value {norm(g)[:50]} is consumed eagerly", ok, why)
    ctx.floor("C01.R2", n, 2, "generator / lazy-iterator expressions in synthesis code")


# ------------------------------------------------------------------------------------------------ R3
KIND = {"builtins.int": "int", "builtins.float": "float", "builtins.bool": "bool", "builtins.str": "str"}


def kind_of(ctx: Ctx, fn: FunctionInfo, e: ast.AST, depth: int = 0) -> str:
    """'int' | 'float' | 'bool' | 'str' | 'other:<type>' | '?'"""
    t = ctx.types.of(fn.module, e)
    if t.k == "instance" and t.fn in KIND:
        return KIND[t.fn]
    if t.k == "union":
        ks = {KIND.get(a.fn, "other") for a in t.args}
        if len(ks) == 1:
            return ks.pop()
    if not t.is_any() and t.k in ("instance", "tuple", "none"):
        return f"other:{t.s}"
    if depth > 12:
        return "?"
    if isinstance(e, ast.Compare) or (isinstance(e, ast.UnaryOp) and isinstance(e.op, ast.Not)):
        return "bool"
    if isinstance(e, ast.BoolOp):
        ks = {kind_of(ctx, fn, v, depth + 1) for v in e.values}
        return ks.pop() if len(ks) == 1 else "?"
    if isinstance(e, ast.IfExp):
        a, b = kind_of(ctx, fn, e.body, depth + 1), kind_of(ctx, fn, e.orelse, depth + 1)
        return a if a == b else ("float" if {a, b} == {"int", "float"} and False else f"mixed:{a}|{b}")
    if isinstance(e, ast.BinOp):
        a, b = kind_of(ctx, fn, e.left, depth + 1), kind_of(ctx, fn, e.right, depth + 1)
        if "?" in (a, b):
            return "?"
        num = {"int", "float", "bool"}
        if a in num and b in num:
            if isinstance(e.op, ast.Div):
                return "float"
            if isinstance(e.op, ast.Pow):
                # int ** negative int is a float, int ** non-negative int is an int: not a single kind unless the base is float
                return "float" if "float" in (a, b) else "int-or-float"
            if "float" in (a, b):
                return "float"
            return "int"
        if "int-or-float" in (a, b):
            return "int-or-float"
        return "?"
    if isinstance(e, ast.UnaryOp):
        return kind_of(ctx, fn, e.operand, depth + 1)
    if isinstance(e, ast.Name):
        defs = [a for a in walk_local(fn.node) if isinstance(a, (ast.Assign, ast.AnnAssign)) and (
            any(isinstance(t_, ast.Name) and t_.id == e.id for t_ in (a.targets if isinstance(a, ast.Assign) else [a.target])))]
        ks = {kind_of(ctx, fn, a.value, depth + 1) for a in defs if a.value is not None}
        return ks.pop() if len(ks) == 1 else ("?" if not ks else "mixed:" + "|".join(sorted(ks)))
    if isinstance(e, ast.Call):
        nm = call_name(e)
        if isinstance(e.func, ast.Name) and nm in ("int", "float", "bool", "str", "len", "round", "abs"):
            return {"len": "int", "round": "int" if len(e.args) == 1 else "float", "abs": kind_of(ctx, fn, e.args[0], depth + 1) if e.args else "?"}.get(nm, nm)
        if isinstance(e.func, ast.Name) and nm in ("max", "min") and e.args:
            ks = {kind_of(ctx, fn, a, depth + 1) for a in e.args}
            return ks.pop() if len(ks) == 1 else "?"
        tgt = ctx.res.resolve(fn, e)
        if tgt.kind == "repo" and tgt.targets:
            ks = set()
            for g in tgt.targets:
                if is_stub(g.node):
                    continue
                for r in walk_local(g.node):
                    if isinstance(r, ast.Return) and r.value is not None:
                        ks.add(kind_of(ctx, g, r.value, depth + 1))
            if len(ks) == 1:
                return ks.pop()
            return "?" if not ks else "mixed:" + "|".join(sorted(ks))
    if isinstance(e, ast.Subscript):
        return "?"
    return "?"


RANDOM_SOURCE_CLS = "geneticengine.random.sources.RandomSource"


def _float_forcing(ctx: Ctx, f: FunctionInfo, e: ast.AST, bounds: set, depth: int = 0) -> Optional[bool]:
    """True: the value is a float whatever the kind of the bound parameters (a true division, float arithmetic with a float
    operand, float(), a float-returning draw); False: it is a bound parameter itself (or int arithmetic on bounds only);
    None: not followed"""
    if isinstance(e, ast.Constant):
        return isinstance(e.value, float)
    if isinstance(e, ast.Name):
        if e.id in bounds:
            return False
        defs = [a for a in walk_local(f.node) if isinstance(a, ast.Assign) and len(a.targets) == 1 and isinstance(a.targets[0], ast.Name)
                and a.targets[0].id == e.id]
        if len(defs) == 1 and depth < 4:
            return _float_forcing(ctx, f, defs[0].value, bounds, depth + 1)
        return None
    if isinstance(e, ast.BinOp):
        if isinstance(e.op, ast.Div):
            return True
        l, r = _float_forcing(ctx, f, e.left, bounds, depth + 1), _float_forcing(ctx, f, e.right, bounds, depth + 1)
        if isinstance(e.op, (ast.Add, ast.Sub, ast.Mult, ast.Pow)):
            if l is True or r is True:
                return True
            if l is False and r is False:
                return False
            if isinstance(e.left, ast.Constant) and isinstance(e.left.value, int) and r is False:
                return False
            if isinstance(e.right, ast.Constant) and isinstance(e.right.value, int) and l is False:
                return False
        return None
    if isinstance(e, ast.IfExp):
        a, b = _float_forcing(ctx, f, e.body, bounds, depth + 1), _float_forcing(ctx, f, e.orelse, bounds, depth + 1)
        return False if False in (a, b) else True if a is True and b is True else None
    if isinstance(e, ast.Call):
        nm = call_name(e)
        if nm == "float":
            return True
        if nm in ("random", "uniform", "normalvariate", "gauss", "random_float"):
            k = kind_of(ctx, f, e)
            return True if k == "float" or nm in ("random", "uniform", "normalvariate", "gauss") else None
        if nm in ("max", "min") and e.args:
            vs = [_float_forcing(ctx, f, a, bounds, depth + 1) for a in e.args]
            return False if False in vs else True if all(v is True for v in vs) else None
        # a helper of the repository (module-level function or method of the same class): its returns decide, with the bound
        # parameters of this function mapped to the helper's parameters they are passed as
        callee = None
        if isinstance(e.func, ast.Name):
            full = ctx.prog.resolve_name(f.module, e.func.id)
            callee = ctx.prog.functions.get(full) if full else None
            off = 0
        elif isinstance(e.func, ast.Attribute) and isinstance(e.func.value, ast.Name) and e.func.value.id == "self" and f.cls is not None:
            callee = ctx.prog.lookup_method(f.cls, e.func.attr)
            off = 1
        if callee is not None and depth < 3 and isinstance(callee.node, (ast.FunctionDef, ast.AsyncFunctionDef)):
            cb = set()
            for p_, a in zip(callee.params[off:], e.args):
                if isinstance(a, ast.Name) and a.id in bounds:
                    cb.add(p_)
            for k_ in e.keywords:
                if k_.arg and isinstance(k_.value, ast.Name) and k_.value.id in bounds:
                    cb.add(k_.arg)
            rets = [r.value for r in walk_local(callee.node) if isinstance(r, ast.Return) and r.value is not None]
            vs = [_float_forcing(ctx, callee, r, cb, depth + 1) for r in rets]
            if vs:
                return False if False in vs else True if all(v is True for v in vs) else None
        k = kind_of(ctx, f, e)
        return True if k == "float" and not any(isinstance(x, ast.Name) and x.id in bounds for x in ast.walk(e)) else None
    return None


def rule_r3(ctx: Ctx) -> None:
    prog = ctx.prog
    n = 0
    for meth, want in (("random_int", "int"), ("random_float", "float"), ("random_bool", "bool")):
        for f in prog.implementations(DECIDER, meth):
            for r in walk_local(f.node):
                if not (isinstance(r, ast.Return) and r.value is not None):
                    continue
                n += 1
                k = kind_of(ctx, f, r.value)
                ok: Optional[bool]
                if k == want:
                    ok, why = True, ""
                elif k == "?":
                    ok, why = True, ""
                    ctx.notes.append(f"{f.fullname}: kind of '{norm(r.value)[:50]}' could not be inferred (listed, no alarm)")
                else:
                    ok = False
                    why = f"'{norm(r.value)[:60]}' has kind {k}, but {meth} must return exactly {want}: a {k} value is placed in a {want}-typed field"
                ctx.ob("C01.R3", f, r, f"{f.cls.name if f.cls else ''}.{meth} returns exactly {want}", ok, why, witness={"kind": k})
    ctx.floor("C01.R3", n, 6, "decider base-type return statements")
    # random sources: random_float must produce a float whatever the kind of the bounds it is given - refinements forward
    # their bounds as written (FloatRange(0, 9) holds ints), so a bound handed back unchanged puts an int into a float field
    nf = 0
    for f in prog.implementations(RANDOM_SOURCE_CLS, "random_float"):
        bounds = set(f.params[1:3])
        for r in walk_local(f.node):
            if not (isinstance(r, ast.Return) and r.value is not None):
                continue
            nf += 1
            ok = _float_forcing(ctx, f, r.value, bounds)
            ctx.ob("C01.R3", f, r, f"{f.cls.name if f.cls else ''}.random_float returns a float whatever the kind of its bounds", ok,
                   "" if ok else f"'{norm(r.value)[:60]}' hands a bound back as it was given: with integer bounds (FloatRange(0, 9)) an int is "
                                 f"placed in a float-typed field")
    ctx.floor("C01.R3", nf, 3, "random_float return statements of random sources")
    # ... and the other two primitives the deciders hand through unchanged: a coin flip is a bool (0 / 1 is truthy enough for every internal use and
    # still an int in a bool-typed field), a bounded integer draw is an int
    nb = 0
    for meth, want in (("random_bool", "bool"), ("randint", "int")):
        for f in prog.implementations(RANDOM_SOURCE_CLS, meth, include_base=True):
            for r in walk_local(f.node):
                if not (isinstance(r, ast.Return) and r.value is not None):
                    continue
                nb += 1
                k = kind_of(ctx, f, r.value)
                ok = k in (want, "?")
                if k == "?":
                    ctx.notes.append(f"{f.fullname}: kind of '{norm(r.value)[:50]}' could not be inferred (listed, no alarm)")
                ctx.ob("C01.R3", f, r, f"{f.cls.name if f.cls else ''}.{meth} returns exactly {want}", ok,
                       "" if ok else f"'{norm(r.value)[:60]}' has kind {k}, but {meth} must return exactly {want}: the deciders hand the value through, a {k} "
                                     f"value is placed in a {want}-typed field", witness={"kind": k})
    ctx.floor("C01.R3", nb, 4, "random_bool / randint return statements of random sources")
    # base-type branches of the creators
    for fname in (CREATE_NODE, STACK):
        fn = ctx.fn(fname)
        for var, br in dispatch_chains(fn):
            for b in br:
                if b.form in ("int", "float", "bool") and not b.negated:
                    for s in b.body:
                        for c in ast.walk(s):
                            val = None
                            if isinstance(c, ast.Return) and c.value is not None:
                                val = c.value
                            elif isinstance(c, ast.Call) and call_name(c) == "add_to_stacks" and len(c.args) == 3:
                                val = c.args[2]
                            if val is None:
                                continue
                            n += 1
                            k = kind_of(ctx, fn, val)
                            ok = k in (b.form, "?")
                            ctx.ob("C01.R3", fn, c, f"{fn.name}: the {b.form} branch produces a {b.form}", ok,
                                   "" if ok else f"the {b.form} branch yields '{norm(val)[:50]}' of kind {k}")


# ------------------------------------------------------------------------------------------------ R4
def rule_r4(ctx: Ctx) -> None:
    """Every chooser (choose_production_alternatives / choose_options of every decider) is abstractly interpreted
    (sa/rules/depthrules._decider_paths: helper methods inlined, comprehension filters, 'a or b' fall-backs, emptiness
    branches): on every returning path the value is random.choice / choice_weighted of, or an element of, the offered
    list or a list filtered from it by comprehensions that keep the elements themselves."""
    from .depthrules import ChoiceOf, FiltV, ListSrc, OrList, ParamV, _decider_paths, chooser_instances
    from ..absint import SeqV
    prog = ctx.prog
    n = 0
    for meth in ("choose_production_alternatives", "choose_options"):
        for f in chooser_instances(prog, meth):
            outs, _ = _decider_paths(ctx, f)
            verdict: Optional[bool] = True
            why = ""
            k = 0
            for o in outs:
                if o.kind == "raise":
                    continue
                k += 1
                v = o.value
                ok: Optional[bool]
                if o.kind == "return" and isinstance(v, ChoiceOf):
                    parts = v.lst.parts if isinstance(v.lst, OrList) else [v.lst]
                    if all(isinstance(p_, (ListSrc, FiltV)) or (isinstance(p_, SeqV)) for p_ in parts):
                        ok = True
                    else:
                        # the list is something the affine engine does not relate to the offer (a table entry, a memo): for production choosers the
                        # finite-model interpretation below decides; elsewhere it is a finding
                        ok = None if meth == "choose_production_alternatives" else False
                        why = (f"'{norm(v.node)[:60]}' is not drawn from (a filtered copy of) the alternatives it was offered: a production that "
                               f"is not registered for the requested type can be returned")
                elif o.kind == "return" and isinstance(v, (ListSrc, FiltV)):
                    ok, why = False, "the chooser returns a list of alternatives, not one of them"
                elif o.kind == "return" and isinstance(v, ParamV):
                    ok, why = False, f"the chooser returns its parameter '{v.name}', not one of the offered alternatives"
                else:
                    ok, why = None, f"a path ends with {o.kind} / a value the interpretation does not relate to the offered list ({v!r})"[:200]
                if ok is False or (ok is None and verdict is True):
                    verdict = ok
                    bad_node = o.node
                if ok is False:
                    break
            n += k
            if (verdict is None or not k) and meth == "choose_production_alternatives":
                # the affine engine does not follow this spelling (explicit loops, aliases): exhaustive small-scope model instead
                from .choosermodel import chooser_verdicts
                _s, _c, member, nm_ = chooser_verdicts(ctx, f, exact=False)
                if member[0] is not None:
                    verdict, why, k = member[0], member[1], max(k, 1)
                    n += nm_
                # (neither engine relates the returned value to the offer: undecided, not a finding)
            ctx.ob("C01.R4", f, f.node, f"{f.cls.name if f.cls else ''}.{meth} returns one of the offered alternatives", verdict if k else None,
                   why if verdict is not True else "", witness={"paths": k})
    ctx.floor("C01.R4", n, 7, "interpreted chooser paths")


# ------------------------------------------------------------------------------------------------ R5
def rule_r5(ctx: Ctx) -> None:
    n = 0
    for anchor in (CREATE_NODE, STACK, TREE_MUTATE):
        ctx.fn(anchor)   # the three builders must exist; the loops may live in helpers they call
    scope = [f for f in ctx.prog.functions.values() if f.module.name.startswith("geneticengine.representations")
             and isinstance(f.node, (ast.FunctionDef, ast.AsyncFunctionDef))]
    for fn in sorted(scope, key=lambda x: x.fullname):
        for l in walk_local(fn.node):
            if isinstance(l, (ast.ListComp,)) and len(l.generators) == 1 and not l.generators[0].ifs and any(
                    isinstance(c, ast.Call) and call_name(c) == "get_arguments" for c in ast.walk(l.generators[0].iter)):
                # [build(field) for field in get_arguments(t)]: one argument per declared field by construction
                p_ = parent(l)
                feeds = isinstance(p_, (ast.Assign, ast.AnnAssign, ast.Return)) or (isinstance(p_, ast.Call) and call_name(p_) == "apply_constructor")
                if feeds and not (isinstance(l.elt, ast.Name) or isinstance(l.elt, ast.Tuple)):
                    n += 1
                    ctx.ob("C01.R5", fn, l, f"{fn.name}: one argument per declared field (comprehension over the fields)", True, "")
                continue
            if not (isinstance(l, ast.For) and any(isinstance(c, ast.Call) and call_name(c) == "get_arguments" for c in ast.walk(l.iter))):
                continue
            # the argument list: the local list the loop appends to
            apps = [x for b_ in l.body for x in ast.walk(b_) if isinstance(x, ast.Call) and call_name(x) == "append"
                    and isinstance(x.func, ast.Attribute) and isinstance(x.func.value, ast.Name)]
            after = _stmts_after_in_block(l)
            ctor = [c for s in after for c in ast.walk(s) if isinstance(c, ast.Call) and call_name(c) == "apply_constructor" and len(c.args) == 2]
            used_later = set()
            for s_ in after:
                for c in ast.walk(s_):
                    if isinstance(c, ast.Call) and call_name(c) in ("apply_constructor", "GengyList"):
                        used_later |= {a.id for a in c.args if isinstance(a, ast.Name)}
                    if isinstance(c, ast.Return) and isinstance(c.value, ast.Name) and _feeds_constructor(scope, fn):
                        used_later.add(c.value.id)     # a helper that returns the arguments to the function that constructs the node
            names = {x.func.value.id for x in apps} & used_later
            if len(names) != 1:
                # the arguments kept in a dict keyed by the field name (D[argn] = value ... apply_constructor(T, list(D.values()))): one entry per
                # declared field when every path stores exactly once, under the loop's own field-name variable
                keyvar = l.target.elts[0].id if isinstance(l.target, ast.Tuple) and l.target.elts and isinstance(l.target.elts[0], ast.Name) else None
                dstores = [x for b_ in l.body for x in ast.walk(b_) if isinstance(x, ast.Assign) and len(x.targets) == 1 and isinstance(x.targets[0], ast.Subscript)
                           and isinstance(x.targets[0].value, ast.Name) and isinstance(x.targets[0].slice, ast.Name) and x.targets[0].slice.id == keyvar]
                dnames = {x.targets[0].value.id for x in dstores}
                feeds = {d_ for d_ in dnames for s_ in after for c in ast.walk(s_)
                         if isinstance(c, ast.Call) and call_name(c) == "apply_constructor" and any(
                             isinstance(v_, ast.Call) and isinstance(v_.func, ast.Attribute) and v_.func.attr == "values" and isinstance(v_.func.value, ast.Name)
                             and v_.func.value.id == d_ for a_ in c.args for v_ in ast.walk(a_))}
                if keyvar is None or len(feeds) != 1:
                    continue
                dname = next(iter(feeds))
                n += 1
                bad = []
                for pth in paths(l.body, unroll_loops=False):
                    if pth[-1][1] in ("raise",):
                        continue
                    k = sum(1 for st in stmts_on(pth) for x in ast.walk(st) if x in dstores and x.targets[0].value.id == dname)
                    if k != 1 or pth[-1][1] == "break":
                        bad.append(k)
                ctx.ob("C01.R5", fn, l, f"{fn.name}: one argument per declared field on every path", not bad,
                       "" if not bad else f"a path through the field loop stores {bad[0]} values under the field's name: the node is built with the wrong number of fields")
                continue
            n += 1
            argl_id = next(iter(names))
            bad = []
            for pth in paths(l.body, unroll_loops=False):
                if pth[-1][1] in ("raise",):
                    continue
                k = sum(1 for st in stmts_on(pth) for x in ast.walk(st) if isinstance(x, ast.Call) and call_name(x) == "append"
                        and isinstance(x.func, ast.Attribute) and isinstance(x.func.value, ast.Name) and x.func.value.id == argl_id)
                if k != 1 or pth[-1][1] == "break":
                    bad.append(k)
            ctx.ob("C01.R5", fn, l, f"{fn.name}: one argument per declared field on every path", not bad,
                   "" if not bad else f"a path through the field loop appends {bad[0]} arguments: the node is built with the wrong number of fields")
            # same type in the loop header and the constructor call (when the node is constructed in this function)
            if ctor:
                c = ctor[0]
                gt = next(cc for cc in ast.walk(l.iter) if isinstance(cc, ast.Call) and call_name(cc) == "get_arguments")
                same = gt.args and norm(gt.args[0]) == norm(c.args[0])
                ctx.ob("C01.R5", fn, c, f"{fn.name}: the node is constructed from the type whose fields were enumerated", bool(same),
                       "" if same else f"fields of '{norm(gt.args[0]) if gt.args else '?'}' are enumerated but '{norm(c.args[0])}' is constructed")
    ctx.floor("C01.R5", n, 3, "field loops / comprehensions building constructor arguments")


def _feeds_constructor(scope: list, fn: FunctionInfo) -> bool:
    """some call of fn hands its result to apply_constructor / GengyList (directly or through one local name)"""
    for g in scope:
        for c in walk_local(g.node, include_nested=True):
            if not (isinstance(c, ast.Call) and call_name(c) == fn.name):
                continue
            p_ = parent(c)
            if isinstance(p_, ast.Call) and call_name(p_) in ("apply_constructor", "GengyList"):
                return True
            if isinstance(p_, (ast.Assign, ast.AnnAssign)):
                tg = p_.targets[0] if isinstance(p_, ast.Assign) else p_.target
                if isinstance(tg, ast.Name) and any(isinstance(k, ast.Call) and call_name(k) in ("apply_constructor", "GengyList")
                                                    and any(isinstance(a, ast.Name) and a.id == tg.id for a in k.args)
                                                    for k in walk_local(g.node, include_nested=True)):
                    return True
    return False


def _stmts_after_in_block(l: ast.stmt) -> list[ast.stmt]:
    from ..astutil import block_of
    out = []
    cur: ast.AST = l
    while isinstance(cur, ast.stmt):
        try:
            blk, i = block_of(cur)
        except ValueError:
            break
        out += blk[i + 1:]
        cur = parent(cur)
        if isinstance(cur, (ast.FunctionDef, ast.AsyncFunctionDef)):
            break
    return out


# ------------------------------------------------------------------------------------------------ R6
def rule_r6(ctx: Ctx) -> None:
    prog, res = ctx.prog, ctx.res
    entries: list[FunctionInfo] = []
    for m in ("create_genotype", "genotype_to_phenotype"):
        entries += prog.implementations(REPRESENTATION, m)
    entries += prog.implementations(REPR_MUT, "mutate") + prog.implementations(REPR_XO, "crossover")
    reach = res.reachable(entries, max_depth=14)
    # callers map within the reachable set
    callers: dict[str, list[tuple[FunctionInfo, ast.Call]]] = {}
    for f in reach:
        for c in res.calls_in(f):
            for g in res.resolve(prog.function_containing(c) or f, c).targets:
                callers.setdefault(g.fullname, []).append((f, c))
    n = 0
    for f in sorted(reach, key=lambda x: x.fullname):
        for r in walk_local(f.node, include_nested=False):
            if not isinstance(r, ast.Raise) or r.exc is None:
                continue
            exc = r.exc.func if isinstance(r.exc, ast.Call) else r.exc
            d = dotted(exc)
            if d is None:
                continue
            full = prog.resolve_name(f.module, d) or d
            n += 1
            lib = full in prog.classes and (full in LIB_ERRORS or any(b in LIB_ERRORS for b in prog.all_bases(prog.classes[full])))
            if lib:
                ctx.ob("C01.R6", f, r, f"raise {d} is a library error", True, "")
                continue
            if _caught_locally(r, d) or _caught_by_all_callers(f, d, callers, reach):
                ctx.ob("C01.R6", f, r, f"raise {d} is caught inside the library", True, "")
                continue
            ctx.ob("C01.R6", f, r, f"raise {d} escapes a representation entry point", False,
                   f"'{norm(r)[:60]}' can propagate out of create / map / mutate / crossover: creation fails with {d}, not with the "
                   f"library's own error type")
    ctx.floor("C01.R6", n, 4, "explicit raise statements reachable from representation entry points")
    ctx.extra["functions_reachable_from_entry_points"] = len(reach)


def _handler_catches(h: ast.ExceptHandler, name: str) -> bool:
    if h.type is None:
        return True
    names = [dotted(x) for x in (h.type.elts if isinstance(h.type, ast.Tuple) else [h.type])]
    short = name.split(".")[-1]
    return any(n in (name, short, "Exception", "BaseException") or (short in ("IndexError", "KeyError") and n == "LookupError") for n in names if n)


def _caught_locally(node: ast.AST, name: str) -> bool:
    child = node
    for a in ancestors(node):
        if isinstance(a, ast.Try) and child in a.body and any(_handler_catches(h, name) for h in a.handlers):
            return True
        if isinstance(a, (ast.FunctionDef, ast.AsyncFunctionDef)):
            return False
        child = a
    return False


def _caught_by_all_callers(f: FunctionInfo, name: str, callers, reach, depth: int = 0) -> bool:
    cs = callers.get(f.fullname, [])
    if not cs or depth > 3:
        return False
    for (g, call) in cs:
        if _caught_locally(call, name):
            continue
        if not _caught_by_all_callers(g, name, callers, reach, depth + 1):
            return False
    return True


def run(ctx: Ctx) -> None:
    from .c02 import list_refinement_rule
    ctx.rule("C01.R9", "list refinements create every element as a value of the declared element type: nested lists stay lists (shared with C02.R7)")
    ctx.floor("C01.R9", list_refinement_rule(ctx, "C01.R9"), 8, "list refinement x element type")
    from .creationmodel import creation_rule
    ctx.rule("C01.R8", "over ALL decision sequences on the creation model grammars, every program depth-limited creation produces is well-typed")
    ctx.floor("C01.R8", creation_rule(ctx, "C01.R8", "typed"), 20, "model grammar x decider x limit")
    ctx.rule("C01.R1", "creators dispatch tuple / annotated / union / abstract forms with satisfiable form predicates")
    ctx.rule("C01.R2", "no lazily evaluated object flows into a program")
    ctx.rule("C01.R3", "decider base-type primitives and creator base branches return exactly the declared base type")
    ctx.rule("C01.R4", "choosers return an element of the offered alternatives")
    ctx.rule("C01.R5", "one constructor argument per declared field on every path; node built from the enumerated type")
    ctx.rule("C01.R6", "explicit raises escaping the representation entry points are library errors")
    ctx.rule("C01.R7", "declaration readers keep no cache (re-declared field types are honoured)")
    rule_r1(ctx)
    rule_r2(ctx)
    rule_r3(ctx)
    rule_r4(ctx)
    rule_r5(ctx)
    rule_r6(ctx)
    from .c08 import process_state_rule
    n7 = process_state_rule(ctx, "C01.R7", ("geneticengine.grammar",))
    ctx.ob("C01.R7", None, None, "grammar package scanned for memoisation / module-level state", True, f"{n7} candidate sites", module="geneticengine/grammar")
    ctx.assumptions += ["get_type_hints / typing reflection yields the type forms the dispatchers test for (run-time reflection is not analysed)",
                        "assert statements are out of scope (their conditions are run-time values)"]
