"""C13 - fitness is computed from the phenotype, once, and counted honestly (structural clauses)."""
from __future__ import annotations

import ast
from typing import Any, Optional

from ..astutil import call_name, guards, is_self_attr, names_read, same_expr
from ..frontend import AnalysisError, FunctionInfo, dotted, enclosing_stmt, norm, parent, walk_local
from ..paths import conds_on, paths, stmts_on
from ..report import Ctx
from .common import EVALUATOR, INDIVIDUAL, PROBLEM, check_yields_all, receiver_may_be

LEVEL_TEXT = (
    "Finite-model interpretation of the source (abstract interpretation over symbolic individuals; nothing is "
    "executed) plus who-may-call rules. (R1/R2) every Evaluator.evaluate_async is interpreted, with the "
    "evaluator's own methods and local closures inlined, on ten batches of symbolic individuals (cached / "
    "uncached / duplicated / empty); pool maps apply the mapped closure per element and unordered maps return "
    "results in reverse order; required: eval_single exactly once per distinct uncached individual and never for "
    "a cached one, as many register_evaluation calls, set_fitness(problem, <the value computed for that very "
    "individual>) once each, the whole batch yielded in order. (R3) eval_single returns problem.evaluate(<that "
    "individual's phenotype>), called once; every Problem class is interpreted (__init__ then evaluate) with a "
    "symbolic fitness function: components are the raw values, held in a list of the library's own (not the "
    "object the fitness function returned), and the default aggregate is -f/+f (single) or the sum of (-f if "
    "minimised else f) for list and bool 'minimize'. (R2, shipped state) an individual pickled for a worker "
    "carries its cached program: default pickling does; a custom __getstate__ / __setstate__ pair is interpreted,"
    " and a program left behind is reported when C07's provenance analysis finds a mapping on this tree that is "
    "not a pure function of the genotype. (R4) the counter is written only by register_evaluation, which only "
    "evaluators call on themselves; Problem.evaluate is called only from eval_single (allow-list with reasons). "
    "(R5) in every interpreted trace of every Problem.evaluate, with and without user aggregate callables, the "
    "fitness function is invoked exactly once. Decides these shapes for all populations, caches and worker "
    "timings; does not run an evaluator."
)


BATCHES = [
    ((), ()),
    (("u1",), ()),
    (("c1",), ("c1",)),
    (("u1", "c1"), ("c1",)),
    (("c1", "u1"), ("c1",)),
    (("u1", "u2"), ()),
    (("u1", "u1"), ()),
    (("u1", "c1", "u2"), ("c1",)),
    (("u2", "u1", "u2"), ()),
    (("c1", "c2"), ("c1", "c2")),
]
THOROUGH_BATCHES = BATCHES + [
    (("u1", "u2", "u3"), ()),
    (("u1", "c1", "u1", "c1"), ("c1",)),
    (("c1", "u1", "u2", "u1"), ("c1",)),
    (("u3", "u2", "u1", "u3"), ()),
    (("c1", "c2", "u1", "c1"), ("c1", "c2")),
]
ORDERED_MAPS = ("map", "imap", "starmap")
UNORDERED_MAPS = ("uimap", "imap_unordered", "amap", "map_async", "uimap_unordered")


def _evaluator_model(ctx: Ctx, cls, f: FunctionInfo, batch: tuple, cached0: tuple):
    """Interpret <cls>.evaluate_async(problem, batch) over symbolic individuals; has_fitness / set_fitness are a little
    state machine (the cache), eval_single returns the symbolic value 'fit:<individual>', pool maps apply the mapped local
    function to each element (unordered maps return results in reverse order: an adversarial schedule)."""
    from ..modelinterp import Interp, Sym, UNKNOWN, Effect, LocalFn, _NONE
    state = {"cached": set(cached0), "maps": []}

    def reset():
        state["cached"] = set(cached0)
        state["maps"] = []

    def atom(it, e, env):
        return None

    def call_model(it, call, env, args, kwargs):
        nm = call_name(call)
        recv = it.ev(call.func.value, env, 9) if isinstance(call.func, ast.Attribute) else None
        if nm == "has_fitness" and isinstance(recv, Sym):
            return recv.tag in state["cached"]
        if nm == "set_fitness" and isinstance(call.func, ast.Attribute):
            it.trace.append(Effect("call", "set_fitness", tuple(args), kwargs, node=call, fn=it.fn_stack[-1], recv=recv))
            if isinstance(recv, Sym):
                state["cached"].add(recv.tag)
            return _NONE
        if nm == "eval_single" and isinstance(call.func, ast.Attribute) and isinstance(call.func.value, ast.Name) \
                and call.func.value.id == "self":
            it.trace.append(Effect("call", "eval_single", tuple(args), kwargs, node=call, fn=it.fn_stack[-1]))
            ind = args[1] if len(args) > 1 else kwargs.get("individual")
            return Sym("fit:" + ind.tag) if isinstance(ind, Sym) else UNKNOWN
        if nm == "register_evaluation" and isinstance(call.func, ast.Attribute):
            it.trace.append(Effect("call", "register_evaluation", (), {}, node=call, fn=it.fn_stack[-1]))
            return _NONE
        if nm in ORDERED_MAPS + UNORDERED_MAPS and len(args) >= 2 and isinstance(args[1], list) \
                and (isinstance(call.func, ast.Attribute) or nm == "map"):
            fn_ = args[0]
            state["maps"].append(nm)
            if isinstance(fn_, LocalFn):
                out = [it.call_local(fn_, [x], {}, 1, env) for x in args[1]]
            elif fn_ is not UNKNOWN and fn_ is not None:
                out = [it.apply(fn_, [x], env, 1) for x in args[1]]      # functools.partial(self.eval_single, problem), a bound method ...
                if any(o_ is UNKNOWN for o_ in out):
                    return UNKNOWN
            else:
                return UNKNOWN
            return out if nm in ORDERED_MAPS else list(reversed(out))
        return None

    it = Interp(ctx.prog, cls, atom, call_model, max_depth=5, max_traces=32)
    it.on_start = reset
    inds = [Sym(t) for t in batch]
    env = {"self": Sym("self"), f.params[1]: Sym("problem"), f.params[2]: inds}
    return it.run(f, env), state


def yields_verdict(ctx: Ctx, cls, f: FunctionInfo) -> tuple[Optional[bool], str]:
    """does evaluate_async hand back the whole batch, in order, on every model batch? (used by C12.R5)"""
    from ..modelinterp import Sym, Budget
    und = ""
    for batch, cached in BATCHES:
        try:
            results, state = _evaluator_model(ctx, cls, f, batch, cached)
        except Budget:
            und = "too many interpretations"
            continue
        for trace, rv, notes in results:
            ys: list = []
            for e in trace:
                if e.kind == "yield":
                    v = e.args[0]
                    if e.name == "from":
                        if isinstance(v, list):
                            ys.extend(x.tag if isinstance(x, Sym) else "?" for x in v)
                        else:
                            ys.append("?")
                    else:
                        ys.append(v.tag if isinstance(v, Sym) else "?")
            if "?" in ys:
                und = und or "yielded values not followed"
            elif ys != list(batch):
                return False, (f"batch {list(batch)} (cached: {list(cached)}) yields {ys}: an individual that is not handed back is never "
                               f"compared with the best")
    return (None, und) if und else (True, "")


def rule_r1_r2(ctx: Ctx) -> None:
    """Model check: every evaluate_async implementation is interpreted on ten batches of symbolic individuals (cached /
    uncached, duplicates, empty) with methods of the evaluator inlined through the class hierarchy.  Reference semantics:
    eval_single exactly once for each distinct individual without a cached fitness and never for a cached one;
    register_evaluation as often as eval_single; each evaluated individual gets set_fitness(problem, <its own value>)
    once; the batch is yielded complete and in order."""
    from ..modelinterp import Sym, UNKNOWN, Budget
    prog = ctx.prog
    n = 0
    for cls in prog.subclasses(EVALUATOR):
        f = prog.lookup_method(cls, "evaluate_async")
        if f is None or f.cls is None or f.cls.fullname == EVALUATOR:
            continue
        n += 1
        fails: dict[str, tuple] = {}
        undecided = []
        used_maps = set()
        for batch, cached in (BATCHES if ctx.tier != "thorough" else THOROUGH_BATCHES):
            try:
                results, state = _evaluator_model(ctx, cls, f, batch, cached)
            except Budget:
                undecided.append(f"batch {batch}: too many interpretations")
                continue
            want_eval = []
            for t in batch:
                if t not in cached and t not in want_eval:
                    want_eval.append(t)
            for trace, rv, notes in results:
                evals, regs, sets, ys = [], 0, [], []
                opaque = False
                for e in trace:
                    if e.kind == "call" and e.name == "eval_single":
                        a = e.args[1] if len(e.args) > 1 else e.kwargs.get("individual")
                        evals.append(a.tag if isinstance(a, Sym) else "?")
                    elif e.kind == "call" and e.name == "register_evaluation":
                        regs += 1
                    elif e.kind == "call" and e.name == "set_fitness":
                        val = e.args[1] if len(e.args) > 1 else e.kwargs.get("fitness", UNKNOWN)
                        prob = e.args[0] if e.args else e.kwargs.get("problem")
                        sets.append((e.recv.tag if isinstance(e.recv, Sym) else "?", val.tag if isinstance(val, Sym) else "?",
                                     prob.tag if isinstance(prob, Sym) else "?"))
                    elif e.kind == "yield":
                        v = e.args[0]
                        if e.name == "from":
                            if isinstance(v, list):
                                ys.extend(x.tag if isinstance(x, Sym) else "?" for x in v)
                            else:
                                opaque = True
                        else:
                            ys.append(v.tag if isinstance(v, Sym) else "?")
                for mp in state["maps"]:
                    used_maps.add(mp)
                scen = {"batch": list(batch), "cached": list(cached)}
                if "?" in evals or any("?" in s_ for s_ in sets) or opaque or "?" in ys:
                    undecided.append(f"batch {list(batch)}: the interpreter lost track of an individual or value")
                    continue
                if sorted(evals) != sorted(want_eval):
                    extra = [t for t in evals if t in cached]
                    why = (f"individuals {extra} already have a fitness for the problem and are evaluated again" if extra else
                           f"eval_single runs for {evals}, expected once for each of {want_eval}")
                    fails.setdefault("eval_single exactly once per distinct individual without cached fitness",
                                     ("C13.R1", why, dict(scen, evaluated=evals)))
                if regs != len(evals):
                    fails.setdefault("register_evaluation count equals the number of evaluations",
                                     ("C13.R1", f"{len(evals)} evaluation(s) but {regs} register_evaluation call(s) "
                                                f"for batch {list(batch)} (cached: {list(cached)})",
                                      dict(scen, evaluations=len(evals), registered=regs)))
                want_sets = sorted((t, "fit:" + t, "problem") for t in evals)
                if sorted(sets) != want_sets:
                    wrong = [s_ for s_ in sets if s_[1] != "fit:" + s_[0]]
                    rule = "C13.R2" if state["maps"] else "C13.R1"
                    why = (f"set_fitness stores {wrong[0][1]} on individual {wrong[0][0]}: fitness values are attached to "
                           f"the wrong individuals" + (f" (results of pool.{state['maps'][0]} in completion order)"
                                                        if state["maps"] and state["maps"][0] in UNORDERED_MAPS else "")
                           if wrong else f"set_fitness calls {sets}, expected {want_sets}")
                    fails.setdefault("each evaluated individual stores its own value once (set_fitness(problem, value))",
                                     (rule, why, dict(scen, stored=[list(x) for x in sets])))
                if ys != list(batch):
                    fails.setdefault("the whole batch is yielded, in order",
                                     ("C13.R1", f"batch {list(batch)} (cached: {list(cached)}) yields {ys}: trackers only see "
                                                f"what is yielded", dict(scen, yielded=ys)))
        aspects = ["eval_single exactly once per distinct individual without cached fitness",
                   "register_evaluation count equals the number of evaluations",
                   "each evaluated individual stores its own value once (set_fitness(problem, value))",
                   "the whole batch is yielded, in order"]
        for a in aspects:
            if a in fails:
                rule, why, wit = fails[a]
                ctx.ob(rule, f, f.node, f"{cls.name}: {a}", False, why, witness=wit)
            elif undecided:
                ctx.ob("C13.R1", f, f.node, f"{cls.name}: {a}", None, "; ".join(sorted(set(undecided))[:3]))
            else:
                rule = "C13.R2" if (a.startswith("each evaluated") and used_maps) else "C13.R1"
                ctx.ob(rule, f, f.node, f"{cls.name}: {a}", True,
                       f"interpreted on {len(BATCHES)} batches" + (f"; pool maps modelled: {sorted(used_maps)}" if used_maps else ""))
    ctx.floor("C13.R1", n, 2, "evaluate_async implementations")


def rule_r3(ctx: Ctx) -> None:
    """eval_single is interpreted on a symbolic individual: on every path it returns problem.evaluate(<that individual's
    phenotype>), evaluated exactly once.  The default multi-objective aggregate is part of the Problem model (rule_r5)."""
    from ..modelinterp import Interp, Sym, UNKNOWN, Effect, Budget
    prog = ctx.prog
    n = 0
    seen = set()
    for c in prog.subclasses(EVALUATOR, strict=False):
        f = prog.lookup_method(c, "eval_single")
        if f is None or f in seen:
            continue
        seen.add(f)
        n += 1

        def call_model(it, call, env, args, kwargs):
            nm = call_name(call)
            recv = it.ev(call.func.value, env, 9) if isinstance(call.func, ast.Attribute) else None
            if nm == "get_phenotype" and isinstance(recv, Sym):
                return Sym("phen:" + recv.tag)
            if nm == "evaluate" and isinstance(recv, Sym) and recv.tag == "problem":
                a = args[0] if args else kwargs.get("phenotype")
                it.trace.append(Effect("call", "evaluate", (a,), {}, node=call, fn=it.fn_stack[-1]))
                return Sym("fitof:" + (a.tag if isinstance(a, Sym) else "?"))
            return None

        it = Interp(prog, c, lambda *_: None, call_model, max_depth=4)
        env = {"self": Sym("self"), f.params[1]: Sym("problem"), f.params[2]: Sym("ind")}
        try:
            results = it.run(f, env)
        except Budget:
            ctx.ob("C13.R3", f, f.node, "eval_single = problem.evaluate(individual.get_phenotype())", None, "too many interpretations")
            continue
        ok, why = True, ""
        for trace, rv, notes in results:
            evs = [e for e in trace if e.kind == "call" and e.name == "evaluate"]
            if any(e.kind == "raise" for e in trace):
                continue
            if len(evs) != 1:
                ok, why = False, f"problem.evaluate is called {len(evs)} times in eval_single"
            elif not (isinstance(evs[0].args[0], Sym) and evs[0].args[0].tag == "phen:ind"):
                ok, why = False, f"the value handed to problem.evaluate is {evs[0].args[0]!r}, not this individual's phenotype"
            elif not (isinstance(rv, Sym) and rv.tag == "fitof:phen:ind"):
                ok = None if rv is UNKNOWN else False
                why = f"eval_single returns {rv!r}, not the result of problem.evaluate(individual.get_phenotype())"
            if ok is not True:
                break
        ctx.ob("C13.R3", f, f.node, "eval_single = problem.evaluate(individual.get_phenotype())", ok, why)
    ctx.floor("C13.R3", n, 1, "eval_single definitions")


def _reads_attr(n: ast.AST, attr: str) -> bool:
    return any(isinstance(x, ast.Attribute) and x.attr == attr for x in ast.walk(n))


def rule_r4(ctx: Ctx) -> None:
    prog, res = ctx.prog, ctx.res
    # (a) the counter
    ev = prog.get_class(EVALUATOR)
    reg = ev.methods.get("register_evaluation")
    num = ev.methods.get("number_of_evaluations")
    if reg is None or num is None:
        raise AnalysisError("C13.R4: Evaluator.register_evaluation/number_of_evaluations missing")
    rets = [r for r in walk_local(num.node) if isinstance(r, ast.Return)]
    counter = rets[0].value.attr if len(rets) == 1 and is_self_attr(rets[0].value) else None
    if counter is None:
        ctx.ob("C13.R4", num, num.node, "number_of_evaluations returns the counter", False,
               "number_of_evaluations does not return a plain counter attribute")
        return
    n = 0
    for f in prog.functions.values():
        for nd in walk_local(f.node):
            tg = []
            if isinstance(nd, ast.Assign):
                tg = nd.targets
            elif isinstance(nd, (ast.AugAssign, ast.AnnAssign)):
                tg = [nd.target]
            for t in tg:
                if isinstance(t, ast.Attribute) and t.attr == counter:
                    owner = res.enclosing_class(f)
                    is_ev = owner is not None and prog.is_subclass(owner, EVALUATOR) and is_self_attr(t)
                    if not is_ev and not receiver_may_be(ctx, f, t.value, EVALUATOR):
                        continue
                    n += 1
                    if f.name == "__init__" and is_ev:
                        ok = isinstance(nd, ast.Assign) and isinstance(nd.value, ast.Constant) and nd.value.value == 0
                        ctx.ob("C13.R4", f, nd, f"counter initialised: {norm(nd)}", ok, "" if ok else "counter does not start at 0")
                    elif f is reg:
                        ok = isinstance(nd, ast.AugAssign) and isinstance(nd.op, ast.Add) \
                            and isinstance(nd.value, ast.Constant) and nd.value.value == 1 and not guards(nd, stop=f.node)
                        ctx.ob("C13.R4", f, nd, f"register_evaluation: {norm(nd)}", ok,
                               "" if ok else "register_evaluation does not add exactly one, unconditionally")
                    else:
                        ctx.ob("C13.R4", f, nd, f"foreign write to evaluation counter: {norm(nd)}", False,
                               "the evaluation counter is modified outside register_evaluation")
    ctx.floor("C13.R4", n, 2, "stores to the evaluation counter")
    # register_evaluation callers: only evaluate_async implementations
    for f in prog.functions.values():
        for c in res.calls_in(f, include_nested=False):
            if call_name(c) == "register_evaluation":
                owner = res.enclosing_class(f)
                ok = owner is not None and prog.is_subclass(owner, EVALUATOR) and is_self_attr(c.func)
                ctx.ob("C13.R4", f, c, "register_evaluation caller", ok,
                       "" if ok else "evaluations are counted outside an evaluator (the pairing with eval_single is "
                                     "model-checked only for evaluators, R1)")
    # (b) who calls Problem.evaluate
    ALLOWED = {
        "geneticengine.evaluation.api:Evaluator.eval_single": "the one counted evaluation path",
        "geneticengine.problems:wrap_depth_minimization.<locals>.w": "inner problem of the depth-penalty wrapper; the outer problem is the one counted",
        "geneticengine.solutions.individual:Individual.ensure_fitness": "uncounted fallback, tolerated only when dominated by an evaluator call (checked below)",
    }
    prob_eval = set(prog.implementations(PROBLEM, "evaluate", include_base=True))
    prob_eval |= {m for c in prog.subclasses(PROBLEM, strict=False) for k, m in c.methods.items() if k == "evaluate"}
    nsites = 0
    for f in prog.functions.values():
        for c in res.calls_in(f, include_nested=False):
            if call_name(c) != "evaluate" or not isinstance(c.func, ast.Attribute):
                continue
            t = res.resolve(f, c)
            if t.kind != "repo" or not any(g in prob_eval for g in t.targets):
                continue
            nsites += 1
            ok = f.fullname in ALLOWED
            if ok:
                ctx.accept("C13.R4", f.loc(c), ALLOWED[f.fullname])
            ctx.ob("C13.R4", f, c, "caller of Problem.evaluate", ok,
                   "" if ok else "Problem.evaluate is called outside Evaluator.eval_single: the fitness function runs "
                                 "without being counted (and possibly again for the same individual)")
    ctx.floor("C13.R4", nsites, 2, "resolved Problem.evaluate call sites")
    # (c) ensure_fitness users: Individual.key_function uses must be preceded by an evaluator call in the same function
    for f in prog.functions.values():
        for c in res.calls_in(f, include_nested=False):
            if call_name(c) == "key_function" and isinstance(c.func, ast.Attribute) and dotted(c.func.value) == "Individual":
                st = enclosing_stmt(c)
                top = st
                while parent(top) is not f.node:
                    top = parent(top)
                idx = f.node.body.index(top)
                before = ast.Module(body=f.node.body[:idx], type_ignores=[])
                def evaluates(fn_, tree, depth=0) -> bool:
                    for x in ast.walk(tree):
                        if isinstance(x, ast.Call) and call_name(x) == "evaluate" and isinstance(x.func, ast.Attribute) \
                                and receiver_may_be(ctx, fn_, x.func.value, EVALUATOR):
                            return True
                        if isinstance(x, ast.Call) and depth < 2:
                            t_ = res.resolve(fn_, x)
                            if t_.kind == "repo" and any(evaluates(g, g.node, depth + 1) for g in t_.targets[:3]):
                                return True
                    return False
                ok = evaluates(f, before)
                ctx.ob("C13.R4", f, c, "Individual.key_function used after an evaluator pass", ok,
                       "" if ok else "key_function's uncounted ensure_fitness fallback can evaluate individuals here")


def _problem_model(ctx: Ctx, cls, init: FunctionInfo, ev: FunctionInfo, minimize, n_comp: Optional[int], given: dict):
    """Interpret <cls>.__init__(...) and then <cls>.evaluate(phenotype): the user's fitness function is the symbolic
    callable FF (returning one signed symbolic number, or a list of them), other user callables are symbolic too."""
    from ..modelinterp import Interp, Sym, SVal, UNKNOWN
    prog = ctx.prog

    def sym_result(fv, args):
        if fv.tag == "FF":
            r_ = SVal(1, "f") if n_comp is None else [SVal(1, f"f{i + 1}") for i in range(n_comp)]
            if isinstance(r_, list):
                _problem_model.returned.append(r_)      # the very object the user's function handed out (it may reuse / rewrite it later)
            return r_
        return Sym(fv.tag + "()")
    _problem_model.returned = []

    it = Interp(prog, cls, lambda *_: None, None, record_calls=("Fitness",), max_depth=5, max_traces=64)
    it.sym_result = sym_result
    env0: dict[str, Any] = {"self": Sym("self")}
    a = init.node.args
    names = [x.arg for x in a.posonlyargs + a.args + a.kwonlyargs][1:]
    defaults = dict(zip([x.arg for x in a.args][len(a.args) - len(a.defaults):], a.defaults))
    defaults.update({k.arg: d for k, d in zip(a.kwonlyargs, a.kw_defaults) if d is not None})
    for p_ in names:
        if p_ in ("fitness_function", "ff"):
            env0[p_] = Sym("FF")
        elif p_ == "minimize":
            env0[p_] = minimize
        elif p_ in given:
            env0[p_] = given[p_]
        elif p_ in defaults:
            env0[p_] = it.ev(defaults[p_], {}, 0)
        else:
            env0[p_] = Sym(p_)
    env = {"self": Sym("self"), ev.params[1]: Sym("phenotype")}
    return it.run(ev, env, prelude=(init, env0))


def rule_r5(ctx: Ctx, alias_rid: Optional[str] = None) -> None:
    """Model check of every Problem class: __init__ and evaluate are interpreted with a symbolic fitness function.  On every
    trace the fitness function is invoked exactly once (R5); the Fitness built has the raw components and, with the default
    aggregate, 'sum of (-f if minimised else f)' - single: -f / +f (R3)."""
    from ..modelinterp import Sym, SVal, SumVal, UNKNOWN, Budget
    prog = ctx.prog
    n = 0
    for cls in prog.subclasses(PROBLEM):
        ev = prog.lookup_method(cls, "evaluate")
        init = prog.lookup_method(cls, "__init__")
        from ..frontend import is_stub as _stub
        if ev is None or init is None or ev.cls is None or _stub(ev.node):
            continue          # (an evaluate inherited from the base class as a template method is interpreted with this class's hooks)
        if any((h_ := prog.lookup_method(cls, x_.func.attr)) is not None and _stub(h_.node) for x_ in walk_local(ev.node)
               if isinstance(x_, ast.Call) and is_self_attr(x_.func)):
            continue          # this class leaves a hook of evaluate abstract
        if not any(p_ in ("fitness_function", "ff") for p_ in init.params):
            continue
        multi = prog.is_subclass(cls, PROBLEM.rsplit(".", 1)[0] + ".MultiObjectiveProblem") or "minimize: list" in norm(init.node)[:2000]
        optional = [p_ for p_ in init.params[1:] if p_ not in ("fitness_function", "ff", "minimize")]
        scenarios = []
        if multi:
            for mn, k in (([True, False], 2), (True, 2), (False, 2), ([False, True, True], 3)):
                scenarios.append((mn, k, {}))
            for p_ in optional:
                scenarios.append(([True, False], 2, {p_: Sym("USER:" + p_)}))
            if len(optional) > 1:
                scenarios.append((True, 2, {p_: Sym("USER:" + p_) for p_ in optional}))
        else:
            scenarios = [(True, None, {}), (False, None, {})]
        bad_count = bad_sign = bad_comp = bad_alias = None
        undecided = []
        ntr = 0
        for mn, k, given in scenarios:
            try:
                results = _problem_model(ctx, cls, init, ev, mn, k, given)
            except Budget:
                undecided.append("too many interpretations")
                continue
            live_ = [r_ for r_ in results if not any(e.kind == "raise" for e in r_[0])]
            if len(live_) > 1:
                # with concrete flags and symbolic callables Problem.evaluate is deterministic: several interpretations mean the model met a
                # condition it could not evaluate - what the forks compute is not evidence of what the code does
                undecided.append(f"the model forks while interpreting evaluate (minimize={mn}): a condition depends on something it does not determine")
                ntr += len(live_)
                continue
            for trace, rv, notes in results:
                main = trace[getattr(trace, "start", 0):]
                if any(e.kind == "raise" for e in trace):
                    continue
                ntr += 1
                calls = [e for e in trace if e.kind == "callsym" and e.name == "FF"]
                scen = {"minimize": mn, "user_callables": sorted(given)}
                if len(calls) != 1 and bad_count is None:
                    through = [f"{e.fn.name if e.fn else '?'}:{getattr(e.node, 'lineno', 0)}" for e in calls]
                    bad_count = (f"{len(calls)} invocations of the user's fitness function in one Problem.evaluate "
                                 f"(minimize={mn}, user callables {sorted(given) or 'none'}; at {through}): the counter "
                                 f"counts one evaluation", dict(scen, invocations=len(calls)))
                fits = [e for e in trace if e.kind == "call" and e.name == "Fitness"]
                if len(fits) != 1:
                    undecided.append("evaluate does not build exactly one Fitness on a path")
                    continue
                fe = fits[0]
                agg = fe.args[0] if fe.args else fe.kwargs.get("maximizing_aggregate", UNKNOWN)
                comps = fe.args[1] if len(fe.args) > 1 else fe.kwargs.get("fitness_components", UNKNOWN)
                if isinstance(comps, list) and any(comps is r_ for r_ in _problem_model.returned) and bad_alias is None:
                    bad_alias = ("the Fitness keeps the very list object the fitness function returned: a fitness function that reuses its result "
                                 "buffer (one score per test case, filled in place) rewrites the recorded fitness of every individual evaluated before - "
                                 "the recorded components are no longer what the function returned for that individual's program", scen)
                want_comps = [SVal(1, "f")] if k is None else [SVal(1, f"f{i + 1}") for i in range(k)]
                if comps != want_comps and bad_comp is None:
                    if isinstance(comps, list) and all(isinstance(x, SVal) for x in comps):
                        bad_comp = (f"fitness_components are {comps!r}, expected the raw values {want_comps!r}", scen)
                    else:
                        undecided.append("fitness_components not followed")
                if given:
                    continue   # user-supplied aggregate: polarity is the user's
                mlist = mn if isinstance(mn, list) else [mn] * (k or 1)
                if k is None:
                    want = SVal(-1 if mlist[0] else 1, "f")
                    got_ok = agg == want
                else:
                    want = SumVal(tuple(SVal(-1 if m else 1, f"f{i + 1}") for i, m in enumerate(mlist)))
                    got_ok = isinstance(agg, SumVal) and sorted(agg.terms, key=repr) == sorted(want.terms, key=repr)
                if not got_ok:
                    if isinstance(agg, (SVal, SumVal)):
                        if bad_sign is None:
                            bad_sign = (f"with minimize={mn} the maximising aggregate is {agg!r}, expected {want!r}: the "
                                        f"aggregate prefers the wrong direction", dict(scen, aggregate=repr(agg)))
                    else:
                        undecided.append(f"aggregate not followed ({agg!r})")
        n += ntr
        und = "; ".join(sorted(set(undecided))[:3])
        if alias_rid is not None:
            # the same model used by another property (C09: the cached fitness of an input individual cannot be rewritten from outside)
            if multi:
                ctx.ob(alias_rid, ev, ev.node, f"{cls.name}: the recorded components are a list of their own, not the object the fitness function returned",
                       False if bad_alias else (None if und else True), bad_alias[0] if bad_alias else und,
                       witness=bad_alias[1] if bad_alias else {"traces": ntr})
            continue
        ctx.ob("C13.R5", ev, ev.node, f"{cls.name}: exactly one fitness-function invocation per evaluate",
               False if bad_count else (None if und and "interpretations" in und else True),
               bad_count[0] if bad_count else und, witness=bad_count[1] if bad_count else {"traces": ntr})
        ctx.ob("C13.R3", ev, ev.node, f"{cls.name}: default aggregate is the sum of (-f if minimised else f)",
               False if bad_sign else (None if und else True), bad_sign[0] if bad_sign else und,
               witness=bad_sign[1] if bad_sign else {"traces": ntr})
        ctx.ob("C13.R3", ev, ev.node, f"{cls.name}: fitness_components are the raw values",
               False if bad_comp else (None if und else True), bad_comp[0] if bad_comp else und,
               witness=bad_comp[1] if bad_comp else {"traces": ntr})
        if multi:
            ctx.ob("C13.R3", ev, ev.node, f"{cls.name}: the recorded components are a list of their own, not the object the fitness function returned",
                   False if bad_alias else (None if und else True), bad_alias[0] if bad_alias else und,
                   witness=bad_alias[1] if bad_alias else {"traces": ntr})
    ctx.floor(alias_rid or "C13.R5", n, 6, "interpreted Problem.evaluate traces")


def rule_shipped_state(ctx: Ctx) -> None:
    """What crosses the process boundary.  The parallel evaluator pickles individuals; the worker computes the fitness from
    individual.get_phenotype().  With default pickling the instance dictionary travels, cached program included.  A custom
    __getstate__ / __setstate__ pair is interpreted on an individual with a cached program: if the program does not arrive, the worker
    re-derives it from the genotype - the same program only where mapping is a pure function of the genotype (decided with C07's draw
    provenance on this very tree)."""
    from ..modelinterp import Budget, Interp, Obj, Sym, UNKNOWN
    prog = ctx.prog
    ind = prog.get_class(INDIVIDUAL)
    for cls in [ind] + prog.subclasses(INDIVIDUAL):
        hooks = {m: prog.lookup_method(cls, m) for m in ("__getstate__", "__setstate__", "__reduce__", "__reduce_ex__")}
        hooks = {m: f for m, f in hooks.items() if f is not None and f.cls is not None}
        anchor = hooks.get("__getstate__") or hooks.get("__reduce__") or hooks.get("__reduce_ex__") or prog.lookup_method(cls, "__init__")
        desc = f"{cls.name}: the program cached on an individual reaches the worker that computes its fitness"
        if not hooks:
            ctx.ob("C13.R2", anchor, anchor.node if anchor else None, desc, True, "default pickling: the instance dictionary travels")
            continue
        if "__reduce__" in hooks or "__reduce_ex__" in hooks or "__getstate__" not in hooks:
            ctx.ob("C13.R2", anchor, anchor.node, desc, None, "custom reduction protocol is not followed")
            continue
        fields = {"genotype": Sym("genes"), "representation": Sym("rep"), "phenotype": Sym("program"), "fitness_store": {}, "metadata": {}}
        verdict: Optional[bool] = True
        why = ""
        try:
            it = Interp(prog, cls, lambda *_: None, None, max_depth=4, max_traces=8)
            runs = it.run(hooks["__getstate__"], {"self": Obj(cls.name, dict(fields), cls.fullname)})
            for trace, rv, notes in runs:
                if any(e.kind == "raise" for e in trace):
                    continue
                if notes or not isinstance(rv, dict):
                    verdict, why = None, f"the pickled state is not followed ({rv!r})"
                    break
                got = dict(rv)
                if "__setstate__" in hooks:
                    fresh = Obj(cls.name, {}, cls.fullname)
                    it2 = Interp(prog, cls, lambda *_: None, None, max_depth=4, max_traces=8)
                    runs2 = it2.run(hooks["__setstate__"], {"self": fresh, hooks["__setstate__"].params[1]: dict(rv)})
                    if len(runs2) != 1 or runs2[0][2] or any(e.kind == "raise" for e in runs2[0][0]):
                        verdict, why = None, "__setstate__ is not followed"
                        break
                    after = it2.envs[0].get("self") if it2.envs else None
                    if not isinstance(after, Obj):
                        verdict, why = None, "__setstate__ is not followed"
                        break
                    got = dict(after.fields)
                if got.get("genotype") != Sym("genes"):
                    verdict, why = False, "the genotype does not reach the worker"
                    break
                if got.get("phenotype") != Sym("program"):
                    if got.get("phenotype", None) not in (None, UNKNOWN) and "phenotype" in got:
                        verdict, why = None, f"the unpickled individual's phenotype is {got.get('phenotype')!r}"
                        break
                    from .c07 import impure_mappings
                    impure = impure_mappings(ctx)
                    if impure:
                        verdict = False
                        why = (f"the pickled state of an individual leaves its cached program behind: the worker re-derives one from the genotype, and for "
                               f"{', '.join(impure)} mapping draws from a source that is not the genotype - the fitness recorded by the parallel evaluator is that "
                               f"of another program than the one the individual holds (and than the sequential evaluator uses)")
                        break
        except Budget:
            verdict, why = None, "too many interpretations"
        ctx.ob("C13.R2", anchor, anchor.node, desc, verdict, why)


def run(ctx: Ctx) -> None:
    ctx.rule("C13.R1", "eval_single / register_evaluation / set_fitness paired once per individual, only without cached fitness")
    ctx.rule("C13.R2", "parallel results zipped with the mapped sequence, order-preserving map")
    ctx.rule("C13.R3", "fitness computed from individual.get_phenotype(); default multi-objective aggregate polarity")
    ctx.rule("C13.R4", "one counter (written by register_evaluation only); Problem.evaluate reached only via eval_single")
    ctx.rule("C13.R5", "exactly one fitness-function invocation per Problem.evaluate path")
    rule_r1_r2(ctx)
    rule_r3(ctx)
    rule_r4(ctx)
    rule_r5(ctx)
    rule_shipped_state(ctx)
    ctx.assumptions += [
        "pathos ProcessingPool.map preserves input order (documented contract)",
        "user-supplied aggregate / best-individual callables do not call the fitness function themselves",
    ]
