"""C13 - fitness is computed from the phenotype, once, and counted honestly (structural clauses)."""
from __future__ import annotations

import ast
from typing import Any, Optional

from ..astutil import call_name, guards, is_self_attr, names_read, same_expr
from ..frontend import AnalysisError, FunctionInfo, dotted, enclosing_stmt, norm, parent, walk_local
from ..paths import conds_on, paths, stmts_on
from ..report import Ctx
from .common import EVALUATOR, INDIVIDUAL, PROBLEM, check_yields_all, receiver_may_be

LEVEL_TEXT = (
    "Static rules over every Evaluator.evaluate_async implementation and every Problem.evaluate implementation: "
    "(R1) on each per-individual path eval_single, register_evaluation and set_fitness occur together, exactly once, "
    "on the individual just evaluated, and only under 'not has_fitness(problem)' (guard or filtered sequence); "
    "(R2) parallel results come from an order-preserving map over the very sequence they are zipped with; (R3) "
    "eval_single evaluates individual.get_phenotype(); the multi-objective default aggregate is "
    "sum(-f if minimised else f) under both flag values (single-objective polarity is C12.R2); (R4) the counter is "
    "written only by register_evaluation, and Problem.evaluate is called only from eval_single (allow-list with "
    "reasons); (R5) every path of every Problem.evaluate invokes the user's fitness function exactly once, "
    "following callables stored in the constant-key dict self.ff and closures. Decides these shapes for all "
    "populations, caches and worker timings; does not run an evaluator."
)


def _has_fitness_guard(test: ast.AST, ind: Optional[str]) -> Optional[bool]:
    """polarity under which 'not X.has_fitness(...)' holds: returns True if test == not has_fitness, False if
    test == has_fitness, None otherwise."""
    neg = False
    t = test
    while isinstance(t, ast.UnaryOp) and isinstance(t.op, ast.Not):
        neg = not neg
        t = t.operand
    if isinstance(t, ast.Call) and call_name(t) == "has_fitness" and isinstance(t.func, ast.Attribute):
        recv = t.func.value
        if ind is None or (isinstance(recv, ast.Name) and recv.id == ind):
            return neg
    return None


def _filtered_by_cache(fn: FunctionInfo, name: str) -> bool:
    """Is local *name* bound (once) to an expression whose elements are filtered by 'not v.has_fitness(problem)'?"""
    defs = [n for n in walk_local(fn.node) if isinstance(n, ast.Assign)
            and any(isinstance(t, ast.Name) and t.id == name for t in n.targets)]
    if len(defs) != 1:
        return False
    for c in ast.walk(defs[0].value):
        if isinstance(c, (ast.ListComp, ast.SetComp, ast.DictComp, ast.GeneratorExp)):
            for g in c.generators:
                if isinstance(g.target, ast.Name):
                    for cond in g.ifs:
                        if _has_fitness_guard(cond, g.target.id) is True:
                            return True
        if isinstance(c, ast.Call) and call_name(c) == "filter" and c.args and isinstance(c.args[0], ast.Lambda):
            lam = c.args[0]
            if lam.args.args and _has_fitness_guard(lam.body, lam.args.args[0].arg) is True:
                return True
    return False


def rule_r1_r2(ctx: Ctx) -> None:
    prog, res = ctx.prog, ctx.res
    impls = prog.implementations(EVALUATOR, "evaluate_async")
    ctx.floor("C13.R1", len(impls), 2, "evaluate_async implementations")
    for f in impls:
        problem_p, indivs_p = f.params[1], f.params[2]
        # ---- evaluation sites
        direct = [c for c in res.calls_in(f, include_nested=False) if call_name(c) == "eval_single" and is_self_attr(c.func)]
        mapped = []
        for c in res.calls_in(f, include_nested=False):
            if isinstance(c.func, ast.Attribute) and c.func.attr in ("map", "imap", "uimap", "amap", "starmap") and len(c.args) >= 2 \
                    and isinstance(c.args[0], ast.Name):
                loc = res._local_def(f, c.args[0].id)
                if loc is not None and any(call_name(x) == "eval_single" for x in ast.walk(loc.node) if isinstance(x, ast.Call)):
                    mapped.append(c)
        if not direct and not mapped:
            ctx.ob("C13.R1", f, f.node, "evaluation site", None, "no eval_single use found in this evaluator")
            continue
        # ---- direct sites: path pairing inside the enclosing loop body
        for site in direct:
            ind = site.args[1].id if len(site.args) > 1 and isinstance(site.args[1], ast.Name) else None
            loop = next((a for a in _ancestors(site) if isinstance(a, (ast.For, ast.AsyncFor))), None)
            body = loop.body if loop is not None else f.node.body
            # every path of the per-individual code that reaches the site carries 'not ind.has_fitness(problem)'
            # (enclosing if, or an early 'if has_fitness: ...; continue')
            site_stmt = enclosing_stmt(site)
            guarded = True
            reached = 0
            for pth in paths(body, unroll_loops=False):
                if not any(st is site_stmt for st in stmts_on(pth)):
                    continue
                reached += 1
                cs = []
                for ev_ in pth:
                    if ev_[0] == "stmt" and ev_[1] is site_stmt:
                        break
                    if ev_[0] == "cond":
                        cs.append((ev_[1], ev_[2]))
                if not any(_has_fitness_guard(t, ind) is not None and _has_fitness_guard(t, ind) == pol for t, pol in cs):
                    guarded = False
            guarded = guarded and reached > 0
            ctx.ob("C13.R1", f, site, "eval_single only for individuals without a cached fitness", guarded,
                   "" if guarded else "eval_single is reached for individuals that already have a fitness for the "
                                      "problem: they are evaluated and counted again")
            _pair_paths(ctx, f, body, ind, problem_p, site)
        # ---- mapped sites (parallel)
        for site in mapped:
            seq = site.args[1]
            seqname = seq.id if isinstance(seq, ast.Name) else None
            ok_f = seqname is not None and _filtered_by_cache(f, seqname)
            ctx.ob("C13.R1", f, site, "mapped sequence holds only individuals without a cached fitness", ok_f,
                   "" if ok_f else "the pool maps eval_single over individuals that may already have a fitness: "
                                   "cached individuals are evaluated and counted again")
            order_ok = site.func.attr in ("map", "imap", "starmap")
            st = enclosing_stmt(site)
            resname = st.targets[0].id if isinstance(st, ast.Assign) and isinstance(st.targets[0], ast.Name) else None
            zips = [l for l in walk_local(f.node) if isinstance(l, (ast.For, ast.AsyncFor)) and isinstance(l.iter, ast.Call)
                    and call_name(l.iter) == "zip"]
            paired = False
            why = "results are not consumed by 'for i, f in zip(<mapped sequence>, <results>)'"
            for l in zips:
                a = l.iter.args
                if len(a) == 2 and isinstance(a[0], ast.Name) and isinstance(a[1], ast.Name) and a[1].id == resname:
                    if a[0].id == seqname:
                        paired = True
                        if isinstance(l.target, ast.Tuple) and len(l.target.elts) == 2 \
                                and all(isinstance(e, ast.Name) for e in l.target.elts):
                            _pair_paths(ctx, f, l.body, l.target.elts[0].id, problem_p, None,
                                        value_name=l.target.elts[1].id)
                    else:
                        why = f"results of map over '{seqname}' are zipped with '{a[0].id}': fitness values are " \
                              f"attached to the wrong individuals"
            ctx.ob("C13.R2", f, site, "results zipped with the sequence that was mapped, order preserved",
                   paired and order_ok, "" if paired and order_ok else
                   (why if not paired else f"pool.{site.func.attr} does not preserve input order"))
        # ---- every input individual is yielded (trackers post-process what is yielded)
        check_yields_all(ctx, "C13.R1", f)


def _ancestors(n):
    from ..frontend import ancestors
    return ancestors(n)


def _pair_paths(ctx: Ctx, f: FunctionInfo, body: list[ast.stmt], ind: Optional[str], problem_p: str,
                site: Optional[ast.Call], value_name: Optional[str] = None) -> None:
    """On every path through *body*: #register_evaluation == #set_fitness == (#eval_single or 1 when mapped),
    set_fitness(problem, value) on *ind* with the value computed for it."""
    for i, p in enumerate(paths(body, unroll_loops=False)):
        n_eval = n_reg = n_set = 0
        set_ok = True
        valname = value_name
        for st in stmts_on(p):
            for c in [x for x in ast.walk(st) if isinstance(x, ast.Call)]:
                nm = call_name(c)
                if nm == "eval_single" and is_self_attr(c.func):
                    n_eval += 1
                    ps = parent(c)
                    if isinstance(ps, ast.Assign) and isinstance(ps.targets[0], ast.Name):
                        valname = ps.targets[0].id
                elif nm == "register_evaluation" and is_self_attr(c.func):
                    n_reg += 1
                elif nm == "set_fitness" and isinstance(c.func, ast.Attribute):
                    n_set += 1
                    recv_ok = isinstance(c.func.value, ast.Name) and (ind is None or c.func.value.id == ind)
                    val = c.args[1] if len(c.args) > 1 else None
                    val_ok = isinstance(val, ast.Name) and val.id == valname or \
                        (isinstance(val, ast.Call) and call_name(val) == "eval_single")
                    prob_ok = bool(c.args) and isinstance(c.args[0], ast.Name) and c.args[0].id == problem_p
                    set_ok = set_ok and recv_ok and val_ok and prob_ok
        expected = n_eval if value_name is None else 1
        ok = n_reg == expected and n_set == expected and set_ok
        if value_name is None and n_eval == 0 and n_reg == 0 and n_set == 0:
            ok = True
        cond = ", ".join(f"{norm(t)}={pol}" for t, pol in conds_on(p)) or "unconditional"
        ctx.ob("C13.R1", f, body[0], f"evaluate/count/store pairing on path [{cond}]"[:120], ok,
               "" if ok else f"on this path: {n_eval if value_name is None else 1} evaluation(s), {n_reg} "
                             f"register_evaluation, {n_set} set_fitness"
                             f"{'' if set_ok else ' (stored on another individual / another value / another problem)'}",
               witness={"evals": n_eval, "registered": n_reg, "stored": n_set})


def rule_r3(ctx: Ctx) -> None:
    prog = ctx.prog
    n = 0
    for c in prog.subclasses(EVALUATOR, strict=False):
        f = c.methods.get("eval_single")
        if f is None:
            continue
        n += 1
        ind = f.params[2]
        calls = [x for x in walk_local(f.node) if isinstance(x, ast.Call) and call_name(x) == "evaluate"]
        ok, why = False, "eval_single does not return problem.evaluate(individual.get_phenotype())"
        if len(calls) == 1:
            arg = calls[0].args[0] if calls[0].args else next((k.value for k in calls[0].keywords if k.arg == "phenotype"), None)
            src = arg
            if isinstance(arg, ast.Name):
                ds = [a for a in walk_local(f.node) if isinstance(a, ast.Assign) and isinstance(a.targets[0], ast.Name)
                      and a.targets[0].id == arg.id]
                src = ds[0].value if len(ds) == 1 else None
            ph_ok = isinstance(src, ast.Call) and call_name(src) == "get_phenotype" \
                and isinstance(src.func, ast.Attribute) and isinstance(src.func.value, ast.Name) and src.func.value.id == ind
            # returned value is the evaluate result
            rets = [r for r in walk_local(f.node) if isinstance(r, ast.Return) and r.value is not None]
            ret_ok = False
            for r in rets:
                if r.value is calls[0]:
                    ret_ok = True
                elif isinstance(r.value, ast.Name):
                    ps = parent(calls[0])
                    ret_ok = isinstance(ps, ast.Assign) and isinstance(ps.targets[0], ast.Name) and ps.targets[0].id == r.value.id
            ok = ph_ok and ret_ok and len(rets) == 1
            if not ph_ok:
                why = "the value handed to problem.evaluate is not this individual's phenotype"
        ctx.ob("C13.R3", f, f.node, "eval_single = problem.evaluate(individual.get_phenotype())", ok, "" if ok else why)
    ctx.floor("C13.R3", n, 1, "eval_single definitions")

    # multi-objective default aggregate: sum over components of (-f if minimised else f)
    for cls in prog.subclasses(PROBLEM):
        for f in cls.module.functions.values():
            if f.parent is None or f.parent.cls is not cls:
                continue
            sums = [x for x in walk_local(f.node) if isinstance(x, ast.Call) and call_name(x) == "sum" and x.args
                    and isinstance(x.args[0], (ast.GeneratorExp, ast.ListComp))]
            for s in sums:
                g = s.args[0]
                if not any(_reads_attr(z, "minimize") for z in ast.walk(g)) and not any(
                        _reads_attr(z, "minimize") for t, _ in guards(s, stop=f.node) for z in ast.walk(t)):
                    continue
                tgt = g.generators[0].target
                it = g.generators[0].iter
                fit = mflag = None
                if isinstance(tgt, ast.Tuple) and len(tgt.elts) == 2 and isinstance(it, ast.Call) and call_name(it) == "zip":
                    # which of the two zip arguments is the minimise list?
                    for k, a in enumerate(it.args[:2]):
                        if _reads_attr(a, "minimize"):
                            mflag = tgt.elts[k].id
                            fit = tgt.elts[1 - k].id
                elif isinstance(tgt, ast.Name):
                    fit = tgt.id
                if fit is None:
                    ctx.ob("C13.R3", f, s, "default aggregate element", None, "cannot identify component / flag variables")
                    continue
                for flag in (True, False):
                    sign = _elem_sign(g.elt, fit, mflag, flag)
                    want = -1 if flag else 1
                    ctx.ob("C13.R3", f, s, f"default aggregate term sign when minimised={flag} ({'list' if mflag else 'bool'} form)",
                           (sign == want) if sign is not None else None,
                           "" if sign == want else f"term is {'+' if sign == 1 else '-' if sign == -1 else '?'}f when "
                                                   f"minimised={flag}; the aggregate would prefer the wrong direction",
                           witness={"minimised": flag, "sign": sign})


def _reads_attr(n: ast.AST, attr: str) -> bool:
    return any(isinstance(x, ast.Attribute) and x.attr == attr for x in ast.walk(n))


def _elem_sign(e: ast.AST, fit: str, mflag: Optional[str], flag: bool) -> Optional[int]:
    """Sign (+1/-1) of the element expression relative to *fit* when the minimise flag is *flag*."""
    def is_flag(t: ast.AST) -> Optional[bool]:
        neg = False
        while isinstance(t, ast.UnaryOp) and isinstance(t.op, ast.Not):
            neg, t = not neg, t.operand
        if (mflag is not None and isinstance(t, ast.Name) and t.id == mflag) or (mflag is None and _reads_attr(t, "minimize")):
            return flag != neg
        return None

    def ev(x: ast.AST) -> Optional[int]:
        if isinstance(x, ast.Name) and x.id == fit:
            return 1
        if isinstance(x, ast.UnaryOp) and isinstance(x.op, (ast.USub, ast.UAdd)):
            v = ev(x.operand)
            return None if v is None else (-v if isinstance(x.op, ast.USub) else v)
        if isinstance(x, ast.IfExp):
            t = is_flag(x.test)
            if t is None:
                return None
            return ev(x.body if t else x.orelse)
        if isinstance(x, ast.BoolOp):
            # value semantics of  A and B or C  with B a non-zero number:  B if A else C
            if isinstance(x.op, ast.Or) and len(x.values) == 2 and isinstance(x.values[0], ast.BoolOp) \
                    and isinstance(x.values[0].op, ast.And) and len(x.values[0].values) == 2:
                t = is_flag(x.values[0].values[0])
                if t is None:
                    return None
                return ev(x.values[0].values[1]) if t else ev(x.values[1])
            return None
        if isinstance(x, ast.BinOp) and isinstance(x.op, ast.Mult):
            for a, b in ((x.left, x.right), (x.right, x.left)):
                va = ev(a)
                if va is not None:
                    if isinstance(b, ast.Constant) and isinstance(b.value, (int, float)) and b.value != 0:
                        return va * (1 if b.value > 0 else -1)
                    if isinstance(b, ast.IfExp):
                        t = is_flag(b.test)
                        if t is not None:
                            c = b.body if t else b.orelse
                            if isinstance(c, ast.UnaryOp) and isinstance(c.op, ast.USub) and isinstance(c.operand, ast.Constant):
                                return -va
                            if isinstance(c, ast.Constant) and isinstance(c.value, (int, float)) and c.value != 0:
                                return va * (1 if c.value > 0 else -1)
            return None
        if isinstance(x, ast.Call) and call_name(x) == "float" and x.args:
            return ev(x.args[0])
        return None

    # the sum may sit under an if on the flag (bool form): guards are evaluated by the caller through IfExp only
    return ev(e)


def rule_r4(ctx: Ctx) -> None:
    prog, res = ctx.prog, ctx.res
    # (a) the counter
    ev = prog.get_class(EVALUATOR)
    reg = ev.methods.get("register_evaluation")
    num = ev.methods.get("number_of_evaluations")
    if reg is None or num is None:
        raise AnalysisError("C13.R4: Evaluator.register_evaluation/number_of_evaluations missing")
    rets = [r for r in walk_local(num.node) if isinstance(r, ast.Return)]
    counter = rets[0].value.attr if len(rets) == 1 and is_self_attr(rets[0].value) else None
    if counter is None:
        ctx.ob("C13.R4", num, num.node, "number_of_evaluations returns the counter", False,
               "number_of_evaluations does not return a plain counter attribute")
        return
    n = 0
    for f in prog.functions.values():
        for nd in walk_local(f.node):
            tg = []
            if isinstance(nd, ast.Assign):
                tg = nd.targets
            elif isinstance(nd, (ast.AugAssign, ast.AnnAssign)):
                tg = [nd.target]
            for t in tg:
                if isinstance(t, ast.Attribute) and t.attr == counter:
                    owner = res.enclosing_class(f)
                    is_ev = owner is not None and prog.is_subclass(owner, EVALUATOR) and is_self_attr(t)
                    if not is_ev and not receiver_may_be(ctx, f, t.value, EVALUATOR):
                        continue
                    n += 1
                    if f.name == "__init__" and is_ev:
                        ok = isinstance(nd, ast.Assign) and isinstance(nd.value, ast.Constant) and nd.value.value == 0
                        ctx.ob("C13.R4", f, nd, f"counter initialised: {norm(nd)}", ok, "" if ok else "counter does not start at 0")
                    elif f is reg:
                        ok = isinstance(nd, ast.AugAssign) and isinstance(nd.op, ast.Add) \
                            and isinstance(nd.value, ast.Constant) and nd.value.value == 1 and not guards(nd, stop=f.node)
                        ctx.ob("C13.R4", f, nd, f"register_evaluation: {norm(nd)}", ok,
                               "" if ok else "register_evaluation does not add exactly one, unconditionally")
                    else:
                        ctx.ob("C13.R4", f, nd, f"foreign write to evaluation counter: {norm(nd)}", False,
                               "the evaluation counter is modified outside register_evaluation")
    ctx.floor("C13.R4", n, 2, "stores to the evaluation counter")
    # register_evaluation callers: only evaluate_async implementations
    for f in prog.functions.values():
        for c in res.calls_in(f, include_nested=False):
            if call_name(c) == "register_evaluation":
                owner = res.enclosing_class(f)
                ok = owner is not None and prog.is_subclass(owner, EVALUATOR) and f.name == "evaluate_async"
                ctx.ob("C13.R4", f, c, "register_evaluation caller", ok,
                       "" if ok else "evaluations are counted outside an evaluator's evaluate_async")
    # (b) who calls Problem.evaluate
    ALLOWED = {
        "geneticengine.evaluation.api:Evaluator.eval_single": "the one counted evaluation path",
        "geneticengine.problems:wrap_depth_minimization.<locals>.w": "inner problem of the depth-penalty wrapper; the outer problem is the one counted",
        "geneticengine.solutions.individual:Individual.ensure_fitness": "uncounted fallback, tolerated only when dominated by an evaluator call (checked below)",
    }
    prob_eval = set(prog.implementations(PROBLEM, "evaluate", include_base=True))
    prob_eval |= {m for c in prog.subclasses(PROBLEM, strict=False) for k, m in c.methods.items() if k == "evaluate"}
    nsites = 0
    for f in prog.functions.values():
        for c in res.calls_in(f, include_nested=False):
            if call_name(c) != "evaluate" or not isinstance(c.func, ast.Attribute):
                continue
            t = res.resolve(f, c)
            if t.kind != "repo" or not any(g in prob_eval for g in t.targets):
                continue
            nsites += 1
            ok = f.fullname in ALLOWED
            if ok:
                ctx.accept("C13.R4", f.loc(c), ALLOWED[f.fullname])
            ctx.ob("C13.R4", f, c, "caller of Problem.evaluate", ok,
                   "" if ok else "Problem.evaluate is called outside Evaluator.eval_single: the fitness function runs "
                                 "without being counted (and possibly again for the same individual)")
    ctx.floor("C13.R4", nsites, 2, "resolved Problem.evaluate call sites")
    # (c) ensure_fitness users: Individual.key_function uses must be preceded by an evaluator call in the same function
    for f in prog.functions.values():
        for c in res.calls_in(f, include_nested=False):
            if call_name(c) == "key_function" and isinstance(c.func, ast.Attribute) and dotted(c.func.value) == "Individual":
                st = enclosing_stmt(c)
                top = st
                while parent(top) is not f.node:
                    top = parent(top)
                idx = f.node.body.index(top)
                before = ast.Module(body=f.node.body[:idx], type_ignores=[])
                ok = any(isinstance(x, ast.Call) and call_name(x) == "evaluate" and isinstance(x.func, ast.Attribute)
                         and receiver_may_be(ctx, f, x.func.value, EVALUATOR) for x in ast.walk(before))
                ctx.ob("C13.R4", f, c, "Individual.key_function used after an evaluator pass", ok,
                       "" if ok else "key_function's uncounted ensure_fitness fallback can evaluate individuals here")


def rule_r5(ctx: Ctx) -> None:
    """Exactly one invocation of the user's fitness function per Problem.evaluate path."""
    prog = ctx.prog
    n = 0
    for f in prog.implementations(PROBLEM, "evaluate"):
        cls = f.cls
        init = prog.lookup_method(cls, "__init__")
        if init is None:
            continue
        # the dict literal(s) stored in self.<d> in __init__
        stores: dict[str, dict[str, ast.AST]] = {}
        for a in walk_local(init.node):
            if isinstance(a, ast.Assign) and len(a.targets) == 1 and is_self_attr(a.targets[0]) and isinstance(a.value, ast.Dict):
                d = {}
                for k, v in zip(a.value.keys, a.value.values):
                    if isinstance(k, ast.Constant) and isinstance(k.value, str):
                        d[k.value] = v
                stores[a.targets[0].attr] = d
        # which parameter is the fitness function: the one stored under the key that evaluate() calls first / named so
        ff_params = {p for p in init.params if "fitness_function" == p or p == "ff"}
        if not ff_params or not stores:
            continue

        def count_in_value(v: ast.AST, depth: int = 0) -> Optional[int]:
            """How many times does calling the stored callable *v* invoke the fitness function? (max over 'a or b')"""
            if isinstance(v, ast.Name):
                if v.id in ff_params:
                    return 1
                if v.id in init.params:
                    return 0  # another user-supplied callable
                loc = ctx.res._local_def(init, v.id)
                if loc is not None:
                    best = 0
                    for lp in paths(loc.node.body, unroll_loops=False):
                        k = sum(1 for st in stmts_on(lp) for x in ast.walk(st)
                                if isinstance(x, ast.Call) and isinstance(x.func, ast.Name) and x.func.id in ff_params)
                        best = max(best, k)
                    return best
                return None
            if isinstance(v, ast.BoolOp) and isinstance(v.op, ast.Or):
                cs = [count_in_value(x, depth + 1) for x in v.values]
                return None if any(c is None for c in cs) else max(cs)
            if isinstance(v, ast.Constant) and v.value is None:
                return 0
            if isinstance(v, ast.Lambda):
                return sum(1 for x in ast.walk(v) if isinstance(x, ast.Call) and isinstance(x.func, ast.Name)
                           and x.func.id in ff_params)
            return None

        for i, p in enumerate(paths(f.node.body, unroll_loops=False)):
            if p[-1][1] == "raise":
                continue
            total: Optional[int] = 0
            detail = []
            for st in stmts_on(p):
                for c in [x for x in ast.walk(st) if isinstance(x, ast.Call)]:
                    fn_ = c.func
                    if isinstance(fn_, ast.Subscript) and is_self_attr(fn_.value) and isinstance(fn_.slice, ast.Constant) \
                            and fn_.value.attr in stores:
                        v = stores[fn_.value.attr].get(fn_.slice.value)
                        k = count_in_value(v) if v is not None else None
                        detail.append(f"self.{fn_.value.attr}[{fn_.slice.value!r}] -> {k}")
                        total = None if (total is None or k is None) else total + k
            n += 1
            cond = ", ".join(f"{norm(t)[:40]}={pol}" for t, pol in conds_on(p)) or "unconditional"
            ctx.ob("C13.R5", f, f.node, f"fitness-function invocations on path [{cond}]"[:140],
                   (total == 1) if total is not None else None,
                   "" if total == 1 else f"{total} invocations of the user's fitness function on this path "
                                         f"({'; '.join(detail)}): the counter counts one evaluation",
                   witness={"invocations": total, "through": detail})
    ctx.floor("C13.R5", n, 3, "Problem.evaluate paths")


def run(ctx: Ctx) -> None:
    ctx.rule("C13.R1", "eval_single / register_evaluation / set_fitness paired once per individual, only without cached fitness")
    ctx.rule("C13.R2", "parallel results zipped with the mapped sequence, order-preserving map")
    ctx.rule("C13.R3", "fitness computed from individual.get_phenotype(); default multi-objective aggregate polarity")
    ctx.rule("C13.R4", "one counter (written by register_evaluation only); Problem.evaluate reached only via eval_single")
    ctx.rule("C13.R5", "exactly one fitness-function invocation per Problem.evaluate path")
    rule_r1_r2(ctx)
    rule_r3(ctx)
    rule_r4(ctx)
    rule_r5(ctx)
    ctx.assumptions += [
        "pathos ProcessingPool.map preserves input order (documented contract)",
        "user-supplied aggregate / best-individual callables do not call the fitness function themselves",
    ]
