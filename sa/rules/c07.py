"""C07 - genotype-to-phenotype mapping is a pure function of the genotype (structural clauses)."""
from __future__ import annotations

import ast

from ..frontend import AnalysisError, norm
from ..provenance import Provenance, Term
from ..report import Ctx
from .common import REPRESENTATION

LEVEL_TEXT = (
    "Interprocedural provenance analysis from the four genotype_to_phenotype entry points over the resolved call "
    "graph (context-sensitive on the provenance of arguments; constructed objects carry the provenance of their "
    "fields): (R1) every call of a RandomSource primitive reachable from a mapping is classified by the provenance "
    "of its receiver, pulled back to the entry: genotype-backed (a source built during the mapping from the "
    "genotype's genes), permitted (the one allow-listed site: dynamic SGE's on-demand extension of the genotype "
    "itself) or foreign (the decider's own stream, the genotype's stored search stream, a newly built source); "
    "foreign draws are findings, keyed by entry point, source and drawing function; (R2) every attribute / item "
    "store reachable from a mapping targets an object created during that mapping, or is allow-listed with a reason: "
    "state reachable from the representation or the genotype must not be written, because it outlives the mapping "
    "and makes the result depend on mapping history. Decides which source each decision is drawn from for all "
    "grammars and genotypes; does not execute a mapping."
)

PERMIT_DRAW = {
    ("geneticengine.representations.grammatical_evolution.dynamic_structured_ge:DynamicStructuredGrammaticalEvolutionRepresentation.genotype_to_phenotype",
     "Genotype.get", "genotype.random"):
        "the statement's permitted side effect: dynamic SGE extends the genotype itself on demand",
}
PERMIT_STORE = {
    ("Genotype.get", "genotype.dna"): "permitted on-demand extension of the genotype's own gene lists",
    ("PositionIndependentGrowDecider.choose_production_alternatives", "self.decider"):
        "self.expanding is re-initialised at the root of every tree (ctx.expansions == 0) before it is read: no "
        "information survives from one mapping to the next",
}


def run(ctx: Ctx) -> None:
    prog, res = ctx.prog, ctx.res
    ctx.rule("C07.R1", "every random draw reachable from a mapping comes from a genotype-backed source (or the permitted extension)")
    ctx.rule("C07.R2", "a mapping writes only to objects it created itself (no state that outlives the mapping)")
    entries = [f for f in prog.implementations(REPRESENTATION, "genotype_to_phenotype")
               if not (len(f.node.body) == 1 and isinstance(f.node.body[0], ast.Return) and isinstance(f.node.body[0].value, ast.Name))]
    ctx.floor("C07.R1", len(entries), 4, "genotype-based genotype_to_phenotype implementations")
    total_draws = 0
    for f in sorted(entries, key=lambda x: x.fullname):
        gparam = f.params[1]
        pv = Provenance(prog, res)

        def user_configurable(recv: Term, g) -> bool:
            # a decider stored on the representation is one the user built from a RandomSource; a decider class whose
            # constructor is bound to one genotype is instantiated only by its own representation's mapping
            init = prog.lookup_method(g.cls, "__init__") if g.cls is not None else None
            return not (init is not None and len(init.params) > 1 and init.params[1] == "genotype")

        pv.cha_filter = user_configurable
        pv.run(f, {"self": Term("path", ("self",)), gparam: Term("path", ("genotype",))})
        seen = set()
        groups: dict[tuple, list] = {}
        for s in pv.draws:
            k = (id(s.node), s.term.key())
            if k in seen:
                continue
            seen.add(k)
            groups.setdefault((s.fn.qualname, s.term.key(), s.term.kind), []).append(s)
        total_draws += len(seen)
        rep = f.cls.name if f.cls else f.qualname
        for (site_fn, src, kind), sites in sorted(groups.items()):
            lines = sorted({s.node.lineno for s in sites})
            prims = sorted({s.what for s in sites})
            construct = f"{rep}: draws in {site_fn} come from {src}"
            if kind == "gb":
                ctx.ob("C07.R1", sites[0].fn, sites[0].node, construct, True, f"{len(lines)} draw site(s) {prims}")
            elif (f.fullname, site_fn, src) in PERMIT_DRAW:
                ctx.accept("C07.R1", f"{rep} / {site_fn}", PERMIT_DRAW[(f.fullname, site_fn, src)])
                ctx.ob("C07.R1", sites[0].fn, sites[0].node, construct, True, "permitted: " + PERMIT_DRAW[(f.fullname, site_fn, src)])
            elif kind == "unknown":
                ctx.ob("C07.R1", sites[0].fn, sites[0].node, construct, None, "receiver provenance could not be established")
            else:
                via = " -> ".join(sites[0].stack[-4:])
                ctx.ob("C07.R1", sites[0].fn, sites[0].node, construct, False,
                       f"mapping a genotype draws {prims} from '{src}' (lines {lines}, via {via}): the program depends on "
                       f"that stream's state, not on the genotype alone, and mapping advances the shared stream",
                       witness={"entry": f.fullname, "source": src, "site": site_fn, "lines": lines})
        # ---- R2 stores
        sseen = set()
        sgroups: dict[tuple, list] = {}
        for s in pv.stores:
            if s.term.kind not in ("path",):
                continue
            k = (id(s.node), s.term.key())
            if k in sseen:
                continue
            sseen.add(k)
            sgroups.setdefault((s.fn.qualname, s.term.key()), []).append(s)
        nfresh = len({id(s.node) for s in pv.stores if s.term.kind in ("obj", "gb", "new")})
        ctx.ob("C07.R2", f, f.node, f"{rep}: stores to objects created during the mapping", True, f"{nfresh} store site(s) on fresh objects")
        for (site_fn, tgt), sites in sorted(sgroups.items()):
            construct = f"{rep}: {site_fn} stores to {tgt}"
            root = tgt.split(".")[0]
            allowed = None
            for (pf, pt), why in PERMIT_STORE.items():
                if pf == site_fn and (tgt == pt or tgt.startswith(pt + ".") or tgt.endswith("." + pt.split(".", 1)[-1]) and pt.startswith("genotype")):
                    allowed = why
            if allowed:
                ctx.accept("C07.R2", f"{rep} / {site_fn}", allowed)
                ctx.ob("C07.R2", sites[0].fn, sites[0].node, construct, True, "allow-listed: " + allowed)
            else:
                ctx.ob("C07.R2", sites[0].fn, sites[0].node, construct, False,
                       f"the mapping writes '{sites[0].what}' on an object reached from the {'representation' if root == 'self' else 'genotype'} "
                       f"({tgt}): that state outlives the mapping, so mapping the same genotype again (or another one first) can "
                       f"give a different program")
        ctx.extra.setdefault("per_entry", {})[rep] = {"functions_visited": len(pv.visited_functions), "draw_sites": len(seen),
                                                      "store_sites": len(sseen) + nfresh, "unresolved_calls": len(pv.unresolved)}
        ctx.extra.setdefault("unresolved_on_mapping_paths", []).extend(
            sorted({f"{fn_.qualname}: {norm(c)[:50]}" for fn_, c in pv.unresolved})[:12])
    ctx.floor("C07.R1", total_draws, 40, "draw sites reachable from the mappings")
    ctx.assumptions += [
        "calls that cannot be resolved (ty(*args) in apply_constructor, the rec callback handed to refinements, user "
        "metahandlers) do not draw from a foreign source; the rec callback re-enters create_node with the same context",
        "a decider configured on a GE/SGE representation may be any SynthesisDecider subclass built from a RandomSource "
        "(class-hierarchy analysis); decider classes bound to one genotype at construction are only built by their own mapping",
    ]
