"""C07 - genotype-to-phenotype mapping is a pure function of the genotype (structural clauses)."""
from __future__ import annotations

import ast

from ..astutil import call_name
from ..frontend import AnalysisError, norm
from ..modelinterp import Budget, Interp, Sym, TypeV, UNKNOWN
from ..provenance import Provenance, Term
from ..report import Ctx
from .common import REPRESENTATION

LEVEL_TEXT = (
    "Interprocedural provenance analysis from the four genotype_to_phenotype entry points over the resolved call "
    "graph (context-sensitive on the provenance of arguments; constructed objects carry the provenance of their "
    "fields, through super().__init__ / Base.__init__ chains): (R1) every call of a RandomSource primitive "
    "reachable from a mapping is classified by the provenance of its receiver, pulled back to the entry: "
    "genotype-backed (a source built during the mapping from the genotype's genes), permitted (the one allow-"
    "listed site: dynamic SGE's on-demand extension of the genotype itself) or foreign (the decider's own stream,"
    " the genotype's stored search stream, a newly built source); foreign draws are findings, keyed by entry "
    "point, source and drawing function; (R2) every attribute / item store reachable from a mapping targets an "
    "object created during that mapping, or is allow-listed with a reason, or is a complete memo (R4's analysis: "
    "the key determines the stored value) whose value is computed from the key by methods of the read-only "
    "grammar and pure builtins alone: state reachable from the representation or the genotype must not be "
    "written, because it outlives the mapping and makes the result depend on mapping history. (R3) the permitted "
    "draw is an extension of the genotype: Genotype.get is interpreted on gene tables without the key / with 0, "
    "1, 2 genes and positions 0, 1 - afterwards the type's list is at least position+1 long in the genotype "
    "itself, the stored gene is returned, existing genes and other types are untouched and exactly the missing "
    "genes were drawn. (R4) memo-key completeness (sa/memo.py) over the methods of the representation modules: "
    "wherever an object looks an entry up, fills it when missing and uses it, every parameter the stored value "
    "depends on (data flow through locals and control flow through the branches it is computed under) is "
    "determined by the key - a key built by injective constructors only (tuples, aliases) determines its parts, a"
    " computed key ('hi - lo') determines only itself; cursors (a new value computed from the entry) and setters "
    "are not memos; (R5) the representation modules write no module-level or class-level containers (a dict "
    "created in a class body and modified through self is shared by every mapping), use no memoising decorators "
    "and no shared stateful defaults. Decides which source each decision is drawn from for all grammars and "
    "genotypes; does not execute a mapping."
)

PERMIT_DRAW = {
    ("geneticengine.representations.grammatical_evolution.dynamic_structured_ge:DynamicStructuredGrammaticalEvolutionRepresentation.genotype_to_phenotype",
     "Genotype.get", "genotype.random"):
        "the statement's permitted side effect: dynamic SGE extends the genotype itself on demand",
}
PERMIT_STORE = {
    ("Genotype.get", "genotype.dna"): "permitted on-demand extension of the genotype's own gene lists",
    ("PositionIndependentGrowDecider.choose_production_alternatives", "self.decider"):
        "self.expanding is re-initialised at the root of every tree (ctx.expansions == 0) before it is read: no "
        "information survives from one mapping to the next",
}


def _extension_model(ctx: Ctx, f, site) -> None:
    """C07.R3: the permitted draw is an *extension of the genotype*: interpreted on every small gene table (key missing,
    key present with 0 / 1 / 2 genes; position 0 / 1), the reading function leaves the gene list of the type at least
    position+1 long, returns the gene stored at that position, keeps the genes that were there, and draws exactly the
    missing ones - so a second read of the same position draws nothing and returns the same gene."""
    K, OTHER = TypeV("class", "K"), TypeV("class", "Other")
    p = f.params
    if len(p) < 3 or f.cls is None:
        ctx.ob("C07.R3", f, f.node, f"{f.qualname}: shape", None, "the permitted extension site is not a method (type, position)")
        return
    dna_attr = None
    for a in ast.walk(f.node):
        if isinstance(a, ast.Attribute) and isinstance(a.value, ast.Name) and a.value.id == "self" and a.attr != site:
            k = f.cls.class_attrs.get(a.attr)
            if k is not None and "dict" in norm(k):
                dna_attr = a.attr
    if dna_attr is None:
        ctx.ob("C07.R3", f, f.node, f"{f.qualname}: gene table", None, "no dict-typed gene table attribute found on the genotype class")
        return
    for present in (None, 0, 1, 2):
        for n in (0, 1):
            genes = [Sym(f"g{i}") for i in range(present or 0)]
            table = {OTHER: [Sym("o0")]}
            if present is not None:
                table[K] = list(genes)
            state = {"k": 0}

            def call_model(it, call, env, args, kwargs, state=state):
                if call_name(call) in ("randint", "random_int") and isinstance(call.func, ast.Attribute):
                    state["k"] += 1
                    return Sym(f"drawn{state['k']}")
                return None

            it = Interp(ctx.prog, f.cls, lambda it_, e, env_: None, call_model, max_depth=4, max_traces=8)
            it.on_start = lambda state=state: state.update(k=0)
            it.strict_index = True
            it.while_cap = 6
            env = {"self": Sym("self"), f"self.{site}": Sym("stream"), f"self.{dna_attr}": table, p[1]: K, p[2]: n}
            construct = f"{f.qualname}: gene table {'without the key' if present is None else f'with {present} gene(s)'}, position {n}"
            try:
                runs = it.run(f, env)
            except Budget:
                ctx.ob("C07.R3", f, f.node, construct, None, "model budget exceeded")
                continue
            ok, why = True, ""
            for (trace, rv, notes), env_after in zip(runs, it.envs):
                after = env_after.get(f"self.{dna_attr}")
                lst = after.get(K) if isinstance(after, dict) else None
                raised = [e for e in trace if e.kind == "raise"]
                need = max(0, n + 1 - (present or 0))
                if notes or rv is UNKNOWN and not raised:
                    ok, why = None, f"not interpretable: {notes[:2]}"
                elif raised:
                    ok, why = False, f"the read raises {raised[0].name}"
                elif not isinstance(lst, list) or len(lst) <= n:
                    ok, why = False, (f"after the read the genotype holds {len(lst) if isinstance(lst, list) else 'no'} gene(s) for the type: "
                                      f"the {need} value(s) drawn from the shared stream were not stored, so mapping the same genotype "
                                      f"again draws again and can give another program")
                elif lst[:len(genes)] != genes:
                    ok, why = False, "the genes already stored for the type were changed by the read"
                elif rv is not lst[n] and rv != lst[n]:
                    ok, why = False, f"the read returns {rv!r}, not the gene stored at the position ({lst[n]!r})"
                elif len(lst) != max(len(genes), n + 1):
                    ok, why = False, f"the read extends the gene list to {len(lst)} entries; {max(len(genes), n + 1)} are needed"
                elif after.get(OTHER) != [Sym("o0")]:
                    ok, why = False, "the read changes the genes of another type"
                if ok is not True:
                    break
            ctx.ob("C07.R3", f, f.node, construct, ok, why or "list extended in place, stored gene returned, drawn = missing")


def _grammar_memo(ctx: Ctx, sites) -> bool:
    """every store of the group is a complete memo (sa/memo.py: the key determines the stored value) whose value expression only calls methods of
    a Grammar-typed receiver or pure builtins on the key"""
    from ..memo import memo_sites
    PURE = {"len", "min", "max", "sum", "int", "float", "tuple", "frozenset", "sorted", "abs", "bool", "str"}
    for s_ in sites:
        ms = [m for m in memo_sites(s_.fn) if (m.node is s_.node or any(x is s_.node for x in ast.walk(m.node))) and m.key is not None and not m.missing]
        if not ms:
            return False
        for c_ in ast.walk(ms[0].value):
            if not isinstance(c_, ast.Call):
                continue
            if isinstance(c_.func, ast.Name) and c_.func.id in PURE:
                continue
            if isinstance(c_.func, ast.Attribute):
                t_ = ctx.types.of(s_.fn.module, c_.func.value)
                if t_ is not None and any(i.fn == "geneticengine.grammar.grammar.Grammar" for i in t_.instances()):
                    continue
            return False
    return True


def impure_mappings(ctx: Ctx) -> list[str]:
    """Representations whose genotype_to_phenotype reaches a random draw that is not genotype-backed (nor the permitted extension): mapping
    the same genotype twice need not give the same program there.  Used by C13 (is a re-derived program the individual's program?)."""
    prog, res = ctx.prog, ctx.res
    out = []
    entries = [f for f in prog.implementations(REPRESENTATION, "genotype_to_phenotype")
               if not (len(f.node.body) == 1 and isinstance(f.node.body[0], ast.Return) and isinstance(f.node.body[0].value, ast.Name))]
    for f in sorted(entries, key=lambda x: x.fullname):
        pv = Provenance(prog, res)

        def user_configurable(recv: Term, g) -> bool:
            init = prog.lookup_method(g.cls, "__init__") if g.cls is not None else None
            return not (init is not None and len(init.params) > 1 and init.params[1] == "genotype")
        pv.cha_filter = user_configurable
        pv.run(f, {"self": Term("path", ("self",)), f.params[1]: Term("path", ("genotype",))})
        for s_ in pv.draws:
            if s_.term.kind not in ("gb", "unknown") and (f.fullname, s_.fn.qualname, s_.term.key()) not in PERMIT_DRAW:
                out.append(f.cls.name if f.cls else f.qualname)
                break
    return out


def run(ctx: Ctx) -> None:
    prog, res = ctx.prog, ctx.res
    ctx.rule("C07.R3", "the permitted on-demand extension stores what it draws in the genotype and returns the stored gene")
    for (entry, site_fn, src), _why in PERMIT_DRAW.items():
        cls_name, meth = site_fn.split(".")
        cands = [g for g in prog.functions.values() if g.cls is not None and g.cls.name == cls_name and g.name == meth]
        if not cands:
            raise AnalysisError(f"anchor function missing: {site_fn} (the permitted extension site)")
        for g in cands:
            _extension_model(ctx, g, src.split(".")[-1])
    ctx.rule("C07.R4", "representation code keeps no memo whose key does not determine the remembered value (a mapping must not be answered from another mapping's arguments)")
    from .common import memo_rule
    scope4 = [f for f in prog.functions.values() if f.module.name.startswith("geneticengine.representations") and f.cls is not None]
    n4 = memo_rule(ctx, "C07.R4", scope4)
    ctx.floor("C07.R4", len(scope4), 60, "methods of the representation modules scanned for memo tables")
    ctx.ob("C07.R4", None, None, "methods of the representation modules scanned for memo tables", True, f"{len(scope4)} methods, {n4} memo / cursor sites",
           module="geneticengine/representations")
    ctx.rule("C07.R5", "the representation modules keep no state outside the objects of one mapping: no module-level / class-level containers written, no memoising decorators, no shared defaults")
    from .c08 import process_state_rule
    n5 = process_state_rule(ctx, "C07.R5", ("geneticengine.representations",))
    ctx.ob("C07.R5", None, None, "representation modules scanned for process-level and class-level state", True, f"{n5} candidate sites", module="geneticengine/representations")
    ctx.rule("C07.R1", "every random draw reachable from a mapping comes from a genotype-backed source (or the permitted extension)")
    ctx.rule("C07.R2", "a mapping writes only to objects it created itself (no state that outlives the mapping)")
    entries = [f for f in prog.implementations(REPRESENTATION, "genotype_to_phenotype")
               if not (len(f.node.body) == 1 and isinstance(f.node.body[0], ast.Return) and isinstance(f.node.body[0].value, ast.Name))]
    ctx.floor("C07.R1", len(entries), 4, "genotype-based genotype_to_phenotype implementations")
    total_draws = 0
    for f in sorted(entries, key=lambda x: x.fullname):
        gparam = f.params[1]
        pv = Provenance(prog, res)

        def user_configurable(recv: Term, g) -> bool:
            # a decider stored on the representation is one the user built from a RandomSource; a decider class whose
            # constructor is bound to one genotype is instantiated only by its own representation's mapping
            init = prog.lookup_method(g.cls, "__init__") if g.cls is not None else None
            return not (init is not None and len(init.params) > 1 and init.params[1] == "genotype")

        pv.cha_filter = user_configurable
        pv.run(f, {"self": Term("path", ("self",)), gparam: Term("path", ("genotype",))})
        seen = set()
        groups: dict[tuple, list] = {}
        for s in pv.draws:
            k = (id(s.node), s.term.key())
            if k in seen:
                continue
            seen.add(k)
            groups.setdefault((s.fn.qualname, s.term.key(), s.term.kind), []).append(s)
        total_draws += len(seen)
        rep = f.cls.name if f.cls else f.qualname
        for (site_fn, src, kind), sites in sorted(groups.items()):
            lines = sorted({s.node.lineno for s in sites})
            prims = sorted({s.what for s in sites})
            construct = f"{rep}: draws in {site_fn} come from {src}"
            if kind == "gb":
                ctx.ob("C07.R1", sites[0].fn, sites[0].node, construct, True, f"{len(lines)} draw site(s) {prims}")
            elif (f.fullname, site_fn, src) in PERMIT_DRAW:
                ctx.accept("C07.R1", f"{rep} / {site_fn}", PERMIT_DRAW[(f.fullname, site_fn, src)])
                ctx.ob("C07.R1", sites[0].fn, sites[0].node, construct, True, "permitted: " + PERMIT_DRAW[(f.fullname, site_fn, src)])
            elif kind == "unknown":
                ctx.ob("C07.R1", sites[0].fn, sites[0].node, construct, None, "receiver provenance could not be established")
            else:
                via = " -> ".join(sites[0].stack[-4:])
                ctx.ob("C07.R1", sites[0].fn, sites[0].node, construct, False,
                       f"mapping a genotype draws {prims} from '{src}' (lines {lines}, via {via}): the program depends on "
                       f"that stream's state, not on the genotype alone, and mapping advances the shared stream",
                       witness={"entry": f.fullname, "source": src, "site": site_fn, "lines": lines})
        # ---- R2 stores
        sseen = set()
        sgroups: dict[tuple, list] = {}
        for s in pv.stores:
            if s.term.kind not in ("path",):
                continue
            k = (id(s.node), s.term.key())
            if k in sseen:
                continue
            sseen.add(k)
            sgroups.setdefault((s.fn.qualname, s.term.key()), []).append(s)
        nfresh = len({id(s.node) for s in pv.stores if s.term.kind in ("obj", "gb", "new")})
        ctx.ob("C07.R2", f, f.node, f"{rep}: stores to objects created during the mapping", True, f"{nfresh} store site(s) on fresh objects")
        for (site_fn, tgt), sites in sorted(sgroups.items()):
            construct = f"{rep}: {site_fn} stores to {tgt}"
            root = tgt.split(".")[0]
            allowed = None
            for (pf, pt), why in PERMIT_STORE.items():
                # the position-independent grow flag is allowed wherever that decider class writes it (a hook method as much as the chooser itself)
                if pf.startswith("PositionIndependentGrowDecider.") and site_fn.startswith("PositionIndependentGrowDecider.") and tgt == pt \
                        and all(getattr(s_, "what", "") == "self.expanding" for s_ in sites):
                    allowed = why
                if pf == site_fn and (tgt == pt or tgt.startswith(pt + ".") or tgt.endswith("." + pt.split(".", 1)[-1]) and pt.startswith("genotype")):
                    allowed = why
            if not allowed and _grammar_memo(ctx, sites):
                allowed = ("a memo whose key determines the stored value and whose value is computed from the key and the (read-only, C10) grammar alone: "
                           "whatever mapping fills it, every later mapping reads the same value")
            if allowed:
                ctx.accept("C07.R2", f"{rep} / {site_fn}", allowed)
                ctx.ob("C07.R2", sites[0].fn, sites[0].node, construct, True, "allow-listed: " + allowed)
            else:
                ctx.ob("C07.R2", sites[0].fn, sites[0].node, construct, False,
                       f"the mapping writes '{sites[0].what}' on an object reached from the {'representation' if root == 'self' else 'genotype'} "
                       f"({tgt}): that state outlives the mapping, so mapping the same genotype again (or another one first) can "
                       f"give a different program")
        ctx.extra.setdefault("per_entry", {})[rep] = {"functions_visited": len(pv.visited_functions), "draw_sites": len(seen),
                                                      "store_sites": len(sseen) + nfresh, "unresolved_calls": len(pv.unresolved)}
        ctx.extra.setdefault("unresolved_on_mapping_paths", []).extend(
            sorted({f"{fn_.qualname}: {norm(c)[:50]}" for fn_, c in pv.unresolved})[:12])
    ctx.floor("C07.R1", total_draws, 40, "draw sites reachable from the mappings")
    ctx.assumptions += [
        "calls that cannot be resolved (ty(*args) in apply_constructor, the rec callback handed to refinements, user "
        "metahandlers) do not draw from a foreign source; the rec callback re-enters create_node with the same context",
        "a decider configured on a GE/SGE representation may be any SynthesisDecider subclass built from a RandomSource "
        "(class-hierarchy analysis); decider classes bound to one genotype at construction are only built by their own mapping",
    ]
