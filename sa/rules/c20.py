"""C20 - the CSV search log is faithful and prefix-valid (structural clauses)."""
from __future__ import annotations

import ast

from ..astutil import (COMPS, FUNCS, LOOPS, block_of, call_name, enclosing_loops, free_names, guards, is_self_attr,
                       loop_vars, may_fall_through, names_read, same_expr, stmts_after, truth_table)
from ..frontend import AnalysisError, FunctionInfo, ancestors, dotted, enclosing_stmt, norm, parent, walk_local
from ..report import Ctx

LEVEL_TEXT = (
    "(R1) every closure created in a loop / comprehension in recorder construction code binds the iteration "
    "variables it reads; (R2, R3, R4, R6) finite-model interpretation of the CSV recorder (__init__ then "
    "register; the file and the csv writer are symbolic objects whose writerow / flush calls are recorded; "
    "closures with Python's default-argument and late-binding semantics) for the default field table, an "
    "explicitly empty one and a custom one, each with and without extra fields, and the four (only_record_best, "
    "is_best) combinations: the header is the list of columns of the field mapping and is written once, every row"
    " has one cell per column, a row is written iff (not only_best) or is_best, column FitnessK holds component K"
    " of the registered individual (three objectives), extractors are applied to the registered individual, and "
    "every row written is followed by a flush of the log file; (R5) only the recorder touches the file / writer "
    "handles; (R7) evaluate() of every tracker is interpreted with two recorders: whatever the comparison "
    "outcomes, every individual handed back by the evaluator is registered with every recorder exactly once; two "
    "recorders with different gates (and module-level state shared within a trace) do not influence each other's "
    "columns; (R8) the is_best flag handed to recorders is the reference one (the C12 tracker models: batches "
    "with two improvements, ties, an existing best). (R9) recorder construction code keeps no table keyed by id()"
    " / hash() of an individual (the address of a collected individual is reused, a later individual would be "
    "logged with a dead one's value). Atomicity of one flushed write under a kill inside write(2) is not decided."
)

SEARCH_RECORDER = "geneticengine.evaluation.recorder.SearchRecorder"
TRACKER = "geneticengine.evaluation.tracker.ProgressTracker"


def _outlives(fn_node: ast.AST) -> bool:
    """Does the closure survive the iteration that created it? (stored / returned / collected)"""
    p = parent(fn_node)
    if isinstance(fn_node, (ast.FunctionDef, ast.AsyncFunctionDef)):
        return True  # judged by its uses below
    if isinstance(p, ast.Call):
        if fn_node in p.args or any(k.value is fn_node for k in p.keywords):
            n = call_name(p)
            # consumed immediately by the callee within the iteration
            if n in {"sorted", "max", "min", "map", "filter", "reduce", "sort", "sum", "any", "all", "list", "next"}:
                return False
            return True
        return False  # (lambda ...)(...) called on the spot
    return True


def closure_rule(ctx: Ctx, fns: list[FunctionInfo]) -> int:
    n = 0
    for fn in fns:
        for node in walk_local(fn.node, include_nested=True):
            if not isinstance(node, FUNCS) or node is fn.node:
                continue
            loops = enclosing_loops(node, stop=fn.node)
            if not loops:
                continue
            ivars = set()
            for lp in loops:
                ivars |= loop_vars(lp)
            if isinstance(node, (ast.FunctionDef, ast.AsyncFunctionDef)):
                # a def used only by direct calls inside the same iteration does not outlive it
                uses = [u for u in ast.walk(fn.node) if isinstance(u, ast.Name) and u.id == node.name
                        and isinstance(u.ctx, ast.Load)]
                if uses and all(isinstance(parent(u), ast.Call) and parent(u).func is u for u in uses):
                    continue
            elif not _outlives(node):
                continue
            n += 1
            late = sorted(free_names(node) & ivars)
            what = "lambda" if isinstance(node, ast.Lambda) else f"def {node.name}"
            ctx.ob("C20.R1", fn, node, f"closure in loop: {what} reads {sorted(free_names(node) & ivars) or 'no iteration variable'}",
                   not late,
                   f"closure outlives its iteration but reads loop variable(s) {late} by reference: every stored "
                   f"closure sees the last value" if late else "iteration variables are bound (default argument) or unused",
                   witness={"late_bound": late})
    return n


def _recorder_model(ctx: Ctx, c, init: FunctionInfo, reg: FunctionInfo) -> None:
    import re as _re
    from ..modelinterp import Budget, Effect, Interp, LocalFn, Obj, Sym, UNKNOWN, _NONE
    prog = ctx.prog
    fit = Obj("Fitness", {"maximizing_aggregate": Sym("agg"), "fitness_components": [Sym("c0"), Sym("c1"), Sym("c2")]})

    def call_model(it, call, env, args, kwargs):
        nm = call_name(call)
        recv = it.ev(call.func.value, env, 9) if isinstance(call.func, ast.Attribute) else None
        if nm == "open" and isinstance(call.func, ast.Name):
            return Sym("file")
        if nm == "writer" and args and isinstance(args[0], Sym) and args[0].tag == "file":
            return Sym("writer")
        if nm in ("writerow", "writerows") and isinstance(recv, Sym) and recv.tag == "writer":
            it.trace.append(Effect("call", "writerow", (list(args[0]) if args and isinstance(args[0], list) else (args[0] if args else UNKNOWN),), {}, node=call, fn=it.fn_stack[-1]))
            return _NONE
        if nm == "flush" and isinstance(recv, Sym):
            it.trace.append(Effect("call", "flush", (), {}, node=call, fn=it.fn_stack[-1], recv=recv))
            return _NONE
        if nm == "number_of_objectives":
            return 3
        if nm == "get_phenotype" and isinstance(recv, Sym):
            return Sym("phen:" + recv.tag)
        if nm == "get_fitness" and isinstance(recv, Sym) and recv.tag == "ind":
            return fit
        if nm in ("monotonic_ns", "makedirs", "dirname", "exists"):
            return UNKNOWN
        return None

    results = {}
    und = None
    # the configured field table: the default one (fields=None), an explicitly empty one (only the extra columns are wanted) and a custom one
    configs = [(None, extra, only, best) for extra in (None, {"Extra": Sym("EXTRAFN")}) for only in (False, True) for best in (False, True)]
    configs += [(cfg, extra, False, True) for cfg in ({}, {"Custom": Sym("CUSTOMFN")}) for extra in (None, {"Extra": Sym("EXTRAFN")})]
    # an extra field named like a default column replaces that column: still one header cell and one row cell per column of the mapping
    configs += [(None, {"Phenotype": Sym("EXTRAFN")}, False, True)]
    for fields_cfg, extra, only, best in configs:
        for _once in (0,):
            for _once2 in (0,):
                it = Interp(prog, c, lambda *_: None, call_model, max_depth=5, max_traces=16)
                it.sym_result = lambda fv, a: Sym(fv.tag + "()")
                env0 = {"self": Sym("self")}
                a = init.node.args
                names = [x.arg for x in a.posonlyargs + a.args + a.kwonlyargs][1:]
                defaults = dict(zip([x.arg for x in a.args][len(a.args) - len(a.defaults):], a.defaults))
                for p_ in names:
                    if "only" in p_:
                        env0[p_] = only
                    elif p_ == "extra_fields":
                        env0[p_] = dict(extra) if extra else None
                    elif p_ == "fields":
                        env0[p_] = None if fields_cfg is None else dict(fields_cfg)
                    elif p_ == "problem":
                        env0[p_] = Sym("problem")
                    elif p_ in defaults:
                        env0[p_] = it.ev(defaults[p_], {}, 0)
                    else:
                        env0[p_] = Sym(p_)
                rp = reg.params
                env = {"self": Sym("self"), rp[1]: Sym("tracker"), rp[2]: Sym("ind"), rp[3]: Sym("problem"), rp[4]: best}
                try:
                    runs = it.run(reg, env, prelude=(init, env0))
                except Budget:
                    und = "too many interpretations"
                    continue
                gkey = ("<override>",) if (extra and "Phenotype" in extra) else (None if fields_cfg is None else tuple(fields_cfg))
                results[(bool(extra) and "Extra" in extra, only, best, gkey)] = (runs, it.prelude_len, list(it.envs))
    bad = {}
    n = 0
    for (has_extra, only, best, given), (runs, plen, envs) in results.items():
        for (trace, rv, notes), env_after in zip(runs, envs):
            if any(e.kind == "raise" for e in trace):
                continue
            if notes:
                und = und or ("not followed: " + "; ".join(notes)[:200])
                continue
            n += 1
            pre, post = trace[:plen], trace[plen:]
            scen = {"extra_fields": has_extra, "only_record_best_individuals": only, "is_best": best,
                    "fields": "default" if given is None else ("{}" if not given else list(given))}
            if given == ("<override>",):
                scen["extra_fields"] = "{'Phenotype': ...} (overrides a default column)"
            fields = env_after.get("self.fields")
            fkeys = list(fields.keys()) if isinstance(fields, dict) else None
            # every writerow is followed by a flush before the method ends / the next write
            for part, where in ((pre, "__init__"), (post, "register")):
                ws = [i for i, e in enumerate(part) if e.kind == "call" and e.name == "writerow"]
                for i in ws:
                    nxt = next((e for e in part[i + 1:] if e.kind == "call" and e.name in ("writerow", "flush")), None)
                    if nxt is None or nxt.name != "flush" or not (isinstance(nxt.recv, Sym) and nxt.recv.tag == "file"):
                        bad.setdefault("flush", (f"in {where} a row is written without a flush of the log file following it: a crash leaves the row in the "
                                                 f"buffer (or half written)", scen))
            hdr = [e for e in pre if e.kind == "call" and e.name == "writerow"]
            if len(hdr) != 1 or not isinstance(hdr[0].args[0], list):
                if fkeys is None:
                    und = und or "header / field mapping not followed"
                else:
                    bad.setdefault("header", (f"{len(hdr)} rows are written by __init__ (expected exactly the header)", scen))
                continue
            header = hdr[0].args[0]
            if fkeys is not None and header != fkeys:
                bad.setdefault("header", (f"the header is {header!r} but the field mapping has the columns {fkeys!r}: rows and header disagree", scen))
            if given == ("<override>",):
                if len(header) != len(set(map(str, header))):
                    bad.setdefault("header", (f"with an extra field named like the default column 'Phenotype' the header is {header!r}: a column appears twice, "
                                              f"rows (one cell per column of the mapping) no longer line up with it", scen))
            elif given is not None and sorted(map(str, header)) != sorted(list(given) + (["Extra"] if has_extra else [])):
                bad.setdefault("header", (f"configured with fields={'{}' if not given else list(given)}" + (" and one extra field" if has_extra else "") +
                                          f" the header is {header!r}: the log does not hold one column per configured field", scen))
            if has_extra and "Extra" not in header:
                bad.setdefault("header", (f"the extra field is missing from the header {header!r}", scen))
            rows = [e for e in post if e.kind == "call" and e.name == "writerow"]
            want = (not only) or best
            if (len(rows) == 1) != want or len(rows) > 1:
                bad.setdefault("gate", (f"only_record_best_individuals={only}, is_best={best}: {len(rows)} row(s) written, expected {1 if want else 0}", scen))
                continue
            if rows:
                row = rows[0].args[0]
                if not isinstance(row, list):
                    und = und or "row not followed"
                    continue
                if len(row) != len(header):
                    bad.setdefault("rows", (f"a row has {len(row)} cells, the header {len(header)} columns", scen))
                    continue
                for col, cell in zip(header, row):
                    m = _re.fullmatch(r"Fitness(\d+)", col) if isinstance(col, str) else None
                    if m:
                        k = int(m.group(1))
                        if cell != Sym(f"c{k}"):
                            bad.setdefault("fitness", (f"column {col} holds {cell!r} instead of fitness component {k} of the registered individual"
                                                       + (": every FitnessK closure reads the last component (late binding)" if cell == Sym("c2") else ""), scen))
                    elif col == "Phenotype" and given == ("<override>",):
                        if cell != Sym("EXTRAFN()"):
                            bad.setdefault("extractor", (f"column Phenotype, overridden by an extra field, holds {cell!r}, not the value of the extra field's callback", scen))
                    elif col == "Phenotype" and cell != Sym("phen:ind"):
                        bad.setdefault("extractor", (f"column Phenotype holds {cell!r}, not the registered individual's phenotype", scen))
                    elif col == "Custom" and cell != Sym("CUSTOMFN()"):
                        bad.setdefault("extractor", (f"column Custom holds {cell!r}, not the value of the configured field's callback", scen))
                    elif col == "Extra" and cell != Sym("EXTRAFN()"):
                        bad.setdefault("extractor", (f"column Extra holds {cell!r}, not the value of the extra field's callback", scen))
    # ---- two recorders in one process: the second one's columns do not depend on the first one's configuration
    it = Interp(prog, c, lambda *_: None, call_model, max_depth=5, max_traces=16)
    it.sym_result = lambda fv, a: Sym(fv.tag + "()")
    it.prelude_same_object = False

    def init_env(extra, tag):
        env0 = {"self": Sym(tag)}
        a = init.node.args
        names = [x.arg for x in a.posonlyargs + a.args + a.kwonlyargs][1:]
        defaults = dict(zip([x.arg for x in a.args][len(a.args) - len(a.defaults):], a.defaults))
        for p_ in names:
            if "only" in p_:
                env0[p_] = False
            elif p_ == "extra_fields":
                env0[p_] = dict(extra) if extra else None
            elif p_ == "fields":
                env0[p_] = None
            elif p_ == "problem":
                env0[p_] = Sym("problem")
            elif p_ in defaults:
                env0[p_] = it.ev(defaults[p_], {}, 0)
            else:
                env0[p_] = Sym(p_)
        return env0

    try:
        runs2 = it.run(init, init_env(None, "self2"), prelude=(init, init_env({"Extra": Sym("EXTRAFN")}, "self")))
        for trace, rv, notes in runs2:
            if any(e.kind == "raise" for e in trace):
                continue
            if notes:
                und = und or notes[0]          # something the model does not follow (a table keyed by an unknown value, ...): no verdict from this run
                continue
            second = [e for e in trace[it.prelude_len:] if e.kind == "call" and e.name == "writerow"]
            if len(second) == 1 and isinstance(second[0].args[0], list):
                hdr2 = second[0].args[0]
                if "Extra" in hdr2 or len([x for x in hdr2 if isinstance(x, str) and x.startswith("Fitness")]) != 3:
                    bad.setdefault("header", (f"a second recorder created without extra fields (after one with the extra field 'Extra') writes the header "
                                              f"{hdr2!r}: the default column table is shared between recorder objects and keeps the first one's columns",
                                              {"first": "extra_fields={'Extra': ...}", "second": "defaults"}))
            else:
                und = und or "header of a second recorder not followed"
    except Budget:
        und = und or "too many interpretations (two recorders)"

    for key, rule, desc in (("flush", "C20.R2", "every row written is followed by a flush of the log file"),
                            ("header", "C20.R3", "the header is the list of columns of the field mapping (default and extra fields), written once"),
                            ("rows", "C20.R3", "every row has one cell per header column"),
                            ("gate", "C20.R4", "a row is written iff (not only_best) or is_best"),
                            ("fitness", "C20.R6", "column FitnessK holds component K of the registered individual"),
                            ("extractor", "C20.R6", "extractors are applied to the registered individual")):
        b = bad.get(key)
        ctx.ob(rule, reg if key in ("gate", "rows", "fitness", "extractor") else init, (reg if key in ("gate", "rows", "fitness", "extractor") else init).node,
               f"{c.name}: {desc}", False if b else (None if und else True), b[0] if b else (und or ""), witness=b[1] if b else {"scenarios": n})
    ctx.floor("C20.R3", n, 8 if not und else 0, "interpreted recorder scenarios")


def is_stub_fn(f) -> bool:
    from ..frontend import is_stub
    return is_stub(f.node)


def run(ctx: Ctx) -> None:
    prog, res = ctx.prog, ctx.res
    ctx.rule("C20.R1", "closures stored from a loop/comprehension bind the iteration variables they read")
    ctx.rule("C20.R2", "every writerow is followed on all paths by flush() of the file the writer wraps")
    ctx.rule("C20.R3", "header and rows iterate the same field mapping; mapping not modified after the header")
    ctx.rule("C20.R4", "a row is written iff (not only_best) or is_best")
    ctx.rule("C20.R5", "only the recorder writes the log file")
    ctx.rule("C20.R6", "FitnessK column index = K; extractors read the registered individual's program")
    ctx.rule("C20.R7", "trackers register every evaluated individual with every recorder, once")

    recorders = [c for c in prog.subclasses(SEARCH_RECORDER)]
    csv_recs = []
    for c in recorders:
        for f in c.methods.values():
            for call in res.calls_in(f):
                t = res.resolve(f, call)
                if t.kind == "external" and t.name in ("csv.writer", "csv.DictWriter"):
                    if c not in csv_recs:
                        csv_recs.append(c)
    if not csv_recs:
        raise AnalysisError("C20: no SearchRecorder subclass using csv.writer found (anchor vanished)")

    # ---- R1 scope: recorder methods + every function constructing a recorder
    scope: list[FunctionInfo] = []
    for c in recorders:
        scope.extend(c.methods.values())
    for f in prog.functions.values():
        if f in scope or f.parent is not None:
            continue
        for call in res.calls_in(f):
            t = res.resolve(f, call)
            if t.kind == "ctor" and t.cls is not None and prog.is_subclass(t.cls, SEARCH_RECORDER):
                scope.append(f)
                break
    n = closure_rule(ctx, scope)
    ctx.floor("C20.R1", n, 1, "closures created in loops within recorder construction code")
    # ---- R9: a column value is computed from the individual that is being registered - not looked up under its address.  id() / hash()
    # identify an object only while it is alive; the individuals of earlier generations are collected and their addresses reused, so a
    # table keyed by id(individual) hands a later individual the value computed for a dead one.
    ctx.rule("C20.R9", "column extractors keep no table keyed by the address / hash of an individual (addresses are reused once an individual is collected)")
    n9 = 0
    for f in scope:
        for c9 in walk_local(f.node, include_nested=True):
            if isinstance(c9, ast.Call) and isinstance(c9.func, ast.Name) and c9.func.id in ("id", "hash") and len(c9.args) == 1:
                in_log = any(isinstance(a, ast.Call) and isinstance(a.func, ast.Attribute) and a.func.attr in ("debug", "info", "warning", "error")
                             for a in ancestors(c9)) or any(isinstance(a, ast.JoinedStr) for a in ancestors(c9))
                n9 += 1
                ctx.ob("C20.R9", f, c9, f"{c9.func.id}() of an object in recorder field code", in_log,
                       "" if in_log else f"'{norm(c9)}' is used as (part of) a key: the address of a collected individual is reused by a later one, "
                                         f"which is then logged with the value computed for the dead individual - the row no longer describes the registered individual")
    ctx.ob("C20.R9", None, None, "recorder construction code scanned for address-keyed tables", True, f"{len(scope)} functions, {n9} id()/hash() calls",
           module="geneticengine/evaluation/recorder.py")

    for c in csv_recs:
        init = c.methods.get("__init__")
        reg = c.methods.get("register")
        if init is None or reg is None:
            raise AnalysisError(f"C20: {c.fullname} lacks __init__/register")
        # writer / file attributes
        writer_attr = file_attr = None
        for n_ in walk_local(init.node):
            if isinstance(n_, ast.Assign) and isinstance(n_.value, ast.Call) and len(n_.targets) == 1 \
                    and is_self_attr(n_.targets[0]):
                t = res.resolve(init, n_.value)
                if t.kind == "external" and t.name == "csv.writer" and n_.value.args and is_self_attr(n_.value.args[0]):
                    writer_attr, file_attr = n_.targets[0].attr, n_.value.args[0].attr
        if writer_attr is None:
            raise AnalysisError(f"C20: cannot find self.<writer> = csv.writer(self.<file>) in {init.fullname}")

        # ---- R2 / R3 / R4 / R6: the recorder is interpreted (sa/modelinterp): __init__ (default fields, with and without extra
        # fields) followed by register() for the four (only_best, is_best) combinations; the file and csv writer are symbolic
        # objects whose writerow / flush calls are recorded
        _recorder_model(ctx, c, init, reg)

    # extra-field wrappers built outside the recorder (SimpleGP): callback key = dict key, argument = individual's program
    for f in scope:
        if f.cls is not None and f.cls in recorders:
            continue
        for lam in [x for x in walk_local(f.node, include_nested=True) if isinstance(x, ast.Lambda)]:
            p = parent(lam)
            if not (isinstance(p, ast.DictComp) and p.value is lam):
                continue
            a = lam.args
            pos = [x.arg for x in a.args]
            defaults = dict(zip(pos[len(pos) - len(a.defaults):], a.defaults))
            calls = [c for c in ast.walk(lam.body) if isinstance(c, ast.Call) and isinstance(c.func, ast.Subscript)]
            for c in calls:
                k = c.func.slice
                ok_key = False
                if isinstance(k, ast.Name) and isinstance(p.key, ast.Name):
                    src = defaults.get(k.id)
                    den = src.id if isinstance(src, ast.Name) else (k.id if k.id not in pos else None)
                    ok_key = den == p.key.id
                ok_arg = bool(c.args) and isinstance(c.args[0], ast.Call) and call_name(c.args[0]) == "get_phenotype" \
                    and isinstance(c.args[0].func, ast.Attribute) and isinstance(c.args[0].func.value, ast.Name) \
                    and len(pos) >= 2 and c.args[0].func.value.id == pos[1]
                ctx.ob("C20.R6", f, c, f"extra-field wrapper for key {norm(p.key)}", ok_key and ok_arg,
                       "" if ok_key and ok_arg else
                       f"wrapper {'uses another key than its column' if not ok_key else 'is not applied to the registered individual program'}")

    # ---- R5 single writer: across the whole scope nothing else touches csv file/writer attributes
    nother = 0
    rec_fulls = {c.fullname for c in csv_recs}
    for f in prog.functions.values():
        if f.cls is not None and f.cls.fullname in rec_fulls:
            # inside the recorder: only writerow/flush/close on the handles; 'open' only in __init__
            for call in res.calls_in(f):
                if isinstance(call.func, ast.Attribute) and is_self_attr(call.func.value) \
                        and call.func.value.attr in (writer_attr, file_attr):
                    nother += 1
                    ok = call.func.attr in ("writerow", "flush", "close")
                    ctx.ob("C20.R5", f, call, f"self.{call.func.value.attr}.{call.func.attr}", ok,
                           "" if ok else "raw write/seek/truncate on the log handle bypasses row-at-a-time writing")
                if isinstance(call.func, ast.Name) and call.func.id == "open":
                    nother += 1
                    ctx.ob("C20.R5", f, call, "open(...)", f.name == "__init__",
                           "" if f.name == "__init__" else "log file (re)opened outside construction")
            continue
        for n_ in walk_local(f.node, include_nested=False):
            if isinstance(n_, ast.Attribute) and n_.attr in (writer_attr, file_attr) and not is_self_attr(n_):
                nother += 1
                ctx.ob("C20.R5", f, n_, f"foreign access to .{n_.attr}", False,
                       "code outside the recorder reaches the log handle")
    ctx.floor("C20.R5", nother, 2, "handle uses inside the recorder")

    # ---- R7 trackers register everything: evaluate() of every tracker class is interpreted (sa/modelinterp; methods of the
    # tracker inlined through the hierarchy) on batches of symbolic individuals with two recorders; whatever the comparison
    # outcomes (explored both ways), every individual the evaluator hands back is registered with every recorder exactly once
    from ..modelinterp import Budget, Interp, Sym, UNKNOWN
    n7 = 0
    for c in prog.subclasses(TRACKER):
        ev = prog.lookup_method(c, "evaluate")
        if ev is None or ev.cls is None or is_stub_fn(ev):
            continue
        n7 += 1
        bad = und = None
        for batch in (["i1"], ["i1", "i2"]):
            inds = [Sym(t) for t in batch]

            def call_model(it, call, env, args, kwargs, inds=inds):
                nm = call_name(call)
                if nm == "evaluate_async":
                    return list(inds)
                return None

            it = Interp(prog, c, lambda *_: None, call_model, record_calls=("register",), max_depth=5, max_traces=128)
            env = {"self": Sym("self"), ev.params[1]: list(inds), "self.recorders": [Sym("rec1"), Sym("rec2")], "self.problem": Sym("problem"),
                   "self.evaluator": Sym("evaluator"), "self.best_individual": None, "self.pareto_front": []}
            try:
                runs = it.run(ev, env)
            except Budget:
                und = "too many interpretations"
                continue
            for trace, rv, notes in runs:
                if any(e.kind == "raise" for e in trace):
                    continue
                regs = [e for e in trace if e.kind == "call" and e.name == "register"]
                for t in batch:
                    for r in ("rec1", "rec2"):
                        k = sum(1 for e in regs if isinstance(e.recv, Sym) and e.recv.tag == r and
                                (e.kwargs.get("individual") == Sym(t) or (len(e.args) >= 2 and e.args[1] == Sym(t))))
                        if k != 1 and bad is None:
                            unk = any(e.recv is UNKNOWN or e.kwargs.get("individual", Sym("?")) is UNKNOWN for e in regs)
                            if unk:
                                und = und or "register calls not followed"
                            else:
                                bad = (f"for the batch {batch} individual {t} is registered {k} time(s) with recorder {r} on a path "
                                       f"(is_best flags {[e.kwargs.get('is_best') for e in regs]}): " +
                                       ("an evaluated individual is missing from the log" if k == 0 else "an individual is logged more than once"))
        ctx.ob("C20.R7", ev, ev.node, f"{c.name}: every evaluated individual is registered with every recorder exactly once (all comparison outcomes)",
               False if bad else (None if und else True), bad or und or "")
    ctx.floor("C20.R7", n7, 2, "tracker evaluate implementations")
    # ---- R8: the is_best flag the recorders gate on is 'first or strictly better than the current best' (C12's tracker model)
    ctx.rule("C20.R8", "the is_best flag handed to the recorders is true exactly for the first individual and for strict improvements")
    from .c12 import rule_r1_multi, rule_r1_single
    before = len(ctx.obligations)
    rule_r1_single(ctx)
    rule_r1_multi(ctx)
    for o in ctx.obligations[before:]:
        o.rule = "C20.R8"
    ctx.assumptions += [
        "csv.writer.writerow assembles the whole record before a single write() on the file object (CPython _csv)",
        "atomicity of one flushed write with respect to a kill inside write(2) is not decided (OS behaviour)",
    ]


def _precedes(a: ast.stmt, b: ast.stmt, fn_node: ast.AST) -> bool:
    """a's outermost enclosing top-level statement comes before b's in the function body."""
    def top(s):
        while parent(s) is not fn_node:
            s = parent(s)
        return s
    body = fn_node.body
    return body.index(top(a)) < body.index(top(b))
