"""C20 - the CSV search log is faithful and prefix-valid (structural clauses)."""
from __future__ import annotations

import ast

from ..astutil import (COMPS, FUNCS, LOOPS, block_of, call_name, enclosing_loops, free_names, guards, is_self_attr,
                       loop_vars, may_fall_through, names_read, same_expr, stmts_after, truth_table)
from ..frontend import AnalysisError, FunctionInfo, ancestors, dotted, enclosing_stmt, norm, parent, walk_local
from ..report import Ctx

LEVEL_TEXT = (
    "Static rules over the recorder/tracker sources: (R1) every closure created in a loop or comprehension that is "
    "stored binds the iteration variable it reads; (R2) every writerow on the recorder's csv writer is followed on "
    "every path by a flush of the wrapped file; (R3) header and rows are comprehensions over the same field mapping, "
    "not modified after the header; (R4) the row gate is exactly (not only_best or is_best); (R5) nothing else "
    "writes the file; (R6) column name and component index come from the same bound variable and extractors read the "
    "registered individual; (R7) trackers register every evaluated individual with every recorder. Decides these "
    "necessary conditions for all histories and configurations; does not decide OS-level atomicity of one write."
)

SEARCH_RECORDER = "geneticengine.evaluation.recorder.SearchRecorder"
TRACKER = "geneticengine.evaluation.tracker.ProgressTracker"


def _outlives(fn_node: ast.AST) -> bool:
    """Does the closure survive the iteration that created it? (stored / returned / collected)"""
    p = parent(fn_node)
    if isinstance(fn_node, (ast.FunctionDef, ast.AsyncFunctionDef)):
        return True  # judged by its uses below
    if isinstance(p, ast.Call):
        if fn_node in p.args or any(k.value is fn_node for k in p.keywords):
            n = call_name(p)
            # consumed immediately by the callee within the iteration
            if n in {"sorted", "max", "min", "map", "filter", "reduce", "sort", "sum", "any", "all", "list", "next"}:
                return False
            return True
        return False  # (lambda ...)(...) called on the spot
    return True


def closure_rule(ctx: Ctx, fns: list[FunctionInfo]) -> int:
    n = 0
    for fn in fns:
        for node in walk_local(fn.node, include_nested=True):
            if not isinstance(node, FUNCS) or node is fn.node:
                continue
            loops = enclosing_loops(node, stop=fn.node)
            if not loops:
                continue
            ivars = set()
            for lp in loops:
                ivars |= loop_vars(lp)
            if isinstance(node, (ast.FunctionDef, ast.AsyncFunctionDef)):
                # a def used only by direct calls inside the same iteration does not outlive it
                uses = [u for u in ast.walk(fn.node) if isinstance(u, ast.Name) and u.id == node.name
                        and isinstance(u.ctx, ast.Load)]
                if uses and all(isinstance(parent(u), ast.Call) and parent(u).func is u for u in uses):
                    continue
            elif not _outlives(node):
                continue
            n += 1
            late = sorted(free_names(node) & ivars)
            what = "lambda" if isinstance(node, ast.Lambda) else f"def {node.name}"
            ctx.ob("C20.R1", fn, node, f"closure in loop: {what} reads {sorted(free_names(node) & ivars) or 'no iteration variable'}",
                   not late,
                   f"closure outlives its iteration but reads loop variable(s) {late} by reference: every stored "
                   f"closure sees the last value" if late else "iteration variables are bound (default argument) or unused",
                   witness={"late_bound": late})
    return n


def is_stub_fn(f) -> bool:
    from ..frontend import is_stub
    return is_stub(f.node)


def run(ctx: Ctx) -> None:
    prog, res = ctx.prog, ctx.res
    ctx.rule("C20.R1", "closures stored from a loop/comprehension bind the iteration variables they read")
    ctx.rule("C20.R2", "every writerow is followed on all paths by flush() of the file the writer wraps")
    ctx.rule("C20.R3", "header and rows iterate the same field mapping; mapping not modified after the header")
    ctx.rule("C20.R4", "a row is written iff (not only_best) or is_best")
    ctx.rule("C20.R5", "only the recorder writes the log file")
    ctx.rule("C20.R6", "FitnessK column index = K; extractors read the registered individual's program")
    ctx.rule("C20.R7", "trackers register every evaluated individual with every recorder, once")

    recorders = [c for c in prog.subclasses(SEARCH_RECORDER)]
    csv_recs = []
    for c in recorders:
        for f in c.methods.values():
            for call in res.calls_in(f):
                t = res.resolve(f, call)
                if t.kind == "external" and t.name in ("csv.writer", "csv.DictWriter"):
                    if c not in csv_recs:
                        csv_recs.append(c)
    if not csv_recs:
        raise AnalysisError("C20: no SearchRecorder subclass using csv.writer found (anchor vanished)")

    # ---- R1 scope: recorder methods + every function constructing a recorder
    scope: list[FunctionInfo] = []
    for c in recorders:
        scope.extend(c.methods.values())
    for f in prog.functions.values():
        if f in scope or f.parent is not None:
            continue
        for call in res.calls_in(f):
            t = res.resolve(f, call)
            if t.kind == "ctor" and t.cls is not None and prog.is_subclass(t.cls, SEARCH_RECORDER):
                scope.append(f)
                break
    n = closure_rule(ctx, scope)
    ctx.floor("C20.R1", n, 2, "closures created in loops within recorder construction code")

    for c in csv_recs:
        init = c.methods.get("__init__")
        reg = c.methods.get("register")
        if init is None or reg is None:
            raise AnalysisError(f"C20: {c.fullname} lacks __init__/register")
        # writer / file attributes
        writer_attr = file_attr = None
        for n_ in walk_local(init.node):
            if isinstance(n_, ast.Assign) and isinstance(n_.value, ast.Call) and len(n_.targets) == 1 \
                    and is_self_attr(n_.targets[0]):
                t = res.resolve(init, n_.value)
                if t.kind == "external" and t.name == "csv.writer" and n_.value.args and is_self_attr(n_.value.args[0]):
                    writer_attr, file_attr = n_.targets[0].attr, n_.value.args[0].attr
        if writer_attr is None:
            raise AnalysisError(f"C20: cannot find self.<writer> = csv.writer(self.<file>) in {init.fullname}")

        # ---- R2 write -> flush
        nwrites = 0
        for f in c.methods.values():
            for call in res.calls_in(f):
                if isinstance(call.func, ast.Attribute) and call.func.attr in ("writerow", "writerows") \
                        and is_self_attr(call.func.value, writer_attr):
                    nwrites += 1
                    st = enclosing_stmt(call)
                    ok, why = False, "no flush of the wrapped file follows the write in the same block"
                    for later in stmts_after(st):
                        if isinstance(later, ast.Expr) and isinstance(later.value, ast.Call) \
                                and isinstance(later.value.func, ast.Attribute) and later.value.func.attr == "flush" \
                                and is_self_attr(later.value.func.value, file_attr):
                            ok, why = True, f"self.{file_attr}.flush() follows in the same block"
                            break
                        if not may_fall_through([later]) or isinstance(later, (ast.If, ast.For, ast.While, ast.Try, ast.With)):
                            why = f"control may leave before a flush ({type(later).__name__} at line {later.lineno})"
                            break
                    ctx.ob("C20.R2", f, call, f"self.{writer_attr}.{call.func.attr}(...) -> flush", ok, why)
        ctx.floor("C20.R2", nwrites, 2, f"writerow sites in {c.name}")

        # ---- R3 columns agree
        fields_attr = None
        header_call = None
        for call in res.calls_in(init):
            if isinstance(call.func, ast.Attribute) and call.func.attr == "writerow" and call.args:
                a = call.args[0]
                if isinstance(a, (ast.ListComp, ast.GeneratorExp)) and len(a.generators) == 1 \
                        and is_self_attr(a.generators[0].iter) and isinstance(a.elt, ast.Name) \
                        and a.elt.id in loop_vars(a):
                    fields_attr, header_call = a.generators[0].iter.attr, call
                elif isinstance(a, ast.Call) and call_name(a) in ("list", "tuple") and a.args and is_self_attr(a.args[0]):
                    fields_attr, header_call = a.args[0].attr, call
        ctx.ob("C20.R3", init, header_call or init.node, "header = keys of the field mapping", header_call is not None,
               "header row is not a plain enumeration of self.<fields> keys" if header_call is None else
               f"header enumerates self.{fields_attr}")
        if header_call is not None:
            hdr_stmt = enclosing_stmt(header_call)
            # rows
            for call in res.calls_in(reg):
                if isinstance(call.func, ast.Attribute) and call.func.attr == "writerow" and call.args:
                    a = call.args[0]
                    ok = False
                    why = "row is not [self.<fields>[name](...) for name in self.<fields>] over the header's mapping"
                    if isinstance(a, (ast.ListComp, ast.GeneratorExp)) and len(a.generators) == 1 \
                            and is_self_attr(a.generators[0].iter, fields_attr) and not a.generators[0].ifs:
                        var = loop_vars(a)
                        e = a.elt
                        if isinstance(e, ast.Call) and isinstance(e.func, ast.Subscript) \
                                and is_self_attr(e.func.value, fields_attr) and isinstance(e.func.slice, ast.Name) \
                                and e.func.slice.id in var:
                            ok, why = True, "row cells are produced by the mapping's own values in mapping order"
                    ctx.ob("C20.R3", reg, call, "row = values of the same mapping in the same order", ok, why)
            # stores to the mapping
            for f in c.methods.values():
                for n_ in walk_local(f.node, include_nested=True):
                    tgt = None
                    if isinstance(n_, (ast.Assign, ast.AugAssign, ast.AnnAssign, ast.Delete)):
                        tgts = n_.targets if isinstance(n_, (ast.Assign, ast.Delete)) else [n_.target]
                        for t in tgts:
                            b = t.value if isinstance(t, ast.Subscript) else t
                            if is_self_attr(b, fields_attr):
                                tgt = n_
                    elif isinstance(n_, ast.Call) and isinstance(n_.func, ast.Attribute) \
                            and is_self_attr(n_.func.value, fields_attr) \
                            and n_.func.attr in {"update", "pop", "popitem", "clear", "setdefault", "__setitem__", "__delitem__"}:
                        tgt = enclosing_stmt(n_)
                    if tgt is None:
                        continue
                    ok = f is init and _precedes(tgt, hdr_stmt, init.node)
                    ctx.ob("C20.R3", f, tgt, f"store to self.{fields_attr}: {norm(tgt)[:60]}", ok,
                           "mapping modified before the header is written" if ok else
                           "field mapping modified after (or outside) the header write: rows and header disagree")

        # ---- R4 gating
        params = reg.params
        if len(params) < 5:
            raise AnalysisError(f"C20: {reg.fullname} signature changed")
        is_best_p = params[4]
        only_attr = None
        for n_ in walk_local(init.node):
            if isinstance(n_, ast.Assign) and len(n_.targets) == 1 and is_self_attr(n_.targets[0]) \
                    and isinstance(n_.value, ast.Name) and "only" in n_.value.id and n_.value.id in init.params:
                only_attr = n_.targets[0].attr
        for call in res.calls_in(reg):
            if isinstance(call.func, ast.Attribute) and call.func.attr == "writerow":
                gs = guards(call, stop=reg.node)
                if only_attr is None:
                    ctx.ob("C20.R4", reg, call, "row gate", None, "cannot identify the only-best configuration attribute")
                    continue
                atoms = {"a_only": lambda e: is_self_attr(e, only_attr),
                         "b_best": lambda e: isinstance(e, ast.Name) and e.id == is_best_p}
                tables = []
                for test, pol in gs:
                    tt = truth_table(test, atoms)
                    tables.append((tt, pol))
                if any(t is None for t, _ in tables):
                    ctx.ob("C20.R4", reg, call, "row gate", None, "guard is not a boolean combination of only_best/is_best")
                    continue
                bad = []
                for only in (False, True):
                    for best in (False, True):
                        written = all((t[(only, best)] == pol) for t, pol in tables)
                        want = (not only) or best
                        if written != want:
                            bad.append({"only_best": only, "is_best": best, "written": written, "expected": want})
                ctx.ob("C20.R4", reg, call, "row gate = (not only_best) or is_best", not bad,
                       f"gate differs at {bad}" if bad else "truth table matches on all 4 assignments", witness=bad)

        # ---- R6 column/index agreement and extractor provenance
        n6 = 0
        for lam in [x for m_ in c.methods.values() for x in walk_local(m_.node, include_nested=True) if isinstance(x, ast.Lambda)]:
            subs = [s for s in ast.walk(lam.body) if isinstance(s, ast.Subscript)
                    and isinstance(s.value, ast.Attribute) and s.value.attr == "fitness_components"]
            if not subs:
                continue
            st = enclosing_stmt(lam)
            key = None
            if isinstance(st, ast.Assign) and isinstance(st.targets[0], ast.Subscript):
                key = st.targets[0].slice
            for s in subs:
                n6 += 1
                idx = s.slice
                ok, why = False, "column key and component index are not the same bound variable"
                if isinstance(idx, ast.Name) and key is not None:
                    # the index must denote the loop variable that also forms the column name
                    a = lam.args
                    defaults = dict(zip([x.arg for x in a.args][len(a.args) - len(a.defaults):], a.defaults))
                    src = defaults.get(idx.id)
                    denotes = src.id if isinstance(src, ast.Name) else (idx.id if idx.id not in [x.arg for x in a.args] else None)
                    if denotes is not None and denotes in names_read(key):
                        # receiver must be the lambda's individual parameter
                        ok, why = True, f"column name and index both derive from loop variable '{denotes}'"
                ctx.ob("C20.R6", ctx.prog.function_containing(lam) or init, s, f"Fitness column index {norm(idx)}", ok, why)
        # register passes the individual parameter to every extractor
        ind_p = params[2]
        for call in res.calls_in(reg):
            if isinstance(call.func, ast.Subscript) and is_self_attr(call.func.value, fields_attr or ""):
                n6 += 1
                ok = len(call.args) >= 2 and isinstance(call.args[1], ast.Name) and call.args[1].id == ind_p
                ctx.ob("C20.R6", reg, call, "extractor receives the registered individual", ok,
                       "" if ok else "field extractor is not applied to the individual being registered")
        ctx.floor("C20.R6", n6, 2, "column/extractor sites")

    # extra-field wrappers built outside the recorder (SimpleGP): callback key = dict key, argument = individual's program
    for f in scope:
        if f.cls is not None and f.cls in recorders:
            continue
        for lam in [x for x in walk_local(f.node, include_nested=True) if isinstance(x, ast.Lambda)]:
            p = parent(lam)
            if not (isinstance(p, ast.DictComp) and p.value is lam):
                continue
            a = lam.args
            pos = [x.arg for x in a.args]
            defaults = dict(zip(pos[len(pos) - len(a.defaults):], a.defaults))
            calls = [c for c in ast.walk(lam.body) if isinstance(c, ast.Call) and isinstance(c.func, ast.Subscript)]
            for c in calls:
                k = c.func.slice
                ok_key = False
                if isinstance(k, ast.Name) and isinstance(p.key, ast.Name):
                    src = defaults.get(k.id)
                    den = src.id if isinstance(src, ast.Name) else (k.id if k.id not in pos else None)
                    ok_key = den == p.key.id
                ok_arg = bool(c.args) and isinstance(c.args[0], ast.Call) and call_name(c.args[0]) == "get_phenotype" \
                    and isinstance(c.args[0].func, ast.Attribute) and isinstance(c.args[0].func.value, ast.Name) \
                    and len(pos) >= 2 and c.args[0].func.value.id == pos[1]
                ctx.ob("C20.R6", f, c, f"extra-field wrapper for key {norm(p.key)}", ok_key and ok_arg,
                       "" if ok_key and ok_arg else
                       f"wrapper {'uses another key than its column' if not ok_key else 'is not applied to the registered individual program'}")

    # ---- R5 single writer: across the whole scope nothing else touches csv file/writer attributes
    nother = 0
    rec_fulls = {c.fullname for c in csv_recs}
    for f in prog.functions.values():
        if f.cls is not None and f.cls.fullname in rec_fulls:
            # inside the recorder: only writerow/flush/close on the handles; 'open' only in __init__
            for call in res.calls_in(f):
                if isinstance(call.func, ast.Attribute) and is_self_attr(call.func.value) \
                        and call.func.value.attr in (writer_attr, file_attr):
                    nother += 1
                    ok = call.func.attr in ("writerow", "flush", "close")
                    ctx.ob("C20.R5", f, call, f"self.{call.func.value.attr}.{call.func.attr}", ok,
                           "" if ok else "raw write/seek/truncate on the log handle bypasses row-at-a-time writing")
                if isinstance(call.func, ast.Name) and call.func.id == "open":
                    nother += 1
                    ctx.ob("C20.R5", f, call, "open(...)", f.name == "__init__",
                           "" if f.name == "__init__" else "log file (re)opened outside construction")
            continue
        for n_ in walk_local(f.node, include_nested=False):
            if isinstance(n_, ast.Attribute) and n_.attr in (writer_attr, file_attr) and not is_self_attr(n_):
                nother += 1
                ctx.ob("C20.R5", f, n_, f"foreign access to .{n_.attr}", False,
                       "code outside the recorder reaches the log handle")
    ctx.floor("C20.R5", nother, 4, "handle uses inside the recorder")

    # ---- R7 trackers register everything: evaluate() of every tracker class is interpreted (sa/modelinterp; methods of the
    # tracker inlined through the hierarchy) on batches of symbolic individuals with two recorders; whatever the comparison
    # outcomes (explored both ways), every individual the evaluator hands back is registered with every recorder exactly once
    from ..modelinterp import Budget, Interp, Sym, UNKNOWN
    n7 = 0
    for c in prog.subclasses(TRACKER):
        ev = prog.lookup_method(c, "evaluate")
        if ev is None or ev.cls is None or is_stub_fn(ev):
            continue
        n7 += 1
        bad = und = None
        for batch in (["i1"], ["i1", "i2"]):
            inds = [Sym(t) for t in batch]

            def call_model(it, call, env, args, kwargs, inds=inds):
                nm = call_name(call)
                if nm == "evaluate_async":
                    return list(inds)
                return None

            it = Interp(prog, c, lambda *_: None, call_model, record_calls=("register",), max_depth=5, max_traces=128)
            env = {"self": Sym("self"), ev.params[1]: list(inds), "self.recorders": [Sym("rec1"), Sym("rec2")], "self.problem": Sym("problem"),
                   "self.evaluator": Sym("evaluator"), "self.best_individual": None, "self.pareto_front": []}
            try:
                runs = it.run(ev, env)
            except Budget:
                und = "too many interpretations"
                continue
            for trace, rv, notes in runs:
                if any(e.kind == "raise" for e in trace):
                    continue
                regs = [e for e in trace if e.kind == "call" and e.name == "register"]
                for t in batch:
                    for r in ("rec1", "rec2"):
                        k = sum(1 for e in regs if isinstance(e.recv, Sym) and e.recv.tag == r and
                                (e.kwargs.get("individual") == Sym(t) or (len(e.args) >= 2 and e.args[1] == Sym(t))))
                        if k != 1 and bad is None:
                            unk = any(e.recv is UNKNOWN or e.kwargs.get("individual", Sym("?")) is UNKNOWN for e in regs)
                            if unk:
                                und = und or "register calls not followed"
                            else:
                                bad = (f"for the batch {batch} individual {t} is registered {k} time(s) with recorder {r} on a path "
                                       f"(is_best flags {[e.kwargs.get('is_best') for e in regs]}): " +
                                       ("an evaluated individual is missing from the log" if k == 0 else "an individual is logged more than once"))
        ctx.ob("C20.R7", ev, ev.node, f"{c.name}: every evaluated individual is registered with every recorder exactly once (all comparison outcomes)",
               False if bad else (None if und else True), bad or und or "")
    ctx.floor("C20.R7", n7, 2, "tracker evaluate implementations")
    ctx.assumptions += [
        "csv.writer.writerow assembles the whole record before a single write() on the file object (CPython _csv)",
        "atomicity of one flushed write with respect to a kill inside write(2) is not decided (OS behaviour)",
    ]


def _precedes(a: ast.stmt, b: ast.stmt, fn_node: ast.AST) -> bool:
    """a's outermost enclosing top-level statement comes before b's in the function body."""
    def top(s):
        while parent(s) is not fn_node:
            s = parent(s)
        return s
    body = fn_node.body
    return body.index(top(a)) < body.index(top(b))
