"""Exhaustive small-scope model of depth-limited tree creation.

random_node(random, grammar, start, decider) - the entry point every tree initializer goes through - is interpreted by
sa/modelinterp on a model grammar (sa/rules/grammodel.py) with a *real* decider object of the repository (its methods are
interpreted, not stubbed) and a random source whose every `choice` is scripted.  All scripts are enumerated depth-first (the
branching factor of each choice is learnt during the run), so the set of programs the interpretation ends with is the set of
programs creation can produce *over all sequences of random decisions*, for that grammar and that limit.  It is compared with
the bounded language enumerated here from the grammar itself: well-typed programs of depth at most d in the library's depth
convention (a production is one level above its deepest field, base values are level 0, abstract symbols / unions / refinements
add nothing in the default mode).

Base values are symbols ('int'); the grammar's tables (alternatives, all_nodes, recursive_prods, distances) are the *reference*
tables of grammodel.reference - what a correct analysis reports - so a defect of the analysis is reported by the analysis rules
and not a second time here.  Lists are left out of the model grammars: creation charges a level for them that the distance table
does not (the known C03.R1 / C04.R1 finding).
"""
from __future__ import annotations

import ast
from typing import Any, Optional

from ..astutil import call_name
from ..frontend import AnalysisError
from ..modelinterp import BUILTIN_TYPES, Budget, Interp, Obj, Sym, TypeV, UNKNOWN, _NONE
from .grammodel import C, INT, INF, ModelGrammar, ann, reference, uni

RANDOM_NODE = "geneticengine.representations.tree.treebased:random_node"
INI_MOD = "geneticengine.representations.tree.initializations"
DSGE_MOD = "geneticengine.representations.grammatical_evolution.dynamic_structured_ge"


class Gene:
    """a gene read from a genotype: only its residue matters to the decider, and the residue is a scripted choice"""
    def __init__(self, pick):
        self.pick = pick

    def model_mod(self, n: int):
        return 0 if n > 8 else self.pick(n)

    def __repr__(self):
        return "<gene>"

CREATION_FAMILY: list[ModelGrammar] = [
    ModelGrammar("arithmetic", "Expr", {
        "Expr": ("abstract", None, []),
        "Lit": ("concrete", "Expr", [("v", INT)]), "Neg": ("concrete", "Expr", [("e", C("Expr"))]),
        "Add": ("concrete", "Expr", [("l", C("Expr")), ("r", C("Expr"))]),
    }, ["Lit", "Neg", "Add"]),
    ModelGrammar("two abstract levels, a refined base field", "Expr", {
        "Expr": ("abstract", None, []), "Atom": ("abstract", "Expr", []),
        "Lit": ("concrete", "Atom", [("v", ann(INT))]), "Var": ("concrete", "Atom", []),
        "Neg": ("concrete", "Expr", [("e", C("Atom"))]), "Add": ("concrete", "Expr", [("l", C("Expr")), ("r", C("Atom"))]),
    }, ["Atom", "Lit", "Var", "Neg", "Add"]),
    ModelGrammar("recursion through a union of two abstract types", "R", {
        "R": ("abstract", None, []), "S": ("abstract", None, []),
        "L": ("concrete", "R", [("v", INT)]), "M": ("concrete", "S", []),
        "N": ("concrete", "R", [("a", uni(C("R"), C("S")))]),
    }, ["L", "M", "N"]),
    ModelGrammar("an intermediate abstract type that is neither supplied nor used as a field type", "Expr", {
        "Expr": ("abstract", None, []), "Atom": ("abstract", "Expr", []),
        "Lit": ("concrete", "Atom", [("v", INT)]), "Zero": ("concrete", "Atom", []),
        "Neg": ("concrete", "Expr", [("e", C("Expr"))]),
    }, ["Lit", "Zero", "Neg"]),
    ModelGrammar("concrete start symbol with two abstract fields", "Top", {
        "Top": ("concrete", None, [("a", C("Bot")), ("k", INT)]),
        "Bot": ("abstract", None, []), "B1": ("concrete", "Bot", []), "B2": ("concrete", "Bot", [("w", C("Bot"))]),
    }, ["B1", "B2"]),
]


# --------------------------------------------------------------------------------------------- the bounded language
def language(g: ModelGrammar, depth: int) -> set:
    """canonical texts of all well-typed programs of depth <= depth derivable from the start symbol"""
    ref = reference(g, 0)
    alts = ref["alternatives"]
    memo: dict = {}

    def progs(t: TypeV, d: int) -> list:
        """[(text, depth)] of values of type t with depth <= d"""
        key = (t, d)
        if key in memo:
            return memo[key]
        out: list = []
        if t.kind == "builtin":
            out = [("int", 0)]
        elif t.kind == "annotated":
            out = progs(t.args[0], d)
        elif t.kind == "union":
            seen = set()
            for a in t.args:
                for p in progs(a, d):
                    if p not in seen:
                        seen.add(p)
                        out.append(p)
        elif t.kind == "class" and g.classes[t.name][0] == "abstract":
            seen = set()
            for p_ in alts.get(t.name, []):
                for p in progs(C(p_), d):
                    if p not in seen:
                        seen.add(p)
                        out.append(p)
        elif t.kind == "class":
            if d >= 1:
                fields = g.classes[t.name][2]
                combos = [([], 0)]
                for _, ft in fields:
                    nxt = []
                    for texts, md in combos:
                        for txt, dd in progs(ft, d - 1):
                            nxt.append((texts + [txt], max(md, dd)))
                    combos = nxt
                out = [(f"{t.name}({', '.join(texts)})", 1 + md) for texts, md in combos]
        else:
            raise AssertionError(t)
        memo[key] = out
        return out
    return {txt for txt, dd in progs(C(g.start), depth)}


def text_of(v: Any) -> str:
    if isinstance(v, Obj) and v.cls.startswith("node:"):
        return f"{v.cls[5:]}({', '.join(text_of(x) for x in v.fields.get('args', []))})"
    if isinstance(v, Sym):
        return v.tag
    if isinstance(v, list):
        return "[" + ", ".join(text_of(x) for x in v) + "]"
    return repr(v)


def depth_of(v: Any) -> int:
    if isinstance(v, Obj) and v.cls.startswith("node:"):
        return 1 + max([depth_of(x) for x in v.fields.get("args", [])] + [0])
    return 0


def well_typed(g: ModelGrammar, v: Any, t: TypeV) -> bool:
    ref_alts = reference(g, 0)["alternatives"]
    if t.kind == "builtin":
        return isinstance(v, Sym) and v.tag == "int"
    if t.kind == "annotated":
        return well_typed(g, v, t.args[0])
    if t.kind == "union":
        return any(well_typed(g, v, a) for a in t.args)
    if not (isinstance(v, Obj) and v.cls.startswith("node:")):
        return False
    name = v.cls[5:]
    if name not in g.classes:
        return False
    # v's class is t or a descendant of t
    p: Optional[str] = name
    while p is not None and p != t.name:
        p = g.classes[p][1]
    if p is None:
        return False
    fields = g.classes[name][2]
    args = v.fields.get("args", [])
    return len(args) == len(fields) and all(well_typed(g, a, ft) for a, (_, ft) in zip(args, fields))


# --------------------------------------------------------------------------------------------- interpretation
def build_decider(prog, dcls, genotype_backed: bool, max_depth: int, call_model, genv: dict):
    """the decider object, built by interpreting its own constructor (super().__init__ chains followed, validate() included)"""
    init = prog.lookup_method(dcls, "__init__")
    if init is None:
        return Obj(dcls.name, {}, dcls.fullname), ""
    it = Interp(prog, dcls, lambda *_: None, call_model, max_depth=12, max_traces=2)
    it.strict_keys = True
    ps = init.params
    env = dict(genv)
    env["self"] = Sym("self")
    byname = {"genotype": Obj("Genotype", {"random": Sym("random"), "dna": {}}, DSGE_MOD + ".Genotype"), "random": Sym("random"),
              "grammar": Sym("grammar"), "max_depth": max_depth}
    for p_ in ps[1:]:
        if p_ in byname:
            env[p_] = byname[p_]
    a = init.node.args
    names_ = [x.arg for x in a.posonlyargs + a.args]
    for p_, d in zip(names_[len(names_) - len(a.defaults):], a.defaults):
        if p_ not in env and isinstance(d, ast.Constant):
            env[p_] = d.value
    try:
        runs = it.run(init, env)
    except Budget:
        return None, f"{dcls.name}.__init__: a branch depends on something the model does not determine ({it.fork_sites[:1]})"
    trace, rv, notes = runs[0]
    raised = [e for e in trace if e.kind == "raise"]
    if raised:
        return None, f"RAISES {raised[-1].name}"
    if notes:
        return None, f"{dcls.name}.__init__: {notes[0]}"
    fields = {k[5:]: v for k, v in it.envs[0].items() if k.startswith("self.") and k.count(".") == 1}
    return Obj(dcls.name, fields, dcls.fullname), ""


def enumerate_creation(ctx, g: ModelGrammar, decider_cls: str, max_depth: int, cap: int = 2500):
    """(programs: {text: value}, failures: [(script, exception name)], notes, runs) over all decision scripts"""
    prog = ctx.prog
    fn = prog.functions.get(RANDOM_NODE)
    if fn is None:
        raise AnalysisError(f"anchor function missing: {RANDOM_NODE}")
    dcls = prog.classes.get(f"{INI_MOD}.{decider_cls}") or prog.classes.get(f"{DSGE_MOD}.{decider_cls}")
    if dcls is None:
        raise AnalysisError(f"anchor class missing: {decider_cls}")
    genotype_backed = dcls.module.name == DSGE_MOD
    ref = reference(g, 0)
    D = ref["distance"]

    def dist(t: Any) -> Any:
        if not isinstance(t, TypeV):
            return UNKNOWN
        if t.kind == "builtin":
            return 0
        if t.kind == "class":
            return D.get(t.name, INF)
        if t.kind == "annotated":
            return dist(t.args[0])
        if t.kind == "union":
            return min(dist(a) for a in t.args)
        return UNKNOWN

    alternatives = {C(k): [C(x) for x in v] for k, v in ref["alternatives"].items()}
    all_nodes = set(C(n) for n in ref["registered"]) | {INT}
    recursive = set(C(n) for n in ref["recursive"])
    state = {"script": [], "pos": 0, "widths": []}

    def pick(width: int) -> int:
        i = state["pos"]
        if i >= len(state["script"]):
            state["script"].append(0)
            state["widths"].append(width)
        else:
            state["widths"][i] = width
        state["pos"] += 1
        return min(state["script"][i], width - 1)

    def call_model(it, call, env, args, kwargs):
        nm = call_name(call)
        if nm == "create_node" and sum(1 for f_ in it.fn_stack if f_.name == "create_node") > 3 * max_depth + 6:
            # every production level needs at most three nested creations (refinement / union / abstract symbol / production)
            it.throw("RecursionError: creation nests deeper than any program within the limit needs (the depth is not advancing)", call)
        recv = it.ev(call.func.value, env, 9) if isinstance(call.func, ast.Attribute) else None
        if nm == "get" and isinstance(recv, Obj) and recv.cls == "Genotype" and len(args) == 2:
            return Gene(pick)        # the gene at that position: any value (the genotype is extended on demand)
        if isinstance(recv, Sym) and recv.tag == "random":
            if nm == "choice" and len(args) == 1 and isinstance(args[0], list):
                if not args[0]:
                    it.throw("IndexError: choice from an empty list", call)
                return args[0][pick(len(args[0]))]
            if nm in ("randint", "random_float", "random_bool", "normalvariate"):
                return Sym("int")
            return None
        if isinstance(recv, Sym) and recv.tag == "grammar":
            if nm == "get_distance_to_terminal" and len(args) == 1:
                return dist(args[0])
            if nm == "get_min_tree_depth":
                return D.get(g.start, INF)
            if nm == "get_weights":
                return {}
        if nm in ("random_int", "random_float", "random_bool", "random_str") and isinstance(recv, Obj) and not args:
            return Sym("int")
        if nm == "get_arguments" and len(args) == 1 and isinstance(args[0], TypeV):
            return [[a, t] for a, t in g.classes.get(args[0].name, (None, None, []))[2]]
        if nm == "is_abstract" and len(args) == 1 and isinstance(args[0], TypeV):
            return args[0].name in g.classes and g.is_abstract(args[0].name)
        if nm == "apply_constructor" and len(args) == 2 and isinstance(args[0], TypeV):
            return Obj("node:" + args[0].name, {"args": list(args[1]) if isinstance(args[1], list) else args[1]})
        if nm == "generate" and isinstance(call.func, ast.Attribute) and len(args) >= 4:
            # a refinement of a base type produces a value of that base type
            return Sym("int")
        if nm == "is_builtin_class_instance":
            return True
        if nm in ("relabel_nodes_of_trees", "relabel_nodes"):
            return _NONE
        if nm == "number_of_nodes":
            return 1
        if nm == "isinstance" and len(args) == 2 and isinstance(args[0], Obj):
            return True
        return None

    programs: dict = {}
    failures: list = []
    notes: list = []
    runs = 0
    script: list = []
    while True:
        if runs >= cap:
            notes.append(f"more than {cap} decision scripts")
            break
        state.update(script=list(script), pos=0, widths=[0] * len(script))
        it = Interp(prog, None, lambda *_: None, call_model, max_depth=60, max_traces=2)
        it.allow_recursion = True
        it.instantiate_classes = True     # per-call helper objects of the repository (one expansion step as a method object) are followed
        it.strict_keys = True
        it.strict_attrs = True       # reading an attribute the object was never given raises, as in Python
        it.strict_iter = True
        it.while_cap = 12
        genv = {"grammar.alternatives": dict(alternatives), "grammar.all_nodes": set(all_nodes), "grammar.recursive_prods": set(recursive),
                "grammar.starting_symbol": C(g.start),
                # the minimum-depth table itself (a decider may keep / copy it instead of asking get_distance_to_terminal every time)
                "grammar.distanceToTerminal": {**{C(n_): d_ for n_, d_ in D.items()}, INT: 0}}
        decider, why_not = build_decider(prog, dcls, genotype_backed, max_depth, call_model, genv)
        if decider is None:
            if why_not.startswith("RAISES"):
                failures.append(([], "the decider's constructor: " + why_not[7:]))
            else:
                notes.append(why_not)
            break
        p = fn.params
        env = dict(genv)
        env.update({p[0]: Sym("random"), p[1]: Sym("grammar"), p[2]: C(g.start), p[3]: decider})
        try:
            res = it.run(fn, env)
        except Budget:
            notes.append(f"script {script}: a branch depends on something the model does not determine ({it.fork_sites[:2]})")
            res = []
        runs += 1
        if len(res) > 1:
            notes.append(f"script {script}: {len(res)} interpretations (the model does not determine the branch at {it.fork_sites[:1]})")
        for trace, rv, nts in res[:1]:
            raised = [e for e in trace if e.kind == "raise"]
            caught = [e for e in trace if e.kind == "caught"]
            if nts:
                notes.append(f"script {script}: {nts[0]}")
            elif raised and (rv is UNKNOWN or rv is None):
                # an exception that leaves random_node: creation failed for this decision sequence
                failures.append((list(state["script"]), raised[-1].name))
            elif rv is UNKNOWN or rv is None:
                notes.append(f"script {script}: the result is not followed")
            elif "UNKNOWN" in text_of(rv):
                # a part of the program is a value the model lost track of: nothing may be concluded from it
                notes.append(f"script {script}: a part of the result is not followed ({text_of(rv)[:60]})")
            else:
                programs.setdefault(text_of(rv), rv)
        if notes:
            break        # the model does not determine a branch: nothing more can be decided for this grammar / decider / limit
        if len(failures) >= 3 or any(f_[1].startswith("RecursionError") for f_ in failures) \
                or sum(1 for v_ in programs.values() if depth_of(v_) > max_depth + 1) >= 3:
            break        # enough definite evidence (failing scripts / programs far beyond the limit): the remaining scripts are not explored
        # next script in depth-first order
        sc, w = list(state["script"]), list(state["widths"])
        w = w[:len(sc)]
        while sc and sc[-1] + 1 >= w[len(sc) - 1]:
            sc.pop()
        if not sc:
            break
        sc[-1] += 1
        script = sc
    return programs, failures, notes, runs


# --------------------------------------------------------------------------------------------- the full language
def full_language(g: ModelGrammar, depth: int) -> set:
    """programs all of whose branches end exactly at depth `depth` (a branch ends at a production without node-typed fields)"""
    ref = reference(g, 0)
    alts = ref["alternatives"]

    def node_fields(name: str) -> list:
        return [ft for _, ft in g.classes[name][2] if _has_class(ft)]

    def progs(t: TypeV, d: int) -> list:
        if t.kind == "builtin":
            return ["int"]
        if t.kind == "annotated":
            return progs(t.args[0], d)
        if t.kind == "union":
            return sorted({p for a in t.args for p in progs(a, d)})
        if g.classes[t.name][0] == "abstract":
            return sorted({p for p_ in alts.get(t.name, []) for p in progs(C(p_), d)})
        if d < 1:
            return []
        nf = node_fields(t.name)
        if not nf and d != 1:
            return []
        if nf and d < 2:
            return []
        combos = [[]]
        for _, ft in g.classes[t.name][2]:
            opts = progs(ft, d - 1) if _has_class(ft) else ["int"]
            combos = [c + [o] for c in combos for o in opts]
        return [f"{t.name}({', '.join(c)})" for c in combos]
    return set(progs(C(g.start), depth))


def _has_class(t: TypeV) -> bool:
    return t.kind == "class" or any(isinstance(a, TypeV) and _has_class(a) for a in (t.args or ()))


def all_abstract_recursive(g: ModelGrammar) -> bool:
    ref = reference(g, 0)
    return all(n in ref["recursive"] for n in ref["registered"] if g.classes[n][0] == "abstract")


def full_offsets(ctx) -> list:
    """(site function, node, offset) for every FullDecider(.., max_depth=<self.max_depth + o>) built by an initializer"""
    from ..absint import Env, Facts, Lin, evaluate
    out = []
    for f in ctx.prog.functions.values():
        for c in ast.walk(f.node):
            if isinstance(c, ast.Call) and call_name(c) == "FullDecider" and isinstance(c.func, ast.Name):
                e = next((k.value for k in c.keywords if k.arg == "max_depth"), c.args[2] if len(c.args) > 2 else None)
                if e is None:
                    continue
                env = Env(Facts())
                env.vars["self.max_depth"] = Lin.sym("M")
                v = evaluate(env, e)
                off = None
                if isinstance(v, Lin) and (v - Lin.sym("M")).is_const():
                    off = int((v - Lin.sym("M")).const)
                out.append((f, c, off))
    return out


def creation_rule(ctx, rid: str, aspect: str) -> int:
    """aspect 'typed' (C01), 'bounded' (C03) or 'exact' (C04): one obligation per (model grammar, decider, depth limit)"""
    cache = ctx.__dict__.setdefault("_creation_cache", {})
    fn = ctx.prog.functions.get(RANDOM_NODE)
    top = 4 if getattr(ctx, "tier", "quick") == "thorough" else 3
    n = 0

    def runs_for(g, dec, d):
        key = (g.name, dec, d)
        if key not in cache:
            cache[key] = enumerate_creation(ctx, g, dec, d)
        return cache[key]

    offs = full_offsets(ctx)
    for g in CREATION_FAMILY:
        dmin = reference(g, 0)["distance"][g.start]
        for dec in ("MaxDepthDecider", "PositionIndependentGrowDecider", "FullDecider", "DynamicSGEDecider"):
            for d in range(dmin, top + 1):
                limit = d
                if dec == "FullDecider":
                    if not offs or any(o is None for _, _, o in offs) or len({o for _, _, o in offs}) != 1:
                        continue
                    limit = d + offs[0][2]          # the limit the full initializer configured with d hands to its decider
                programs, failures, notes, nruns = runs_for(g, dec, limit)
                dcl = ctx.prog.classes.get(f"{INI_MOD}.{dec}") or ctx.prog.classes.get(f"{DSGE_MOD}.{dec}")
                site = ctx.prog.lookup_method(dcl, "choose_production_alternatives") if dcl else fn
                label = f"{dec}, limit {d}" + (f" (decider built with {limit})" if limit != d else "")
                construct = f"model grammar '{g.name}', {label}: "
                n += 1
                if notes:
                    ctx.ob(rid, site, site.node, construct + aspect, None, notes[0], witness={"grammar": g.name})
                    continue
                L = language(g, d)
                if aspect == "typed":
                    bad = [t for t, v in programs.items() if not well_typed(g, v, C(g.start))]
                    ctx.ob(rid, site, site.node, construct + "every program creation can produce is well-typed for the grammar", not bad,
                           "" if not bad else f"over all decision sequences creation produces {bad[0]}, which is not a program of the grammar "
                                              f"(a field holds a value of another type, or the wrong number of fields)", witness={"program": bad[0]} if bad else {"programs": len(programs), "scripts": nruns})
                elif aspect == "bounded":
                    deep = [t for t, v in programs.items() if depth_of(v) > d]
                    ok = not deep and not failures and bool(programs)
                    why = ""
                    if deep:
                        why = f"creation produces {deep[0]} (depth {depth_of(programs[deep[0]])}) under a limit of {d}"
                    elif failures:
                        why = (f"for the decision sequence {failures[0][0]} creation fails with {failures[0][1]} although the limit {d} is at least the "
                               f"grammar's minimum depth {dmin}")
                    elif not programs:
                        why = "creation produces no program at all"
                    ctx.ob(rid, site, site.node, construct + "no program deeper than the limit, no failing decision sequence", ok, why,
                           witness={"programs": len(programs), "scripts": nruns})
                elif aspect == "exact":
                    got = set(programs)
                    if dec == "MaxDepthDecider":
                        miss, extra = sorted(L - got), sorted(got - L)
                        ok = not miss and not extra
                        why = "" if ok else ((f"{len(miss)} valid program(s) of depth <= {d} cannot be produced by any decision sequence, e.g. {miss[0]}" if miss else "")
                                             + (" ; " if miss and extra else "")
                                             + (f"{len(extra)} program(s) outside the bounded language can be produced, e.g. {extra[0]}" if extra else ""))
                        ctx.ob(rid, site, site.node, construct + "the producible programs are exactly the well-typed programs of depth <= limit", ok, why,
                               witness={"language": len(L), "produced": len(got), "scripts": nruns})
                    elif dec in ("PositionIndependentGrowDecider", "DynamicSGEDecider"):
                        extra = sorted(got - L)
                        ok = not extra and bool(got)
                        ctx.ob(rid, site, site.node, construct + ("position-independent grow never leaves the bounded language" if dec.startswith("Position")
                                                                  else "programs mapped from dynamic-SGE genotypes stay in the bounded language"), ok,
                               "" if ok else (f"it produces {extra[0]}, outside the bounded language" if extra else "it produces no program"),
                               witness={"language": len(L), "produced": len(got), "scripts": nruns})
                    else:
                        if not all_abstract_recursive(g):
                            n -= 1
                            continue
                        F = full_language(g, d)
                        if not F:
                            n -= 1
                            continue
                        miss, extra = sorted(F - got), sorted(got - F)
                        ok = not miss and not extra
                        why = "" if ok else ((f"full programs of depth {d} that cannot be produced, e.g. {miss[0]}" if miss else "")
                                             + (" ; " if miss and extra else "")
                                             + (f"programs with a branch that does not end at depth {d} are produced, e.g. {extra[0]}" if extra else ""))
                        ctx.ob(rid, site, site.node, construct + "full creation produces exactly the programs all of whose branches end at the limit", ok, why,
                               witness={"full": len(F), "produced": len(got), "scripts": nruns})
    return n
