"""C17 - selection operators are sound (tournament and lexicase): structural clauses."""
from __future__ import annotations

import ast
from typing import Optional

from ..astutil import call_name, guards, is_self_attr, names_read
from ..frontend import AnalysisError, FunctionInfo, ancestors, enclosing_stmt, norm, parent, walk_local
from ..report import Ctx
from .common import INDIVIDUAL, STEP

LEVEL_TEXT = (
    "Finite-model interpretation of TournamentSelection.iterate and LexicaseSelection.iterate (found through "
    "GeneticStep by their constructor parameters; helper methods, closures and lambdas inlined; nothing is "
    "executed).  The population is three symbolic individuals with small concrete fitness values, the random "
    "source is a script: choice picks by index, shuffle applies the next scripted permutation in place and "
    "returns its argument (as RandomSource.shuffle does). (R1) tournament, for sizes 1, 2 and 4, with/without "
    "replacement, 4 fitness assignments (ties, all -inf, minimised problem where the raw component orders the "
    "other way) x 3 pick scripts: every winner is a member of the population, one of the participants drawn for "
    "its tournament, at least as fit (maximising aggregate) as each of them, and tournament_size participants are"
    " drawn; Individual.key_function is interpreted on individuals holding fitnesses for two problems: it returns"
    " the maximising aggregate of the fitness stored for the problem it was built for, of the individual it is "
    "given. (R2) lexicase: exactly one shuffle of the full case list between consecutive winners. (R3) every "
    "winner is among the survivors of the reference lexicase filter for that winner's scripted order over the "
    "individuals still available - all four minimise-flag combinations, three fitness tables (one with values "
    "closer than any isclose tolerance), epsilon off and on; numpy's element-wise comparisons, masks and isclose "
    "are interpreted (median absolute deviation band), a crash for lack of survivors is a violation. (R4) winners"
    " are members of the population and none is returned twice, also when five winners are requested from a "
    "population of three. (R5) individuals compare by identity: Individual defines no __eq__ / __hash__ of its "
    "own, so list.remove / in / index in the selection steps address the very object drawn and not an equal-"
    "looking one (two individuals with equal genotypes are distinct candidates). Decides these for the model "
    "sizes and all scripted draws; outcome distributions are not decided."
)


def derived_names(fn: FunctionInfo, roots: set[str]) -> set[str]:
    """Names bound (anywhere in fn) to a copy / sub-selection of a root sequence."""
    der = set(roots)
    changed = True
    while changed:
        changed = False
        for a in walk_local(fn.node):
            if isinstance(a, ast.Assign) and len(a.targets) == 1 and isinstance(a.targets[0], ast.Name):
                nm, v = a.targets[0].id, a.value
                if nm in der:
                    continue
                if _selects_from(v, der):
                    der.add(nm)
                    changed = True
    return der


def _selects_from(v: ast.AST, der: set[str]) -> bool:
    if isinstance(v, ast.Name):
        return v.id in der
    if isinstance(v, ast.Call):
        n = call_name(v)
        if n in ("list", "sorted", "tuple", "iter", "reversed") and v.args:
            return _selects_from(v.args[0], der)
        if n in ("copy",) and isinstance(v.func, ast.Attribute):
            return _selects_from(v.func.value, der)
        if n in ("choice", "pop_random") and v.args:
            return _selects_from(v.args[0], der)
        if n == "copy" and v.args:
            return _selects_from(v.args[0], der)
    if isinstance(v, ast.Subscript):
        return _selects_from(v.value, der)
    if isinstance(v, ast.ListComp):
        elt = v.elt
        g = v.generators[0]
        if isinstance(elt, ast.Name) and elt.id in {t.id for t in ast.walk(g.target) if isinstance(t, ast.Name)}:
            return _selects_from(g.iter, der)
        return _selects_from(elt, der) if isinstance(elt, ast.Call) else False
    if isinstance(v, ast.IfExp):
        return _selects_from(v.body, der) and _selects_from(v.orelse, der)
    return False


def _fresh_list(e: Optional[ast.AST]) -> bool:
    """Expression that creates a new list object."""
    if e is None:
        return False
    if isinstance(e, (ast.List, ast.ListComp)):
        return True
    if isinstance(e, ast.Call) and call_name(e) in ("list", "sorted") and not isinstance(e.func, ast.Attribute):
        return True
    if isinstance(e, ast.Call) and call_name(e) == "copy":
        return True
    if isinstance(e, ast.Subscript) and isinstance(e.slice, ast.Slice):
        return True
    if isinstance(e, ast.BinOp) and isinstance(e.op, ast.Add):
        return True
    return False


def winner_loop(fn: FunctionInfo) -> Optional[ast.For]:
    for y in walk_local(fn.node):
        if isinstance(y, ast.Yield):
            for a in ancestors(y):
                if isinstance(a, ast.For):
                    return a
                if a is fn.node:
                    break
    return None


def last_def_before(body: list[ast.stmt], name: str, before: ast.stmt) -> Optional[ast.Assign]:
    """Last top-level assignment to *name* in *body* that precedes *before* (a top-level statement of body)."""
    res = None
    for st in body:
        if st is before:
            break
        if isinstance(st, ast.Assign) and any(isinstance(t, ast.Name) and t.id == name for t in st.targets):
            res = st
    return res


def top_in(body: list[ast.stmt], node: ast.AST) -> Optional[ast.stmt]:
    n = node
    while n is not None and n not in body:
        n = parent(n)
    return n


def check_key_function(ctx: Ctx) -> None:
    """Individual.key_function(problem) is interpreted: the closure it returns, applied to an individual that carries a
    fitness for *another* problem (stored first) and for this problem, must return this problem's maximising aggregate; for
    an individual without a fitness for this problem, the aggregate of problem.evaluate(phenotype)."""
    from ..modelinterp import Budget, Effect, Interp, LocalFn, Obj, Sym, UNKNOWN, _NONE
    prog = ctx.prog
    ind_cls = prog.get_class(INDIVIDUAL)
    kf = prog.lookup_method(ind_cls, "key_function")
    if kf is None:
        raise AnalysisError("C17: Individual.key_function missing")

    def fit(agg, comp):
        return Obj("Fitness", {"maximizing_aggregate": agg, "fitness_components": [comp]})

    bad = und = None
    for label, store, want in (("a fitness for another problem stored first", {"other": fit(9.0, -9.0), "problem": fit(1.0, -1.0)}, 1.0),
                               ("only this problem's fitness", {"problem": fit(2.0, 7.0)}, 2.0),
                               ("no fitness for this problem yet", {"other": fit(9.0, -9.0)}, 5.0)):
        def call_model(it, call, env, args, kwargs):
            nm = call_name(call)
            recv = it.ev(call.func.value, env, 9) if isinstance(call.func, ast.Attribute) else None
            if nm == "evaluate" and isinstance(recv, Sym) and recv.tag == "problem":
                return fit(5.0, -5.0)
            if nm == "genotype_to_phenotype":
                return Sym("phen")
            if nm == "WeakKeyDictionary":
                return {}
            return None

        it = Interp(prog, ind_cls, lambda *_: None, call_model, max_depth=6, max_traces=16)
        it.strict_index = True
        ind = Obj("Individual", {"fitness_store": dict(store), "phenotype": Sym("phen"), "genotype": Sym("geno"),
                                 "representation": Sym("representation")}, ind_cls.fullname)
        params = [p_ for p_ in kf.params if p_ != "self"]
        try:
            runs = it.run(kf, {params[0]: Sym("problem")})
        except Budget:
            und = "too many interpretations"
            continue
        for trace, rv, notes in runs:
            from ..modelinterp import BoundOp
            if not isinstance(rv, (LocalFn, BoundOp)):
                und = und or f"key_function does not return a callable the model follows ({rv!r})"
                continue
            it2 = Interp(prog, ind_cls, lambda *_: None, call_model, max_depth=6, max_traces=16)
            it2.strict_index = True
            it2.fn_stack = [kf]
            it2.trace, it2.choices, it2._pos, it2.undecided = [], [], 0, []
            try:
                val = it2.call_local(rv, [ind], {}, 1, {}) if isinstance(rv, LocalFn) else it2.apply(rv, [ind], {}, 1)
            except Exception as ex:   # _Return escaping a raise inside the model
                val = UNKNOWN
            raised = [e.name for e in it2.trace if e.kind == "raise"]
            if raised:
                bad = bad or f"with {label} the key function fails ({raised[0]})"
            elif val is UNKNOWN or not isinstance(val, (int, float)):
                und = und or f"the key is not followed ({val!r})"
            elif val != want:
                bad = bad or (f"with {label} the key of the individual is {val}, expected {want} (the maximising aggregate of its fitness "
                              f"for the problem the selection is run on): max() ranks participants by something else")
    ctx.ob("C17.R1", kf, kf.node, "Individual.key_function = maximising aggregate of the individual for the given problem", False if bad else (None if und else True),
           bad or und or "")


def tournament(ctx: Ctx, cls, fn: FunctionInfo) -> None:
    """Model check (sa/rules/c17model.py): iterate() interpreted on three individuals for tournament sizes 1, 2 and 4 (beyond
    the population), with and without replacement, several pick scripts and fitness assignments (ties, all -inf): every
    yielded individual is a member of the population, is one of the participants drawn for its tournament (the random.choice
    results since the previous winner), is at least as fit as each of them, and tournament_size participants were drawn."""
    from ..modelinterp import Budget, Sym, UNKNOWN
    from .c17model import SelScript, run_selection
    tags = ["i1", "i2", "i3"]
    bad: dict[str, tuple] = {}
    und = None
    n = 0
    rank_sets = [{"i1": 1.0, "i2": 3.0, "i3": 2.0}, {"i1": 2.0, "i2": 2.0, "i3": 1.0}, {"i1": float("-inf"), "i2": float("-inf"), "i3": float("-inf")},
                 {"i1": -1.0, "i2": -5.0, "i3": -3.0}]
    scripts = [[0, 1, 2, 0, 1, 2, 0, 1, 2, 0, 1, 2], [2, 2, 1, 0, 0, 1, 2, 1, 0, 2, 1, 0], [1, 0, 1, 0, 1, 0, 1, 0, 1, 0, 1, 0]]
    for ranks in rank_sets:
        for ts in (1, 2, 4):
            for repl in (False, True):
                for picks in scripts:
                    try:
                        runs = run_selection(ctx, cls, fn, tags, ranks, {t: [-ranks[t]] for t in tags}, [True], SelScript(picks, []),
                                             {"tournament_size": ts, "with_replacement": repl}, target_size=3)
                    except Budget:
                        und = "too many interpretations"
                        continue
                    for trace, rv, notes in runs:
                        if any(e.kind == "raise" for e in trace):
                            continue   # e.g. choice from an empty list: outside what this rule decides
                        n += 1
                        scen = {"ranks": {k: str(v) for k, v in ranks.items()}, "tournament_size": ts, "with_replacement": repl, "picks": picks[:6]}
                        drawn: list = []
                        nw = 0
                        for e in trace:
                            if e.kind == "call" and e.name == "choice":
                                drawn.append(e.args[1])
                                if not all(isinstance(x, Sym) and x.tag in tags for x in e.args[0]):
                                    bad.setdefault("draws", ("participants are not drawn from (a list derived from) the input population", scen))
                            elif e.kind == "yield" and e.name == "":
                                w = e.args[0]
                                nw += 1
                                if not (isinstance(w, Sym) and w.tag in tags):
                                    if w is UNKNOWN:
                                        und = und or "a yielded value is not followed"
                                    else:
                                        bad.setdefault("member", (f"winner {nw} is {w!r}, not a member of the population", scen))
                                    drawn = []
                                    continue
                                if not drawn:
                                    bad.setdefault("participants", (f"winner {nw} is yielded without any participant drawn for its tournament", scen))
                                else:
                                    if w not in drawn:
                                        bad.setdefault("participants", (f"winner {nw} ({w!r}) is not one of its tournament's participants {drawn!r}", scen))
                                    worse = [p_ for p_ in drawn if isinstance(p_, Sym) and ranks[p_.tag] > ranks[w.tag]]
                                    if worse:
                                        bad.setdefault("fittest", (f"winner {nw} ({w!r}, aggregate {ranks[w.tag]}) is less fit than participant "
                                                                   f"{worse[0]!r} ({ranks[worse[0].tag]}) of its own tournament", scen))
                                    if len(drawn) != ts:
                                        bad.setdefault("size", (f"{len(drawn)} participants were drawn for winner {nw}, tournament_size is {ts}", scen))
                                drawn = []
                            elif e.kind == "yield":
                                und = und or "yield from: winners not followed"
    for key, desc in (("member", "every winner is a member of the population"),
                      ("participants", "every winner is one of the participants drawn for its tournament"),
                      ("fittest", "every winner is at least as fit (maximising aggregate) as every participant of its tournament"),
                      ("size", "tournament_size participants are drawn per tournament"),
                      ("draws", "participants are random.choice draws from the population")):
        b = bad.get(key)
        ctx.ob("C17.R1", fn, fn.node, f"{cls.name}: {desc}", False if b else (None if und else True), b[0] if b else (und or ""),
               witness=b[1] if b else {"scenarios": n})
    ctx.floor("C17.R1", n, 40, "interpreted tournament scenarios")


def _ref_lexicase(avail: list, order: list, comps: dict, minimize: list, epsilon: bool) -> list:
    import statistics
    S = list(avail)
    for c in order:
        if len(S) <= 1:
            break
        vals = [comps[x][c] for x in S]
        best = min(vals) if minimize[c] else max(vals)
        thr = best
        if epsilon:
            med = statistics.median(vals)
            mad = statistics.median([abs(v - med) for v in vals])
            thr = best + mad if minimize[c] else best - mad
        S = [x for x in S if (comps[x][c] <= thr if minimize[c] else comps[x][c] >= thr)]
    return S


def lexicase(ctx: Ctx, cls, fn: FunctionInfo) -> None:
    """Model check: iterate() interpreted on three individuals with two cases, all four minimise-flag combinations, two fitness
    tables, scripted shuffles (a different permutation for each winner) and both epsilon settings.  For every winner: exactly
    one shuffle of the full case list happened since the previous winner (R2); the winner is among the survivors of the
    reference lexicase filter for that order over the individuals still available (R3); winners are members of the
    population, drawn from the remaining pool, and no individual is returned twice (R4)."""
    from ..modelinterp import Budget, Sym, UNKNOWN
    from .c17model import SelScript, run_selection
    tags = ["i1", "i2", "i3"]
    # the third table has values closer to each other than any tolerance a vectorised "is close to the best" test would use: being best on a case is exact
    tables = [{"i1": [1, 5], "i2": [3, 2], "i3": [1, 2]}, {"i1": [4, 4], "i2": [2, 7], "i3": [3, 1]},
              {"i1": [1e-9, 3.0], "i2": [0.0, 5.0], "i3": [1000001.0, 3.0 - 1e-9]}]
    bad: dict[str, tuple] = {}
    und = None
    n = 0
    for comps in tables:
        for minimize in ([True, False], [False, True], [True, True], [False, False]):
            for perms in ([[0, 1], [1, 0], [0, 1]], [[1, 0], [0, 1], [1, 0]]):
                for eps in (False, True):
                    for picks in ([0, 0, 0], [1, 1, 1]):
                        try:
                            runs = run_selection(ctx, cls, fn, tags, {t: 0 for t in tags}, comps, list(minimize), SelScript(picks, perms),
                                                 {"epsilon": eps}, target_size=3)
                        except Budget:
                            und = "too many interpretations"
                            continue
                        for trace, rv, notes in runs:
                            if any(e.kind == "raise" for e in trace):
                                nm_ = [e.name for e in trace if e.kind == "raise"][0]
                                scen0 = {"fitness": comps, "minimize": minimize, "case_orders": perms, "epsilon": eps}
                                if nm_.startswith("IndexError"):
                                    bad.setdefault("survivor", (f"selection fails ({nm_}): no candidate survives the filter - the threshold / "
                                                                f"comparison is applied in the wrong direction or to the wrong candidates", scen0))
                                else:
                                    und = und or f"a path raises ({nm_})"
                                continue
                            n += 1
                            scen = {"fitness": comps, "minimize": minimize, "case_orders": perms, "epsilon": eps}
                            shuffles: list = []
                            winners: list = []
                            for e in trace:
                                if e.kind == "call" and e.name == "shuffle":
                                    shuffles.append(e)
                                elif e.kind == "yield" and e.name == "":
                                    w = e.args[0]
                                    k = len(winners)
                                    if not (isinstance(w, Sym) and w.tag in tags):
                                        if w is UNKNOWN:
                                            und = und or "a yielded value is not followed"
                                        else:
                                            bad.setdefault("member", (f"winner {k + 1} is {w!r}, not a member of the population", scen))
                                        winners.append(None)
                                        shuffles = []
                                        continue
                                    if len(shuffles) != 1 or sorted(shuffles[0].args[0]) != [0, 1]:
                                        bad.setdefault("shuffle", (
                                            f"{len(shuffles)} shuffle(s) of the full case list happened for winner {k + 1}"
                                            + (f" (the list handed to shuffle was {shuffles[0].args[0]!r})" if shuffles else "")
                                            + ": the case order is not freshly shuffled for every winner (from the second winner on the "
                                              "order is reused or exhausted and no filtering happens)", scen))
                                    order = perms[k] if k < len(perms) else [0, 1]
                                    avail = [t for t in tags if t not in [x for x in winners if x]]
                                    S = _ref_lexicase(avail, order, comps, minimize, eps)
                                    if w.tag in [x for x in winners if x]:
                                        bad.setdefault("once", (f"{w!r} is returned a second time (winner {k + 1}): more copies than the population contains", scen))
                                    elif w.tag not in S:
                                        bad.setdefault("survivor", (
                                            f"winner {k + 1} is {w!r}; the survivors of the lexicase filter for case order {order} over {avail} are {S} "
                                            f"(minimise flags {minimize}, epsilon {eps})", scen))
                                    winners.append(w.tag)
                                    shuffles = []
                                elif e.kind == "yield":
                                    und = und or "yield from: winners not followed"
    # more winners requested than the population holds: whatever the step does then (it runs out of candidates), it never hands out an individual
    # more often than the population contains it
    for comps in tables[:2]:
        for eps in (False, True):
            try:
                runs = run_selection(ctx, cls, fn, tags, {t: 0 for t in tags}, comps, [True, False], SelScript([0, 0, 0, 0, 0], [[0, 1], [1, 0], [0, 1], [1, 0], [0, 1]]),
                                     {"epsilon": eps}, target_size=5)
            except Budget:
                und = "too many interpretations"
                continue
            for trace, rv, notes in runs:
                n += 1
                ws = [e.args[0] for e in trace if e.kind == "yield" and e.name == ""]
                if any(not isinstance(w, Sym) for w in ws):
                    und = und or "a yielded value is not followed"
                    continue
                for t in tags:
                    if sum(1 for w in ws if w.tag == t) > 1:
                        bad.setdefault("once", (f"asked for 5 winners out of a population of 3, the step returns {[w.tag for w in ws]}: {t} is returned more often than "
                                                f"the population contains it (the candidates are refilled from the whole pool once they run out)",
                                                {"fitness": comps, "epsilon": eps, "target_size": 5}))
    for key, rule, desc in (("shuffle", "C17.R2", "the case order is a fresh shuffle of all cases for every winner"),
                            ("survivor", "C17.R3", "every winner survives the lexicase filter (direction and epsilon band per case, threshold from the current candidates)"),
                            ("member", "C17.R4", "every winner is a member of the population"),
                            ("once", "C17.R4", "no individual is returned more often than it occurs in the population")):
        b = bad.get(key)
        ctx.ob(rule, fn, fn.node, f"{cls.name}: {desc}", False if b else (None if und else True), b[0] if b else (und or ""),
               witness=b[1] if b else {"scenarios": n})
    ctx.floor("C17.R3", n, 60, "interpreted lexicase scenarios")


def _self_callees(prog, cls, f: FunctionInfo) -> list:
    out = []
    for x in walk_local(f.node):
        if isinstance(x, ast.Call) and isinstance(x.func, ast.Attribute) and is_self_attr(x.func):
            g = prog.lookup_method(cls, x.func.attr)
            if g is not None and g not in out:
                out.append(g)
    return out


def run(ctx: Ctx) -> None:
    prog = ctx.prog
    ctx.rule("C17.R1", "tournament: tournament_size choice draws from the population; winner = max by maximising aggregate; winner yielded")
    ctx.rule("C17.R2", "lexicase: case order re-shuffled inside every winner's iteration")
    ctx.rule("C17.R3", "lexicase: best value / comparison / epsilon band follow each case's minimise flag; threshold from current candidates")
    ctx.rule("C17.R4", "lexicase: winner drawn from the remaining pool and removed once; pool is a fresh copy")
    check_key_function(ctx)
    # selection retires a winner with candidates.remove(winner) and tests membership with 'in': both compare with ==, so individuals
    # must keep identity semantics - a value equality (same genotype) makes a clone stand in for the winner
    ctx.rule("C17.R5", "individuals compare by identity (list.remove / in / index in the selection steps address the object itself)")
    ind_cls = prog.get_class(INDIVIDUAL)
    from ..frontend import decorators as _decos
    offenders = []
    for k in prog.mro(ind_cls):
        for m_ in ("__eq__", "__hash__"):
            if m_ in k.methods:
                offenders.append((k.methods[m_], f"{k.name}.{m_}"))
        for d_ in k.node.decorator_list:
            txt = norm(d_)
            if txt.split("(")[0].split(".")[-1] == "dataclass" and "eq=False" not in txt.replace(" ", ""):
                offenders.append((None, f"@dataclass on {k.name} (generates __eq__ from the fields)"))
    uses = [c_ for st_ in prog.subclasses(STEP) for it_ in [prog.lookup_method(st_, "iterate")] if it_ is not None
            for c_ in walk_local(it_.node) if isinstance(c_, ast.Call) and isinstance(c_.func, ast.Attribute) and c_.func.attr in ("remove", "index", "count")]
    ctx.ob("C17.R5", offenders[0][0] if offenders and offenders[0][0] is not None else None, None,
           "Individual keeps identity semantics (no __eq__ / __hash__, no eq-dataclass) wherever selection removes / looks up by ==", not (offenders and uses),
           "" if not (offenders and uses) else (f"{offenders[0][1]} gives individuals a value equality: '{norm(uses[0])[:40] if uses else 'candidates.remove(winner)'}' then removes the "
                                     f"first individual that compares equal, not the winner - a clone of it stays available and can be returned again, more often "
                                     f"than the population contains it"), module=ind_cls.module.relpath)
    tour = lex = 0
    for c in prog.subclasses(STEP):
        it = prog.lookup_method(c, "iterate")
        if it is None or it.cls is None or it.cls.fullname == STEP:
            continue
        init = prog.lookup_method(c, "__init__")
        init_params = set(init.params) if init is not None else set()
        if "tournament_size" in init_params:
            tour += 1
            tournament(ctx, c, it)
        elif "epsilon" in init_params and any(call_name(x) == "shuffle" for g in [it] + _self_callees(prog, c, it) for x in ast.walk(g.node) if isinstance(x, ast.Call)):
            lex += 1
            lexicase(ctx, c, it)
    ctx.floor("C17.R1", tour, 1, "tournament selection steps")
    ctx.floor("C17.R2", lex, 1, "lexicase selection steps")
    ctx.assumptions += ["RandomSource.choice returns a member of its argument (C18)",
                        "individuals were evaluated before selection (evaluator call at the top of iterate)"]
