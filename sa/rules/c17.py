"""C17 - selection operators are sound (tournament and lexicase): structural clauses."""
from __future__ import annotations

import ast
from typing import Optional

from ..astutil import call_name, guards, is_self_attr, names_read
from ..frontend import AnalysisError, FunctionInfo, ancestors, enclosing_stmt, norm, parent, walk_local
from ..report import Ctx
from .common import INDIVIDUAL, STEP

LEVEL_TEXT = (
    "Static rules on TournamentSelection.iterate and LexicaseSelection.iterate (found through GeneticStep): (R1) "
    "tournament participants are random.choice draws from a list derived from the input population, exactly "
    "tournament_size of them, the winner is max over exactly the drawn list keyed by the maximising aggregate "
    "(Individual.key_function -> Fitness[0] = maximizing_aggregate) and the winner is what is yielded; (R2) the "
    "lexicase case order that reaches the filtering loop is (re)defined by a shuffle inside each winner's iteration; "
    "(R3) per case, the best value, the comparison and the epsilon band flip together with the case's minimise flag "
    "(evaluated under both values) and the threshold is computed from the current candidates; (R4) every yielded "
    "winner is drawn from the remaining pool and removed from it once; the pool is a fresh copy of the population. "
    "Decides these for all populations, sizes and draws; outcome distributions are not decided."
)


def derived_names(fn: FunctionInfo, roots: set[str]) -> set[str]:
    """Names bound (anywhere in fn) to a copy / sub-selection of a root sequence."""
    der = set(roots)
    changed = True
    while changed:
        changed = False
        for a in walk_local(fn.node):
            if isinstance(a, ast.Assign) and len(a.targets) == 1 and isinstance(a.targets[0], ast.Name):
                nm, v = a.targets[0].id, a.value
                if nm in der:
                    continue
                if _selects_from(v, der):
                    der.add(nm)
                    changed = True
    return der


def _selects_from(v: ast.AST, der: set[str]) -> bool:
    if isinstance(v, ast.Name):
        return v.id in der
    if isinstance(v, ast.Call):
        n = call_name(v)
        if n in ("list", "sorted", "tuple", "iter", "reversed") and v.args:
            return _selects_from(v.args[0], der)
        if n in ("copy",) and isinstance(v.func, ast.Attribute):
            return _selects_from(v.func.value, der)
        if n in ("choice", "pop_random") and v.args:
            return _selects_from(v.args[0], der)
        if n == "copy" and v.args:
            return _selects_from(v.args[0], der)
    if isinstance(v, ast.Subscript):
        return _selects_from(v.value, der)
    if isinstance(v, ast.ListComp):
        elt = v.elt
        g = v.generators[0]
        if isinstance(elt, ast.Name) and elt.id in {t.id for t in ast.walk(g.target) if isinstance(t, ast.Name)}:
            return _selects_from(g.iter, der)
        return _selects_from(elt, der) if isinstance(elt, ast.Call) else False
    if isinstance(v, ast.IfExp):
        return _selects_from(v.body, der) and _selects_from(v.orelse, der)
    return False


def _fresh_list(e: Optional[ast.AST]) -> bool:
    """Expression that creates a new list object."""
    if e is None:
        return False
    if isinstance(e, (ast.List, ast.ListComp)):
        return True
    if isinstance(e, ast.Call) and call_name(e) in ("list", "sorted") and not isinstance(e.func, ast.Attribute):
        return True
    if isinstance(e, ast.Call) and call_name(e) == "copy":
        return True
    if isinstance(e, ast.Subscript) and isinstance(e.slice, ast.Slice):
        return True
    if isinstance(e, ast.BinOp) and isinstance(e.op, ast.Add):
        return True
    return False


def winner_loop(fn: FunctionInfo) -> Optional[ast.For]:
    for y in walk_local(fn.node):
        if isinstance(y, ast.Yield):
            for a in ancestors(y):
                if isinstance(a, ast.For):
                    return a
                if a is fn.node:
                    break
    return None


def last_def_before(body: list[ast.stmt], name: str, before: ast.stmt) -> Optional[ast.Assign]:
    """Last top-level assignment to *name* in *body* that precedes *before* (a top-level statement of body)."""
    res = None
    for st in body:
        if st is before:
            break
        if isinstance(st, ast.Assign) and any(isinstance(t, ast.Name) and t.id == name for t in st.targets):
            res = st
    return res


def top_in(body: list[ast.stmt], node: ast.AST) -> Optional[ast.stmt]:
    n = node
    while n is not None and n not in body:
        n = parent(n)
    return n


def check_key_function(ctx: Ctx) -> None:
    prog = ctx.prog
    ind = prog.get_class(INDIVIDUAL)
    kf = ind.methods.get("key_function")
    fit = prog.classes.get("geneticengine.problems.Fitness")
    if kf is None or fit is None:
        raise AnalysisError("C17: Individual.key_function / problems.Fitness missing")
    first_field = next((st.target.id for st in fit.node.body if isinstance(st, ast.AnnAssign)), None)
    inner = [f for f in prog.functions.values() if f.parent is kf]
    ok = False
    why = "key_function does not return the first field of the individual's Fitness for the problem"
    for f in inner:
        for r in walk_local(f.node):
            if isinstance(r, ast.Return) and r.value is not None:
                v = r.value
                if isinstance(v, ast.Subscript) and isinstance(v.slice, ast.Constant) and v.slice.value == 0 \
                        and isinstance(v.value, ast.Call) and call_name(v.value) == "get_fitness":
                    ok = first_field == "maximizing_aggregate"
                    if not ok:
                        why = f"Fitness[0] is '{first_field}', not the maximising aggregate"
                elif isinstance(v, ast.Attribute) and v.attr == "maximizing_aggregate":
                    ok = True
                elif isinstance(v, ast.UnaryOp):
                    why = "key is negated: max() picks the worst participant"
    ctx.ob("C17.R1", kf, kf.node, "Individual.key_function = maximising aggregate of the individual", ok, "" if ok else why)


def tournament(ctx: Ctx, fn: FunctionInfo) -> None:
    pop = fn.params[5]
    loop = winner_loop(fn)
    if loop is None:
        ctx.ob("C17.R1", fn, fn.node, "per-winner loop", None, "no loop yielding winners")
        return
    ys = [y for st in loop.body for y in ast.walk(st) if isinstance(y, ast.Yield)]
    der = derived_names(fn, {pop})
    for y in ys:
        ystmt = top_in(loop.body, y)
        w = y.value
        ok = False
        why = "the yielded value is not the maximum of the drawn participants"
        if isinstance(w, ast.Name):
            d = last_def_before(loop.body, w.id, ystmt)
            if d is not None and isinstance(d.value, ast.Call) and call_name(d.value) in ("max", "min") and d.value.args:
                chooser = call_name(d.value)
                seq = d.value.args[0]
                key = next((k.value for k in d.value.keywords if k.arg == "key"), None)
                key_ok = isinstance(key, ast.Call) and call_name(key) == "key_function" and key.args \
                    and isinstance(key.args[0], ast.Name) and key.args[0].id == fn.params[1]
                if chooser != "max":
                    why = "the tournament winner is chosen with min(): the least fit participant wins"
                elif not key_ok:
                    why = "the winner is not chosen by the maximising aggregate for the problem"
                elif isinstance(seq, ast.Name):
                    sd = last_def_before(loop.body, seq.id, top_in(loop.body, d))
                    if sd is not None and isinstance(sd.value, ast.ListComp):
                        lc = sd.value
                        draw = lc.elt
                        it = lc.generators[0].iter
                        n_ok = isinstance(it, ast.Call) and call_name(it) == "range" and len(it.args) == 1 \
                            and is_self_attr(it.args[0], "tournament_size") and not lc.generators[0].ifs
                        draw_ok = isinstance(draw, ast.Call) and call_name(draw) == "choice" and draw.args \
                            and isinstance(draw.args[0], ast.Name) and draw.args[0].id in der
                        ok = n_ok and draw_ok
                        if not draw_ok:
                            why = "participants are not random.choice draws from a list derived from the population"
                        elif not n_ok:
                            why = "the number of participants is not tournament_size"
                    else:
                        why = "the list the maximum is taken over is not the list of this tournament's draws"
        ctx.ob("C17.R1", fn, y, "winner = max(drawn participants, key=maximising aggregate), and is what is yielded", ok,
               "" if ok else why)
    ctx.floor("C17.R1", len(ys), 1, "yield sites in the tournament loop")


def lexicase(ctx: Ctx, fn: FunctionInfo) -> None:
    pop = fn.params[5]
    prob = fn.params[1]
    loop = winner_loop(fn)
    if loop is None:
        ctx.ob("C17.R2", fn, fn.node, "per-winner loop", None, "no loop yielding winners")
        return
    # ---- R2: case order consumed inside the filtering loop is defined by a shuffle in this iteration
    pops = [c for st in loop.body for c in ast.walk(st) if isinstance(c, ast.Call) and call_name(c) == "pop"
            and isinstance(c.func, ast.Attribute) and isinstance(c.func.value, ast.Name)
            and any(isinstance(a, ast.While) for a in ancestors(c))]
    case_lists = {c.func.value.id for c in pops}
    # also the 'for c in cases' form
    inner_for = [l for st in loop.body for l in ast.walk(st) if isinstance(l, ast.For) and isinstance(l.iter, ast.Name)]
    n2 = 0
    for nm in sorted(case_lists):
        n2 += 1
        use = next(c for c in pops if c.func.value.id == nm)
        d = last_def_before(loop.body, nm, top_in(loop.body, use))
        sh = [x for x in ast.walk(d.value) if isinstance(x, ast.Call) and call_name(x) == "shuffle"] if d is not None else []
        ok = bool(sh)
        why = f"'{nm}' is consumed with pop() but not re-created by a shuffle inside the per-winner loop: from the " \
              f"second winner on the case list is exhausted and no filtering happens"
        if ok:
            # shuffle works in place and returns its argument: the list it is given must be created in this iteration
            arg = sh[0].args[0] if sh[0].args else None
            fresh = _fresh_list(arg)
            if not fresh and isinstance(arg, ast.Name):
                d2 = last_def_before(loop.body, arg.id, top_in(loop.body, d))
                fresh = d2 is not None and _fresh_list(d2.value)
            if not fresh:
                ok = False
                why = f"shuffle() permutes '{norm(arg)}' in place and returns the same list; that list is created " \
                      f"outside the per-winner loop, so pop() drains it across winners and later winners are not filtered"
        ctx.ob("C17.R2", fn, use, f"case order '{nm}' is a fresh shuffled list inside each winner's iteration", ok,
               "" if ok else why)
    if not case_lists:
        for l in inner_for:
            d_in = last_def_before(loop.body, l.iter.id, top_in(loop.body, l))
            shuffled_in = d_in is not None and any(isinstance(x, ast.Call) and call_name(x) == "shuffle" for x in ast.walk(d_in.value))
            if any(call_name(x) == "shuffle" for x in ast.walk(fn.node) if isinstance(x, ast.Call)):
                n2 += 1
                ctx.ob("C17.R2", fn, l, f"case order '{l.iter.id}' is shuffled afresh inside each winner's iteration",
                       shuffled_in, "" if shuffled_in else "the case order is fixed once for all winners")
    ctx.floor("C17.R2", n2, 1, "case-order consumption sites")

    # ---- R3: direction per case
    def flag_of(t: ast.AST) -> Optional[bool]:
        """True if t denotes problem.minimize[c], False if its negation."""
        neg = False
        while isinstance(t, ast.UnaryOp) and isinstance(t.op, ast.Not):
            neg, t = not neg, t.operand
        if isinstance(t, ast.Subscript) and isinstance(t.value, ast.Attribute) and t.value.attr == "minimize":
            return not neg
        return None

    n3 = 0
    for x in [x for st in loop.body for x in ast.walk(st)]:
        if isinstance(x, ast.IfExp) and flag_of(x.test) is not None:
            pol = flag_of(x.test)
            when_min, when_max = (x.body, x.orelse) if pol else (x.orelse, x.body)
            n3 += 1
            if isinstance(when_min, ast.Name) and isinstance(when_max, ast.Name) and {when_min.id, when_max.id} <= {"min", "max"}:
                ok = when_min.id == "min" and when_max.id == "max"
                ctx.ob("C17.R3", fn, x, "best value per case: min when minimised, max otherwise", ok,
                       "" if ok else "the best value on a case is taken in the wrong direction")
            elif isinstance(when_min, ast.BinOp) and isinstance(when_max, ast.BinOp):
                ok = isinstance(when_min.op, ast.Add) and isinstance(when_max.op, ast.Sub)
                ctx.ob("C17.R3", fn, x, "epsilon band: best + mad when minimised, best - mad otherwise", ok,
                       "" if ok else "the epsilon band is applied in the wrong direction")
            else:
                ctx.ob("C17.R3", fn, x, f"direction-dependent expression {norm(x)[:60]}", None, "unrecognised form")
        if isinstance(x, ast.If) and flag_of(x.test) is not None:
            pol = flag_of(x.test)
            bmin, bmax = (x.body, x.orelse) if pol else (x.orelse, x.body)
            cm = [c for s in bmin for c in ast.walk(s) if isinstance(c, ast.Compare)]
            cx = [c for s in bmax for c in ast.walk(s) if isinstance(c, ast.Compare)]
            if len(cm) == 1 and len(cx) == 1:
                n3 += 1
                def dirn(c: ast.Compare) -> Optional[str]:
                    comp_left = any(isinstance(z, ast.Attribute) and z.attr == "fitness_components" for z in ast.walk(c.left))
                    op = c.ops[0]
                    if isinstance(op, (ast.LtE, ast.Lt)):
                        return "le" if comp_left else "ge"
                    if isinstance(op, (ast.GtE, ast.Gt)):
                        return "ge" if comp_left else "le"
                    return None
                ok = dirn(cm[0]) == "le" and dirn(cx[0]) == "ge"
                strict = isinstance(cm[0].ops[0], (ast.Lt, ast.Gt)) or isinstance(cx[0].ops[0], (ast.Lt, ast.Gt))
                ctx.ob("C17.R3", fn, x, "survivors: component <= threshold when minimised, >= otherwise", ok and not strict,
                       "" if ok and not strict else ("a strict comparison removes the individual that attains the best value "
                                                     "itself" if ok else "survivors are kept in the wrong direction"))
    ctx.floor("C17.R3", n3, 3, "direction-dependent constructs")
    # threshold computed from the current candidates
    wl = [w for st in loop.body for w in ast.walk(st) if isinstance(w, ast.While)]
    for w in wl:
        cur = None
        t = w.test
        for c in ast.walk(t):
            if isinstance(c, ast.Call) and call_name(c) == "len" and c.args and isinstance(c.args[0], ast.Name):
                cur = c.args[0].id
        bests = [a for st in w.body for a in ast.walk(st) if isinstance(a, ast.Assign) and isinstance(a.value, ast.Call)
                 and isinstance(a.value.func, ast.Name) and a.value.args
                 and isinstance(a.value.args[0], (ast.ListComp, ast.GeneratorExp))
                 and any(isinstance(z, ast.Attribute) and z.attr == "fitness_components" for z in ast.walk(a.value))]
        for b in bests:
            it = b.value.args[0].generators[0].iter
            ok = isinstance(it, ast.Name) and it.id == cur
            ctx.ob("C17.R3", fn, b, "threshold is the best value among the candidates still in play", ok,
                   "" if ok else f"the best value is computed over '{norm(it)}', not over the current candidates '{cur}'")
        # the filtered list replaces the current candidates
        reass = [a for st in w.body for a in ast.walk(st) if isinstance(a, ast.Assign)
                 and any(isinstance(t_, ast.Name) and t_.id == cur for t_ in a.targets)]
        ctx.ob("C17.R3", fn, w, "filtered survivors become the current candidates", bool(reass),
               "" if reass else "the candidates are never narrowed")

    # ---- R4: multiplicity
    der = derived_names(fn, {pop})
    ys = [y for st in loop.body for y in ast.walk(st) if isinstance(y, ast.Yield)]
    for y in ys:
        w = y.value
        ystmt = top_in(loop.body, y)
        ok_rm = False
        pool = None
        if isinstance(w, ast.Name):
            for st in loop.body[loop.body.index(ystmt) + 1:]:
                if isinstance(st, ast.Expr) and isinstance(st.value, ast.Call) and call_name(st.value) == "remove" \
                        and st.value.args and isinstance(st.value.args[0], ast.Name) and st.value.args[0].id == w.id \
                        and isinstance(st.value.func.value, ast.Name):
                    ok_rm = True
                    pool = st.value.func.value.id
        ctx.ob("C17.R4", fn, y, "each yielded winner is removed from the pool once", ok_rm,
               "" if ok_rm else "a winner stays in the pool: an individual can be returned more often than it occurs")
        if pool is not None:
            # pool is a fresh copy of the population (not the caller's list)
            defs = [a for a in walk_local(fn.node) if isinstance(a, ast.Assign)
                    and any(isinstance(t_, ast.Name) and t_.id == pool for t_ in a.targets)]
            fresh = bool(defs) and all(isinstance(a.value, ast.Call) and call_name(a.value) in ("list", "copy", "sorted")
                                       or isinstance(a.value, ast.ListComp) for a in defs) and pool in der
            ctx.ob("C17.R4", fn, defs[0] if defs else y, "the pool is a fresh copy of the input population", fresh,
                   "" if fresh else "the pool aliases the caller's population (or is not derived from it)")
            # winner drawn from a list derived from the pool
            d = last_def_before(loop.body, w.id, ystmt) if isinstance(w, ast.Name) else None
            src_ok = d is not None and _selects_from(d.value, derived_names(fn, {pool}))
            ctx.ob("C17.R4", fn, d or y, "winner is drawn from the remaining pool", src_ok,
                   "" if src_ok else "the winner does not come from the remaining candidates")


def run(ctx: Ctx) -> None:
    prog = ctx.prog
    ctx.rule("C17.R1", "tournament: tournament_size choice draws from the population; winner = max by maximising aggregate; winner yielded")
    ctx.rule("C17.R2", "lexicase: case order re-shuffled inside every winner's iteration")
    ctx.rule("C17.R3", "lexicase: best value / comparison / epsilon band follow each case's minimise flag; threshold from current candidates")
    ctx.rule("C17.R4", "lexicase: winner drawn from the remaining pool and removed once; pool is a fresh copy")
    check_key_function(ctx)
    tour = lex = 0
    for c in prog.subclasses(STEP):
        it = c.methods.get("iterate")
        if it is None:
            continue
        src = [call_name(x) for x in ast.walk(it.node) if isinstance(x, ast.Call)]
        if any(isinstance(x, ast.Attribute) and x.attr == "tournament_size" for x in ast.walk(it.node)):
            tour += 1
            tournament(ctx, it)
        elif "shuffle" in src and any(isinstance(x, ast.Attribute) and x.attr == "minimize" for x in ast.walk(it.node)):
            lex += 1
            lexicase(ctx, it)
    ctx.floor("C17.R1", tour, 1, "tournament selection steps")
    ctx.floor("C17.R2", lex, 1, "lexicase selection steps")
    ctx.assumptions += ["RandomSource.choice returns a member of its argument (C18)",
                        "individuals were evaluated before selection (evaluator call at the top of iterate)"]
